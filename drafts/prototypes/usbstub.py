import sys, types, os
def install():
    lib = types.ModuleType('libusb1')
    lib.LIBUSB_ERROR_TIMEOUT = -7
    class USBError(Exception):
        def __init__(self, value): self.value = value
    lib.USBError = USBError
    sys.modules['libusb1'] = lib
    import openhtf.plugs
    pkg = types.ModuleType('openhtf.plugs.usb')
    pkg.__path__ = [os.path.join(os.path.dirname(openhtf.plugs.__file__), 'usb')]
    sys.modules['openhtf.plugs.usb'] = pkg
install()
