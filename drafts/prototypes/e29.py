import threading, time, signal, os
def handler(s, f): raise KeyboardInterrupt
signal.signal(signal.SIGINT, handler)
def work(): time.sleep(1.0)
t = threading.Thread(target=work); t.start()
threading.Timer(0.1, lambda: os.kill(os.getpid(), signal.SIGINT)).start()
t0=time.time()
try:
    t.join(100)
except KeyboardInterrupt:
    print('interrupted at', round(time.time()-t0,2), 'is_alive', t.is_alive())
    t.join(100)
    print('second join returned at', round(time.time()-t0,2), 'is_alive', t.is_alive())
