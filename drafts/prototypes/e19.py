import usbstub, itertools, collections, io
from openhtf.plugs.usb import fastboot_protocol as fp, usb_exceptions as ue
class FU:
    def __init__(self, resp): self.resp=collections.deque(resp); self.out=[]
    def read(self, n, timeout_ms=None):
        if not self.resp: raise ue.UsbReadFailedError(__import__('libusb1').USBError(-7))
        return self.resp.popleft()
    def write(self, data, timeout_ms=None): self.out.append(data)
    def close(self): pass
fp.FASTBOOT_DOWNLOAD_CHUNK_SIZE_KB = 1
C=1024
def spec_simple(seq):
    infos=[]
    for r in seq:
        h, rest = r[:4], r[4:]
        if h=='INFO': infos.append(rest)
        elif h=='OKAY': return ('ret', rest), infos
        elif h=='DATA': return ('StateMismatch',), infos
        elif h=='FAIL': return ('RemoteFailure', rest), infos
        else: return ('Invalid',), infos
    return ('ReadFail',), infos
def run_simple(seq):
    u=FU(seq); cmds=fp.FastbootCommands(u); infos=[]
    cb=lambda m: infos.append((m.header,m.message))
    try: r=('ret', cmds.get_var('version', info_cb=cb))
    except ue.FastbootStateMismatchError: r=('StateMismatch',)
    except ue.FastbootRemoteFailureError as e: r=('RemoteFailure', str(e)[6:])
    except ue.FastbootInvalidResponseError: r=('Invalid',)
    except ue.UsbReadFailedError: r=('ReadFail',)
    except Exception as e: r=('EXC', type(e).__name__)
    return r, [m for h,m in infos if h=='INFO'], u.out
ALPH=['INFOhello','INFOx','OKAYdone','OKAY','DATA00000010','FAILbad','XXXXjunk','']
bad=0;n=0
for L in range(0,5):
    for seq in itertools.product(ALPH, repeat=L):
        n+=1
        r, infos, out = run_simple(list(seq)); er, einfos = spec_simple(seq)
        if r!=er or infos!=einfos or out!=['getvar:version']:
            bad+=1
            if bad<5: print(seq, r, er, infos, einfos, out)
print('simple', n, bad)
# download
bad=0;n=0
for size in (0,1,C-1,C,C+1,2*C-1,2*C,2*C+1,3*C+5):
    img=''.join(chr(33+(i%90)) for i in range(size))
    for first in ('DATA%08x'%size, 'DATA%08x'%(size+1), 'OKAY', 'FAILno', 'INFOa|DATA%08x'%size, 'JUNK'):
        for second in ('OKAY', 'FAILx', 'INFOb|OKAYfin', 'DATA00000000'):
            for pcb in (None, 'ok', 'raise'):
                n+=1
                u=FU(first.split('|')+second.split('|')); cmds=fp.FastbootCommands(u); prog=[]
                def p(cur,tot):
                    prog.append((cur,tot))
                    if pcb=='raise': raise RuntimeError('p')
                try: r=('ret', cmds.download(io.StringIO(img), source_len=size, progress_callback=(p if pcb else None), info_cb=lambda m: None))
                except ue.CommonUsbError as e: r=(type(e).__name__,)
                except Exception as e: r=('EXC', type(e).__name__, str(e))
                sent=u.out[1:]
                ok = u.out[0]=='download:%08x'%size
                if first.split('|')[-1]=='DATA%08x'%size:
                    ok = ok and ''.join(sent)==img and all(0<len(c)<=C for c in sent)
                    if pcb: 
                        exp=[]; cur=0
                        for c in sent: cur+=len(c); exp.append((cur,size))
                        ok = ok and prog==exp
                    exp_r = {'OKAY':('ret',''), 'FAILx':('FastbootRemoteFailureError',), 'INFOb|OKAYfin':('ret','fin'), 'DATA00000000':('FastbootStateMismatchError',)}[second]
                    ok = ok and r==exp_r
                else:
                    ok = ok and sent==[]
                    exp_r = {'DATA%08x'%(size+1):('FastbootTransferError',), 'OKAY':('FastbootStateMismatchError',), 'FAILno':('FastbootRemoteFailureError',), 'JUNK':('FastbootInvalidResponseError',)}[first]
                    ok = ok and r==exp_r
                if not ok:
                    bad+=1
                    if bad<6: print(size, first, second, pcb, r, [len(c) for c in sent], prog[:3])
print('download', n, bad)
