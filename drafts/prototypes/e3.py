import os, tempfile, json
import openhtf as htf
from openhtf.output.callbacks import json_factory, OutputToFile
import openhtf.output.callbacks as cb

d = tempfile.mkdtemp(dir='/tmp/exp')
tempfile.tempdir = d
dest = os.path.join(d, 'out.json')
open(dest,'w').write('{"old": "complete"}')

class Boom(json_factory.OutputToJSON):
    def serialize_test_record(self, rec):
        it = super().serialize_test_record(rec)
        for i, c in enumerate(it):
            if i == 3: raise RuntimeError('boom')
            yield c
recs=[]
def p(test): pass
t = htf.Test(p)
t.add_output_callbacks(Boom(dest), recs.append)
t.execute()
print(repr(open(dest).read()))
# NaN handling
@htf.measures(htf.Measurement('n'))
def q(test): test.measurements.n = float('nan')
dest2 = os.path.join(d, 'out2.json')
t = htf.Test(q)
t.add_output_callbacks(json_factory.OutputToJSON(dest2))
t.execute()
print(os.path.exists(dest2) and open(dest2).read()[:200])
