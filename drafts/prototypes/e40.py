import functools, itertools
# count forests (top-level list) with exactly n nodes; containers count as a node.
# leaf types L; containers: S(seq), T(subtest), B(branch x nb conds), G(group: 3 ordered child lists)
def make(L, nb):
    @functools.lru_cache(None)
    def forest(n):  # number of ordered forests with total n nodes
        if n==0: return 1
        tot=0
        for k in range(1,n+1):   # first tree has k nodes
            tot+=tree(k)*forest(n-k)
        return tot
    @functools.lru_cache(None)
    def tree(n):
        if n==1: return L + 0  # leaf; (empty containers excluded)
        c=0
        inner=n-1
        # S, T: non-empty forest of inner nodes
        c+= (2+nb)*forest(inner)
        # G: split inner nodes among setup/main/teardown forests (at least one non-empty overall)
        g=0
        for a in range(inner+1):
            for b in range(inner-a+1):
                g+=forest(a)*forest(b)*forest(inner-a-b)
        c+=g
        return c
    return forest
for L,nb,name in ((20,2,'full reduced (20 leaf types, 2 branch conds)'), (8,1,'small (8 leaf types, 1 cond)'), (4,1,'tiny (4 leaf types)')):
    f=make(L,nb)
    print(name, [ (n, sum(f(i) for i in range(1,n+1))) for n in range(1,7)])
