import sys, math, itertools, collections, copy
from fractions import Fraction
ROOT=sys.argv[1]; sys.argv=['x']; sys.path.insert(0, ROOT)
from openhtf.util import validators as V
import openhtf; assert openhtf.__file__.startswith(ROOT)
def ex(x):
    """exact value or special"""
    if x is None: return None
    if isinstance(x,bool): return Fraction(int(x))
    if isinstance(x,int): return Fraction(x)
    if isinstance(x,float):
        if math.isnan(x): return 'nan'
        if math.isinf(x): return 'inf' if x>0 else '-inf'
        return Fraction(x)
def le(a,b):
    # a<=b on extended exact values
    if a=='nan' or b=='nan': return False
    if a=='-inf' or b=='inf': return True
    if a=='inf' or b=='-inf': return a==b
    return a<=b
LIMS=[None,-10,-1,0,1,5,10,0.5,-0.5,1e-300,1e300,True, 2**53+1, float(2**53)]
def probes(lims):
    ps=[None,float('nan'),float('inf'),-float('inf'),0.0,-0.0,10**400,-10**400,True,False]
    for l in lims:
        if l is None: continue
        ps.append(l)
        f=float(l)
        ps+= [math.nextafter(f,math.inf), math.nextafter(f,-math.inf), l+1 if isinstance(l,int) else f*2, l-1 if isinstance(l,int) else f/2]
    return ps
kinds=collections.Counter(); exm={}
n=0
for mn,mx in itertools.product(LIMS,LIMS):
    for mmn,mmx in itertools.product([None,0,1,0.5,5],[None,10,9,5,0.5]):
        # expected constructor validity
        def num(x): return x is not None
        bad = (mn is None and mx is None) or (num(mn) and num(mx) and mn>mx) or (mmn is not None and mn is None) or (mmx is not None and mx is None) \
              or (mmn is not None and num(mn) and mn>mmn) or (mmx is not None and num(mx) and mx<mmx) or (mmn is not None and mmx is not None and mmn>mmx)
        try:
            v=V.InRange(mn,mx,mmn,mmx); ok=True
        except ValueError: ok=False
        if ok==bad:
            kinds[('ctor',ok,bad)]+=1; exm.setdefault(('ctor',ok,bad),(mn,mx,mmn,mmx)); continue
        if not ok: continue
        v2=copy.deepcopy(v); v3=v.with_args()
        for p in probes([mn,mx,mmn,mmx]):
            n+=1
            e=ex(p)
            exp = e is not None and e!='nan' and (mn is None or le(ex(mn),e)) and (mx is None or le(e,ex(mx)))
            expm = exp and ((mmn is not None and le(ex(mn),e) and le(e,ex(mmn))) or (mmx is not None and le(ex(mmx),e) and le(e,ex(mx))))
            for vv,tag in ((v,'orig'),(v2,'copy'),(v3,'with_args')):
                try: got=vv(p)
                except Exception as ex_: got='EXC:'+type(ex_).__name__
                if got!=exp:
                    k=('call',tag,str(got),exp, type(p).__name__); kinds[k]+=1; exm.setdefault(k,(mn,mx,mmn,mmx,p))
                try: gm=vv.is_marginal(p)
                except Exception as ex_: gm='EXC:'+type(ex_).__name__
                if exp and gm!=expm:
                    k=('marg',tag,str(gm),expm,type(p).__name__); kinds[k]+=1; exm.setdefault(k,(mn,mx,mmn,mmx,p))
            if str(v)!=str(v2) or str(v)!=str(v3) or not (v==v2==v3): kinds['derived differs']+=1
print(n,'probes')
for k,c in kinds.items(): print(c,k,exm.get(k))
# within_percent
kinds=collections.Counter(); exm={}
for exp_,pct,mp in itertools.product([10,-10,0.1,-0.1,0,1e300,3],[0,5,100,150,0.1],[None,1,2.5]):
    try: w=V.WithinPercent(exp_,pct,mp); ok=True
    except ValueError: ok=False
    bad = pct<0 or (mp is not None and mp>=pct)
    if ok==bad: kinds[('ctor',exp_,pct,mp)]+=1; continue
    if not ok: continue
    E=Fraction(exp_); A=abs(E*Fraction(pct)/100); lo,hi=E-A,E+A
    for f in (float(lo),float(hi),float(E)):
        for p in (f, math.nextafter(f,math.inf), math.nextafter(f,-math.inf), *(f+d*max(abs(f),1e-300)*1e-12 for d in (-1,1)), f+float(A)/2 if A else f, f-float(A)/2 if A else f):
            P=Fraction(p); ulp=Fraction(math.ulp(f))*4
            got=w(p)
            if P<lo-ulp and got: kinds[('accept outside',exp_,pct)]+=1
            if P>hi+ulp and got: kinds[('accept outside',exp_,pct)]+=1
            if lo+ulp<=P<=hi-ulp and not got: kinds[('reject inside',exp_,pct)]+=1; exm.setdefault('ri',(exp_,pct,p))
            try:
                if w.is_marginal(p) and not got: kinds[('marginal outside',exp_,pct,mp)]+=1
            except TypeError: kinds[('marg TypeError',mp)]+=1
print(dict(kinds), exm)
