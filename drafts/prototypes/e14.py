import sys; sys.argv=['x']
import openhtf as htf, attr, copy
from openhtf import plugs
from openhtf.core import base_plugs
class P(htf.BasePlug): pass
class Q(P): pass
class D(htf.DiagResultEnum): A='a'
@htf.PhaseDiagnoser(D)
def dg(rec): return None

def snap(p):
    return (attr.asdict(p.options), [ (m.name, [str(v) for v in m.validators], m.docstring, m.outcome, str(m.measured_value)) for m in p.measurements],
            [ (x.name, x.cls, x.update_kwargs) for x in p.plugs], [d.name for d in p.diagnosers], dict(p.extra_kwargs), p.name)

def base():
    @htf.PhaseOptions(timeout_s=3)
    @htf.measures(htf.Measurement('m').in_range(0,10))
    @plugs.plug(p=P.placeholder)
    @htf.diagnose(dg)
    def ph(test, p, x=1): pass
    return ph

derive = {
 'with_args': lambda p: p.with_args(x=2),
 'with_plugs_hit': lambda p: p.with_plugs(p=Q),
 'with_plugs_miss': lambda p: p.with_plugs(zzz=Q),
 'PhaseOptions': lambda p: htf.PhaseOptions(repeat_limit=2)(p),
 'measures': lambda p: htf.measures('n')(p),
 'diagnose': lambda p: htf.diagnose(dg)(p),
 'plug': lambda p: plugs.plug(q=Q)(p),
 'seq': lambda p: htf.PhaseSequence(p).nodes[0],
 'group': lambda p: htf.PhaseGroup(main=[p]).main.nodes[0],
 'group_seq': lambda p: htf.PhaseGroup(main=htf.PhaseSequence(p)).main.nodes[0],
 'subtest': lambda p: htf.Subtest('s', p).nodes[0],
 'seq_copy': lambda p: htf.PhaseSequence(htf.PhaseSequence(p)).nodes[0].nodes[0] if isinstance(htf.PhaseSequence(htf.PhaseSequence(p)).nodes[0], htf.PhaseSequence) else htf.PhaseSequence(htf.PhaseSequence(p)).nodes[0],
 'test': lambda p: htf.Test(p).descriptor.phase_sequence.nodes[0],
 'wrap_or_copy': lambda p: htf.PhaseDescriptor.wrap_or_copy(p),
 'load_code_info': lambda p: p.load_code_info(),
}
mods = {
 'options.update': lambda d: d.options.update(timeout_s=99, name='zz'),
 'meas.append': lambda d: d.measurements.append(htf.Measurement('k')),
 'diag.append': lambda d: d.diagnosers.append(dg),
 'plugs.append': lambda d: d.plugs.append(base_plugs.PhasePlug('w', Q)),
 'extra_kwargs': lambda d: d.extra_kwargs.update(x=5),
 'meas[0].with_validator(depth2)': lambda d: d.measurements[0].with_validator(lambda v: True),
 'plugs[0].name(depth2)': lambda d: setattr(d.plugs[0], 'name', 'zzz'),
}
for dn, df in derive.items():
    for mn, mf in mods.items():
        p = base(); s0 = snap(p)
        d = df(p)
        same = d is p
        s1 = snap(p)
        mf(d)
        s2 = snap(p)
        if s0 != s1 or s1 != s2 or same:
            print(dn, '|', mn, '| derive-mutates' if s0!=s1 else '', '| same-object' if same else '', '| mod-leaks' if s1!=s2 else '')
