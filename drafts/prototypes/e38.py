import sys, logging, io, contextlib, random, re, collections
ROOT=sys.argv[1]; sys.argv=['x']; sys.path.insert(0, ROOT)
import openhtf as htf
assert htf.__file__.startswith(ROOT)
from openhtf.util import logs
from openhtf import plugs
MAC=re.compile(r'(?i)\b(?:[0-9a-f]{2}:){5}[0-9a-f]{2}\b')
kinds=collections.Counter(); ex={}
def run(seed):
    rng=random.Random(seed)
    emitted=[]   # (id, expected_in_record, expected_text_pred)
    ctr=[0]
    other_uid='4242:deadbeefdeadbeef:0123456789abcdef:1790000000000'
    class Plug(htf.BasePlug):
        def hello(self, emit): emit(self.logger,'plug')
    def emit(logger, kind, expect=True):
        ctr[0]+=1; i=ctr[0]
        shape=rng.choice(['plain','args','dict','obj','mac','macarg','macsplit','macdict','macobj','MACUP'])
        tag='#%d#'%i
        lvl=rng.choice([logging.DEBUG,logging.INFO,logging.WARNING,logging.ERROR,logging.CRITICAL])
        mac='f8:8f:ca:%02x:%02x:%02x'%(rng.randrange(256),rng.randrange(256),rng.randrange(256))
        class O:
            def __str__(s): return 'obj '+mac
        if shape=='plain': logger.log(lvl, tag+' plain')
        elif shape=='args': logger.log(lvl, tag+' %s %d', 'x', 3)
        elif shape=='dict': logger.log(lvl, tag+' %(a)s', {'a':'v'})
        elif shape=='obj': logger.log(lvl, tag+' %s', object)
        elif shape=='mac': logger.log(lvl, tag+' dev '+mac+' end')
        elif shape=='macarg': logger.log(lvl, tag+' dev %s end', mac)
        elif shape=='macsplit': logger.log(lvl, tag+' dev %s:%s end', mac[:8], mac[9:])
        elif shape=='macdict': logger.log(lvl, tag+' dev %(m)s end', {'m':mac})
        elif shape=='macobj': logger.log(lvl, tag+' %s end', O())
        elif shape=='MACUP': logger.log(lvl, tag+' dev '+mac.upper()+' end')
        emitted.append((i, expect, lvl, logger.name, shape))
    def ph1(test, p):
        emit(test.logger,'phase')
        p.hello(emit)
        emit(logs.get_record_logger_for(test._running_test_state.execution_uid), 'record')
        emit(logs.get_record_logger_for(test._running_test_state.execution_uid).getChild('custom.child'), 'record-child')
        emit(logging.getLogger('openhtf.some.framework'), 'framework')
        emit(logs.get_record_logger_for(other_uid), 'other', expect=False)
        emit(logs.get_record_logger_for(other_uid).getChild('phase.x'), 'other-child', expect=False)
        emit(logging.getLogger('notopenhtf.x'), 'outside', expect=False)
        emit(logging.getLogger('openhtf.test_recorder.fake'), 'framework-lookalike')
    ph1=plugs.plug(p=Plug)(ph1)
    def ph2(test):
        for _ in range(rng.randint(0,4)): emit(test.logger,'phase2')
    t=htf.Test(ph1,ph2); recs=[]; t.add_output_callbacks(recs.append)
    nh=len(logging.getLogger('openhtf').handlers)
    with contextlib.redirect_stdout(io.StringIO()), contextlib.redirect_stderr(io.StringIO()):
        t.execute()
    rec=recs[0]
    got=[(int(m.group(1)), l) for l in rec.log_records for m in [re.match(r'#(\d+)#', l.message)] if m]
    exp=[e for e in emitted if e[1]]
    probs=[]
    if [g[0] for g in got]!=[e[0] for e in exp]:
        miss=set(e[0] for e in exp)-set(g[0] for g in got); extra=set(g[0] for g in got)-set(e[0] for e in exp)
        for e in emitted:
            if e[0] in miss: probs.append(('missing',e[4],e[3].split('.')[0:3][-1] if False else e[4]))
            if e[0] in extra: probs.append(('foreign',e[3][:40]))
        if not miss and not extra: probs.append(('order',))
    for (i,l),e in zip(got,exp):
        if i!=e[0]: break
        if l.level!=e[2] or l.logger_name!=e[3] or l.source!='e38.py': probs.append(('fields',e[4]))
        if MAC.search(l.message): probs.append(('mac not redacted',e[4]))
        if e[4].lower().startswith('mac') and 'f8:8f:ca' not in l.message.lower(): probs.append(('prefix lost',e[4]))
    if len(logging.getLogger('openhtf').handlers)!=nh: probs.append(('handlers',))
    n0=len(rec.log_records); logging.getLogger('openhtf.late').error('late'); 
    if len(rec.log_records)!=n0: probs.append(('late log altered record',))
    return probs
for s in range(300):
    for p in run(s):
        kinds[p]+=1; ex.setdefault(p,s)
for k,v in sorted(kinds.items(), key=str): print(v,k,ex[k])
