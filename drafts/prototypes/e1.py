import openhtf as htf
from openhtf.core import test_record
import logging

recs=[]
calls=[]
@htf.PhaseOptions(run_if=lambda: False)
def p1(test): calls.append('p1')
def p2(test): calls.append('p2')

t = htf.Test(p1, p2)
t.configure(stop_on_first_failure=True)
t.add_output_callbacks(recs.append)
r = t.execute()
print('ret', r, 'outcome', recs[0].outcome, 'phases', [(p.name,p.outcome) for p in recs[0].phases], 'calls', calls, recs[0].outcome_details)
