import usbstub, sys, threading, time, collections, struct
from openhtf.plugs.usb import adb_message, adb_protocol, usb_exceptions
import libusb1
mon = sys.monitoring; TOOL=3; mon.use_tool_id(TOOL,'pp')
M = adb_message.AdbMessage

class FakeTransport:
    def __init__(self): self.inq = collections.deque(); self.out=[]; self.cv=threading.Condition()
    def write(self, data, timeout_ms): self.out.append(data)
    def read(self, n, timeout_ms):
        with self.cv:
            end = time.time() + (timeout_ms or 0)/1000.0
            while not self.inq:
                rem = end - time.time()
                if rem <= 0: raise usb_exceptions.UsbReadFailedError(libusb1.USBError(-7))
                self.cv.wait(rem)
            return self.inq.popleft()
    def feed(self, msg):
        with self.cv:
            self.inq.append(msg.header)
            if msg.data: self.inq.append(msg.data)
            self.cv.notify_all()
    def close(self): pass

paused = threading.Event(); resume = threading.Event(); target = {}
def on_line(code, line):
    if target.get('line') == line and threading.current_thread().name == target.get('thread') and not paused.is_set():
        paused.set(); resume.wait(5)
fn = adb_protocol.AdbStreamTransport._read_messages_until_true
mon.set_local_events(TOOL, fn.__code__, mon.events.LINE)
mon.register_callback(TOOL, mon.events.LINE, on_line)

def run(line):
    paused.clear(); resume.clear(); target.update(line=line, thread='W')
    t = FakeTransport()
    t.feed(M('CNXN', 0x01000000, 256, 'device:SER:banner'))
    conn = adb_protocol.AdbConnection.connect(t)
    t.feed(M('OKAY', 77, 1))
    s = conn.open_stream('shell:ls', timeout_ms=500)
    res = {}
    def W():
        try: s.write('x', timeout_ms=2000); res['W']='ok'
        except Exception as e: res['W']=type(e).__name__
    def R():
        try: res['R']=s.read(timeout_ms=1500)
        except Exception as e: res['R']=type(e).__name__
    w = threading.Thread(target=W, name='W'); w.start(); time.sleep(0.1)
    r = threading.Thread(target=R, name='R'); r.start(); time.sleep(0.1)
    t.feed(M('OKAY', 77, 1))       # ack for W's WRTE
    if paused.wait(1):
        time.sleep(0.2)             # let R react to notify while W is paused
        resume.set()
    w.join()
    t.feed(M('WRTE', 77, 1, 'data'))
    r.join()
    return res, bool(t.inq)
import inspect
src, start = inspect.getsourcelines(fn)
for i, l in enumerate(src):
    ln = start + i
    if 'notify_all' in l or 'self._reader_lock.release()' in l or 'finally' in l:
        print(ln, l.strip(), run(ln))
print('no pause', run(-1))
