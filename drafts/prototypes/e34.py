import sys, threading, time, io, contextlib, random
ROOT=sys.argv[1]; sys.argv=['x']; sys.path.insert(0, ROOT)
import openhtf as htf
from openhtf import plugs
from openhtf.core import test_descriptor
sys.setswitchinterval(1e-5)
class D(htf.DiagResultEnum):
    A='a'; B='b'
def mktest(tag, nph):
    class Plug(htf.BasePlug):
        def __init__(self): self.tag=tag
    Plug.__name__='Plug_'+tag
    phases=[]
    for i in range(nph):
        @htf.PhaseDiagnoser(D)
        def dg(rec, tag=tag, i=i): return htf.Diagnosis(D.A if tag=='A' else D.B, 'diag-%s-%d'%(tag,i))
        @htf.diagnose(dg)
        @htf.measures(htf.Measurement('m').with_dimensions('x'), htf.Measurement('s'))
        @plugs.plug(p=Plug)
        def ph(test, p, tag=tag, i=i):
            assert p.tag==tag
            test.state.setdefault('seen', []).append((tag,i))
            test.measurements.s='%s-%d'%(tag,i)
            for k in range(5): test.measurements.m[k]='%s-%d-%d'%(tag,i,k)
            test.attach('att%d'%i, ('%s-%d'%(tag,i)).encode())
            test.logger.info('log-%s-%d', tag, i)
            test.dut_id='dut-'+tag
            return None
        phases.append(htf.PhaseOptions(name='ph_%s_%d'%(tag,i))(ph))
    def last(test, tag=tag): test.state['final']=list(test.state['seen'])
    t=htf.Test(*phases)
    return t
def check(tag, rec, nph):
    probs=[]
    other='B' if tag=='A' else 'A'
    txt=repr(rec.as_base_types())+repr([ (p.name, p.measurements, {k:a.data for k,a in p.attachments.items()}, p.diagnosis_results) for p in rec.phases])+repr(rec.log_records)+repr(rec.diagnoses)
    if ('-%s-'%other) in txt or ('dut-'+other) in txt or ('ph_%s_'%other) in txt: probs.append('foreign data in '+tag)
    if len(rec.phases)!=nph or rec.outcome.name!='PASS': probs.append((tag,'outcome',rec.outcome.name,len(rec.phases)))
    msgs=[l.message for l in rec.log_records if l.message.startswith('log-')]
    if msgs!=['log-%s-%d'%(tag,i) for i in range(nph)]: probs.append((tag,'logs',msgs))
    return probs
bad=0
t0=time.time()
for it in range(150):
    recs={}
    ts={'A':mktest('A',4),'B':mktest('B',4)}
    for k,t in ts.items(): t.add_output_callbacks(lambda r,k=k: recs.setdefault(k,r))
    def go(k):
        ts[k].execute()
    with contextlib.redirect_stdout(io.StringIO()):
        th=[threading.Thread(target=go,args=(k,)) for k in ts]; [x.start() for x in th]; [x.join() for x in th]
    for k in ts:
        p=check(k, recs[k], 4)
        if p: bad+=1; print(it, p[:2])
print('bad',bad, round(time.time()-t0,1))
