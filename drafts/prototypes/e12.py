import sys, threading, time, itertools, io, contextlib
sys.argv=['x']
exec(open('e11.py').read().split("E = Engine()")[0])
from openhtf.core import test_state
from openhtf import plugs
E = Engine()
TE = test_executor.TestExecutor; PE = phase_executor.PhaseExecutor; PT = phase_executor.PhaseExecutorThread
funcs = [TE._execute_abortable_sequence, TE._execute_teardown_sequence, TE._execute_phase_group, TE._execute_sequence, TE._execute_node, TE._execute_phase,
         PE.execute_phase, PE._execute_phase_once, TE._thread_proc, TE._execute_test_teardown, PT.join_or_die, PT._thread_proc,
         test_state.TestState.running_phase_context.__wrapped__, hthreads.KillableThread.run, test_state.PhaseState.finalize]
E.instrument(funcs)
seq = itertools.count()
class Plug(htf.BasePlug):
    def __init__(self): EV.append((next(seq),'plug_ctor'))
    def tearDown(self): EV.append((next(seq),'plug_td'))
EV=[]
def scenario(target, slow_main):
    global EV
    E.target = target; E.seen = {}; E.fired = False; E.paused.clear(); E.resume.clear()
    EV = ev = []
    def mk(name, slow=False):
        def body(test, p):
            ev.append((next(seq), 'start', name))
            if slow:
                t0=time.time()
                while time.time()-t0 < 0.05: pass
            ev.append((next(seq), 'end', name))
        body.__name__ = name
        return plugs.plug(p=Plug)(body)
    t = htf.Test(htf.PhaseGroup(setup=[mk('s')], main=[mk('m1', slow_main), mk('m2')], teardown=[mk('t1'), mk('t2')]), mk('after'))
    recs = []
    t.add_output_callbacks(lambda r: (recs.append(r), ev.append((next(seq),'cb'))))
    def ctrl():
        if E.paused.wait(3):
            ev.append((next(seq), 'abort_call'))
            t.abort_from_sig_int()
            ev.append((next(seq), 'abort_ret'))
            E.resume.set()
    c = threading.Thread(target=ctrl); c.start()
    with contextlib.redirect_stdout(io.StringIO()):
        t.execute()
    E.resume.set(); c.join()
    return ev, recs[0].outcome.name, dict(E.seen)
ev, out, seen = scenario(None, False)
print(out, [e[1:] for e in ev])
points = sorted(seen.items())
n=0; viol=[]
import collections
for (qn, line), cnt in points:
    for h in range(1, cnt+1):
        ev, out, _ = scenario((qn, line, h), True)
        n+=1
        names=[e[2] for e in ev if e[1]=='start']
        sdone = any(e[1]=='end' and e[2]=='s' for e in ev)
        tds = [x for x in names if x in('t1','t2')]
        ok = True
        if sdone and tds != ['t1','t2']: ok=False
        if not sdone and tds: ok=False
        ar=[e[0] for e in ev if e[1]=='abort_ret']
        late=[e[2] for e in ev if e[1]=='start' and ar and e[0]>ar[0] and e[2] not in ('t1','t2')]
        ptd=[e[0] for e in ev if e[1]=='plug_td']; cb=[e[0] for e in ev if e[1]=='cb']
        if len(ptd)!=1 or len(cb)!=1 or not ptd[0]<cb[0]: ok=False
        if not ok: viol.append((qn,line,h,out,[e[1:] for e in ev]))
print(n,'runs', len(viol),'teardown/plug violations')
for v in viol[:10]: print(v)
