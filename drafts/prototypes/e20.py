import usbstub, struct, random, collections
from openhtf.plugs.usb import adb_message as am, usb_exceptions as ue
from openhtf.util import timeouts
M=am.AdbMessage
class FT:
    def __init__(self): self.buf=collections.deque(); self.out=[]
    def write(self, d, t): self.out.append(d)
    def read(self, n, t):
        if not self.buf: return b''
        return self.buf.popleft()
    def close(self): pass
rng=random.Random(1)
T=lambda: timeouts.PolledTimeout.from_millis(1000)
n=0;bad=[]
kinds=collections.Counter()
for cmd in M.CMD_TO_WIRE:
  for a0 in (0,1,2**31,2**32-1):
    for ln in (0,1,2,255,256):
        data=''.join(chr(rng.randrange(256)) for _ in range(ln))
        m=M(cmd,a0,2**32-1-a0,data)
        t=FT(); ad=am.AdbTransportAdapter(t); ad.write_message(m,T())
        hdr,pl=t.out
        exp=struct.pack('<6I', M.CMD_TO_WIRE[cmd], a0, 2**32-1-a0, ln, sum(map(ord,data))&0xffffffff, M.CMD_TO_WIRE[cmd]^0xffffffff)
        if hdr!=exp or pl!=data or len(t.out)!=2: bad.append(('write',cmd,a0,ln))
        # roundtrip
        t.buf.extend([hdr]+([pl] if ln else []))
        r=ad.read_message(T())
        if (r.command,r.arg0,r.arg1,r.data)!=(cmd,a0,2**32-1-a0,data): bad.append(('rt',cmd,a0,ln))
        n+=1
        # corruptions
        fields=list(struct.unpack('<6I',hdr))
        for fi in range(6):
            for newv in (0,1,fields[fi]^1,fields[fi]^0x80000000,(fields[fi]+1)&0xffffffff, 0xffffffff):
                if newv==fields[fi]: continue
                f2=list(fields); f2[fi]=newv
                h2=struct.pack('<6I',*f2)
                t=FT(); ad=am.AdbTransportAdapter(t)
                t.buf.append(h2)
                if f2[3]>0: t.buf.append(data[:f2[3]] if f2[3]<=ln else data)   # transport returns at most what exists
                try:
                    r=ad.read_message(T()); k='delivered'
                    cons = len(r.data)==f2[3] and (sum(map(ord,r.data))&0xffffffff)==f2[4] and f2[0] in M.WIRE_TO_CMD
                    if not cons: bad.append(('inconsistent delivered', cmd, fi, newv, ln))
                except (ue.AdbProtocolError, ue.AdbDataIntegrityError) as e: k=type(e).__name__
                except Exception as e: k='EXC:'+type(e).__name__; bad.append((k,cmd,fi,newv,ln))
                kinds[(fi,k)]+=1
        for cut in range(0,24):
            t=FT(); ad=am.AdbTransportAdapter(t); 
            if cut: t.buf.append(hdr[:cut])
            try: ad.read_message(T()); bad.append(('short delivered',cut))
            except ue.AdbProtocolError: kinds[('short','AdbProtocolError')]+=1
            except Exception as e: bad.append(('short', cut, type(e).__name__))
print(n, len(bad), bad[:8]); print(dict(kinds))
