import sys, os, io, contextlib
root, d = sys.argv[1], sys.argv[2]; sys.argv=['x']; sys.path.insert(0, root)
os.environ['TMPDIR']=d
import tempfile; tempfile.tempdir=d
import openhtf as htf
from openhtf.output.callbacks import json_factory
@htf.measures(htf.Measurement('m').in_range(0,10))
def p(test): test.measurements.m=5; test.attach('a', b'xyz')
t=htf.Test(p)
t.add_output_callbacks(json_factory.OutputToJSON(os.path.join(d,'out.json')))
os.write(2, b'MARK-START\n')
with contextlib.redirect_stdout(io.StringIO()):
    t.execute()
os.write(2, b'MARK-END\n')
