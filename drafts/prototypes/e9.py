import sys, random, argparse
sys.argv=['x']
from openhtf.util import configuration as C

class Model:
    def __init__(self, flags):
        self.decl = {}      # name -> (has_default, default)
        self.loaded = {}
        self.flags = dict(flags)
    def read(self, k):
        if k not in self.decl: return ('UndeclaredKeyError',)
        if k in self.flags: return ('ok', self.flags[k])
        if k in self.loaded: return ('ok', self.loaded[k])
        if self.decl[k][0]: return ('ok', self.decl[k][1])
        return ('UnsetKeyError',)
    def contains(self, k): return self.read(k)[0] == 'ok'
    def asdict(self):
        d = {k: v[1] for k, v in self.decl.items() if v[0]}
        d.update(self.loaded)
        for k, v in self.flags.items():
            if k in self.decl: d[k] = v
        return d

KEYS = ['alpha', 'beta', 'gamma', 'delta', 'flagged', 'flagundecl']
VALS = [0, 1, 's', None, 2.5, [1], {'a': 1}, False]

def run(seed):
    rng = random.Random(seed)
    conf = C._Configuration()
    ns = argparse.Namespace(config_value=['flagged=7', 'flagundecl=x', 'flagged=8'], config_file=None)
    conf.load_flag_values(ns)
    m = Model({'flagged': 7, 'flagundecl': 'x'})
    holders = {}
    trace = []
    def check():
        for k in KEYS:
            exp = m.read(k)
            for how in ('item', 'attr', 'holder'):
                if how == 'holder' and k not in holders: continue
                try:
                    if how == 'item': got = ('ok', conf[k])
                    elif how == 'attr': got = ('ok', getattr(conf, k))
                    else: got = ('ok', holders[k].value)
                except (C.UndeclaredKeyError, C.UnsetKeyError) as e:
                    got = (type(e).__name__,)
                assert got == exp, (seed, trace, k, how, got, exp)
            assert (k in conf) == m.contains(k), (seed, trace, k, 'contains')
        assert conf._asdict() == m.asdict(), (seed, trace, conf._asdict(), m.asdict())
    for step in range(12):
        op = rng.choice(['declare', 'declare_d', 'load', 'load_no', 'load_undecl', 'reset', 'sar', 'sar_raise', 'redeclare', 'setattr'])
        k = rng.choice(KEYS); v = rng.choice(VALS)
        trace.append((op, k, v))
        if op in ('declare', 'declare_d', 'redeclare'):
            try:
                if op == 'declare_d': holders[k] = conf.declare(k, default_value=v)
                else: holders[k] = conf.declare(k)
                assert k not in m.decl, (seed, trace)
                m.decl[k] = (op == 'declare_d', v)
            except C.KeyAlreadyDeclaredError:
                assert k in m.decl, (seed, trace)
        elif op == 'load':
            d = {k: v, rng.choice(KEYS): rng.choice(VALS)}
            conf.load_from_dict(d)
            for kk, vv in d.items():
                if kk in m.decl: m.loaded[kk] = vv
        elif op == 'load_no':
            conf.load(_override=False, **{k: v})
            if k in m.decl and k not in m.loaded: m.loaded[k] = v
        elif op == 'load_undecl':
            conf.load_from_dict({k: v}, _allow_undeclared=True)
            m.loaded[k] = v
        elif op == 'reset':
            conf.reset(); m.loaded = {}
        elif op in ('sar', 'sar_raise'):
            saved = dict(m.loaded)
            def inner():
                conf.load_from_dict({k: 'inner'})
                if k in m.decl: m.loaded[k] = 'inner'
                check()
                if op == 'sar_raise': raise ZeroDivisionError
            k2 = rng.choice(KEYS)
            if k2 in m.decl: m.loaded[k2] = 'deco'
            try:
                conf.save_and_restore(inner, **{k2: 'deco'})()
            except ZeroDivisionError: pass
            m.loaded = saved
        elif op == 'setattr':
            try:
                setattr(conf, k, v); assert False, (seed, trace)
            except AttributeError: pass
        check()
    return len(trace)
n=0
for s in range(3000): n+=run(s)
print('ok', n)
