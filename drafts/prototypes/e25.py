import usbstub, sys, threading, time, collections, struct, random
from openhtf.plugs.usb import adb_message, adb_protocol, usb_exceptions
import libusb1
M = adb_message.AdbMessage
class Device:
    """Reactive fake adbd behind a FakeTransport."""
    def __init__(self, scripts, maxdata=64, rng=None):
        self.cv=threading.Condition(); self.inq=collections.deque(); self.pending_hdr=None
        self.scripts=scripts  # dest -> list of payload slices device sends
        self.maxdata=maxdata; self.streams={}  # remote_id -> dict
        self.next_remote=100; self.log=[]; self.rng=rng or random.Random(0)
        self.host_msgs=[]
    # transport API
    def write(self, data, timeout_ms):
        with self.cv:
            if self.pending_hdr is None and isinstance(data, bytes) and len(data)==24:
                self.pending_hdr = struct.unpack('<6I', data); return
            hdr=self.pending_hdr; self.pending_hdr=None
            cmd=M.WIRE_TO_CMD[hdr[0]]; a0,a1,ln=hdr[1],hdr[2],hdr[3]
            assert len(data)==ln, (cmd, ln, len(data))
            self.host_msgs.append((cmd,a0,a1,data))
            self.handle(cmd,a0,a1,data)
            self.cv.notify_all()
    def read(self, n, timeout_ms):
        with self.cv:
            end=time.time()+(timeout_ms or 0)/1000.0
            while not self.inq:
                rem=end-time.time()
                if rem<=0: raise usb_exceptions.UsbReadFailedError(libusb1.USBError(-7))
                self.cv.wait(rem)
            return self.inq.popleft()
    def close(self): pass
    def send(self, m):
        self.inq.append(m.header)
        if m.data: self.inq.append(m.data)
    # device logic (called with cv held)
    def handle(self, cmd, a0, a1, data):
        if cmd=='CNXN': self.send(M('CNXN', 0x01000000, self.maxdata, 'device:SER:banner'))
        elif cmd=='OPEN':
            dest=data.rstrip('\0'); rid=self.next_remote; self.next_remote+=1
            st={'local':a0,'rid':rid,'dest':dest,'todo':list(self.scripts.get(dest,[])),'unacked':0,'sent':[],'got':[],'acks':0,'host_unacked':0,'closed':False}
            self.streams[rid]=st
            self.send(M('OKAY', rid, a0))
            self.pump(st)
        elif cmd=='WRTE':
            st=self.streams[a1]
            st['host_unacked']+=1
            if st['host_unacked']>1: self.log.append(('two host WRTE in flight', st['dest']))
            if len(data)>self.maxdata: self.log.append(('chunk too big', len(data)))
            st['got'].append(data)
            st['host_unacked']-=1
            self.send(M('OKAY', st['rid'], st['local']))
        elif cmd=='OKAY':
            st=self.streams.get(a1)
            if st is None: self.log.append(('okay for unknown', a0, a1)); return
            if (a0,a1)!=(st['local'],st['rid']): self.log.append(('bad okay ids',a0,a1))
            st['acks']+=1; st['unacked']-=1
            if st['unacked']<0: self.log.append(('extra ack', st['dest']))
            self.pump(st)
        elif cmd=='CLSE':
            st=self.streams.get(a1)
            if st: st['host_closed']=st.get('host_closed',0)+1
    def pump(self, st):
        if st['closed'] or st['unacked']: return
        if st['todo']:
            d=st['todo'].pop(0); st['unacked']+=1; st['sent'].append(d)
            self.send(M('WRTE', st['rid'], st['local'], d))
        else:
            st['closed']=True
            self.send(M('CLSE', st['rid'], st['local']))

def scenario(seed, nstreams=2, yield_p=0.0):
    rng=random.Random(seed)
    scripts={}
    for s in range(nstreams):
        scripts['svc:%d'%s]=['%d.%d:'%(s,j)+'x'*rng.randint(0,20) for j in range(rng.randint(1,5))]
    dev=Device(scripts, rng=rng)
    conn=adb_protocol.AdbConnection.connect(dev)
    res={}
    def worker(s):
        dest='svc:%d'%s
        try:
            st=conn.open_stream(dest, timeout_ms=3000)
            out=[]
            payload=''.join(chr(65+(i%26)) for i in range(rng.randint(0,200)))
            wres={}
            def w():
                try: st.write(payload, timeout_ms=3000); wres['w']='ok'
                except Exception as e: wres['w']=type(e).__name__
            wt=threading.Thread(target=w); wt.start()
            try:
                for d in st.read_until_close(timeout_ms=3000): out.append(d)
                r='closed'
            except Exception as e: r=type(e).__name__
            wt.join()
            res[s]=(r, ''.join(out), payload, wres.get('w'))
        except Exception as e:
            res[s]=('open-fail', type(e).__name__, str(e))
    ths=[threading.Thread(target=worker,args=(s,)) for s in range(nstreams)]
    [t.start() for t in ths]; [t.join() for t in ths]
    probs=list(dev.log)
    for s in range(nstreams):
        dest='svc:%d'%s
        st=[x for x in dev.streams.values() if x['dest']==dest]
        if not st: probs.append(('no stream',s, res.get(s))); continue
        st=st[0]; r=res[s]
        if r[0]=='open-fail': probs.append(('open-fail', s, r)); continue
        if r[0]!='closed' or r[1]!=''.join(scripts[dest]): probs.append(('read mismatch', s, r[0], r[1][:30], ''.join(scripts[dest])[:30]))
        # writes may fail with StreamClosed if device closed first; if ok then device got it all
        if r[3]=='ok' and ''.join(st['got'])!=r[2]: probs.append(('write mismatch', s))
        if r[3]!='ok' and r[3] not in ('AdbStreamClosedError',): probs.append(('write error', s, r[3]))
        if st['acks']!=len(st['sent']): probs.append(('ack count', s, st['acks'], len(st['sent'])))
    return probs
sys.setswitchinterval(1e-5)
bad=collections.Counter(); ex={}
t0=time.time()
for seed in range(300):
    p=scenario(seed, nstreams=random.Random(seed).randint(1,3))
    for x in p:
        bad[x[0]]+=1; ex.setdefault(x[0], (seed,x))
print(time.time()-t0, dict(bad)); print(ex)
