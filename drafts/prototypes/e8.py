import usbstub, struct, collections
from openhtf.plugs.usb import adb_message, adb_protocol, usb_exceptions, fastboot_protocol
from openhtf.util import timeouts

class FakeTransport:
    def __init__(self): self.inq = collections.deque(); self.out=[]
    def write(self, data, timeout_ms): self.out.append(data)
    def read(self, n, timeout_ms):
        if not self.inq: raise usb_exceptions.UsbReadFailedError(__import__('libusb1').USBError(-7))
        return self.inq.popleft()
    def feed(self, msg):
        self.inq.append(msg.header); 
        if msg.data: self.inq.append(msg.data)
    def close(self): pass
M = adb_message.AdbMessage
t = FakeTransport()
t.feed(M('CNXN', 0x01000000, 256, 'device:SER:banner'))
conn = adb_protocol.AdbConnection.connect(t)
print(conn.maxdata, conn.systemtype, conn.serial, conn.banner)
# open stream
t.feed(M('OKAY', 77, 1))
s = conn.open_stream('shell:ls', timeout_ms=100)
print(s, [ (adb_message.RawAdbMessage(*struct.unpack('<6I', x)) if isinstance(x, bytes) else x) for x in t.out])
t.feed(M('CNXN', 0, 0, 'x:y:z'))
try:
    s.read(timeout_ms=100)
except Exception as e:
    print('mid-session CNXN ->', type(e).__name__, e)
