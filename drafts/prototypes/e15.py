import sys, threading, time as realtime, io, contextlib
sys.argv=['x']
import openhtf as htf
from openhtf.core import phase_executor
from openhtf import plugs

class VClock:
    def __init__(self):
        self.now = 0.0; self.cv = threading.Condition(); self.sleepers = {}  # thread -> wake
    def monotonic(self): 
        with self.cv: return self.now
    def vsleep(self, dt):
        me = threading.current_thread()
        with self.cv:
            wake = self.now + dt
            self.sleepers[me] = wake
            self.cv.notify_all()
            try:
                while self.now < wake:
                    self.cv.wait(0.005)      # real slices so async kill is delivered
            finally:
                self.sleepers.pop(me, None); self.cv.notify_all()
    def vjoin(self, thread, timeout):
        # executor waits until thread dead or virtual timeout elapsed
        with self.cv:
            end = self.now + timeout
        while True:
            threading.Thread.join(thread, 0.002)
            if not thread.is_alive(): return
            with self.cv:
                if self.now >= end: return
                w = self.sleepers.get(thread)
                if w is not None:
                    # body parked: advance clock to min(w, end)
                    self.now = min(w, end); self.cv.notify_all()
                    if self.now >= end and self.now < w: return
                else:
                    # body busy or hung unkillably: if hung flag set, jump to end
                    if getattr(thread, '_vf_hung', False):
                        self.now = end; return
class TimeShim:
    def __init__(self, vc): self.vc = vc
    def monotonic(self): return self.vc.monotonic()
    def sleep(self, s): realtime.sleep(s)
    def time(self): return realtime.time()

def run(duration, timeout_s, kind='finish'):
    vc = VClock()
    phase_executor.time = TimeShim(vc)
    phase_executor.PhaseExecutorThread.join = lambda self, timeout=None: vc.vjoin(self, timeout)
    ev=[]
    @htf.PhaseOptions(timeout_s=timeout_s)
    def body(test):
        if kind == 'finish':
            vc.vsleep(duration); ev.append(('end', vc.monotonic()))
        elif kind == 'hang':
            while True: vc.vsleep(1.0)
        elif kind == 'unkillable':
            threading.current_thread()._vf_hung = True
            threading.Event().wait()
    def td(test): ev.append(('td', vc.monotonic()))
    recs=[]
    t = htf.Test(htf.PhaseGroup(main=[body], teardown=[td]))
    t.add_output_callbacks(recs.append)
    t0=realtime.time()
    with contextlib.redirect_stdout(io.StringIO()):
        t.execute()
    r=recs[0]
    return (duration, kind, r.outcome.name, [(p.name,p.outcome.name) for p in r.phases], ev, round(realtime.time()-t0,3))
for d in (4, 9.9, 10.1, 11.9, 12.1, 13.5, 20):
    print(run(d, 10))
print(run(0,10,'hang'))
print(run(0,10,'unkillable'))
print(run(100, None))
