import sys, random, math, io, contextlib
sys.argv=['x']
import openhtf as htf
from openhtf.core import measurements as M
from openhtf.util import validators as V
class Boom(Exception): pass
def raising(v): raise Boom()
VALS=[0,1,5,9,9.5,10,10.5,-1,None,float('nan'),'s',True, 0.4, 4.6]
def mk_validators(rng):
    pool=[('inr', lambda: V.InRange(0,10,1,9)), ('inr2', lambda: V.InRange(minimum=5)), ('eq', lambda: V.equals(5)), ('raise', lambda: raising), ('wp', lambda: V.WithinPercent(5,100,50))]
    return [rng.choice(pool) for _ in range(rng.randint(0,2))]
def model_validate(vals, value):
    # returns (outcome, marginal, raised)
    try:
        oks=[]
        for name,_ in vals:
            if name=='raise': raise Boom()
            if name=='inr': ok = value is not None and not (isinstance(value,float) and math.isnan(value)) and 0<=value<=10
            elif name=='inr2': ok = value is not None and not (isinstance(value,float) and math.isnan(value)) and value>=5
            elif name=='eq': ok = value is not None and not (isinstance(value,float) and math.isnan(value)) and value==5
            elif name=='wp': ok = 0<=value<=10
            oks.append(ok)
            if not ok: break
        if all(oks):
            marg=False
            for name,_ in vals:
                if name=='inr' and value is not None and not (isinstance(value,float) and math.isnan(value)) and (0<=value<=1 or 9<=value<=10): marg=True
                if name=='wp' and (0<value<=2.5 or 7.5<=value<10): marg=True
            return 'PASS', marg, False
        return 'FAIL', False, False
    except Boom: return 'FAIL', False, True
    except TypeError: return 'FAIL', False, True
def run(seed):
    rng=random.Random(seed)
    vals=mk_validators(rng)
    tr=rng.choice([None,'x2','prec'])
    dim=rng.random()<0.4
    m=htf.Measurement('m')
    for _,f in vals:
        v=f()
        m.with_validator(V.DimensionPivot(v) if dim else v)
    if tr=='x2': m.with_transform(lambda v: v*2)
    if tr=='prec': m.with_precision(0)
    if dim: m.with_dimensions('x')
    ops=[(rng.choice(['a','b','c']) if dim else None, rng.choice(VALS)) for _ in range(rng.randint(0,4))]
    obs={}
    @htf.measures(m)
    def ph(test):
        for coord,val in ops:
            try:
                if dim: test.measurements.m[coord]=val
                else: test.measurements.m=val
            except Exception as e: obs.setdefault('exc',[]).append(type(e).__name__)
    recs=[]
    t=htf.Test(ph); t.add_output_callbacks(recs.append)
    with contextlib.redirect_stdout(io.StringIO()), contextlib.redirect_stderr(io.StringIO()): t.execute()
    mm=recs[0].phases[0].measurements['m']
    # model
    def T(v):
        if tr=='x2': return v*2
        if tr=='prec': return round(v, 0)
        return v
    if not dim:
        cur=None; isset=False; out='UNSET'; marg=False; sticky=False
        for _,val in ops:
            try: tv=T(val)
            except TypeError: continue
            cur=tv; isset=True
            out,marg,_=model_validate(vals,cur)
        exp=(out, marg, cur if isset else 'UNSET')
        got=(mm.outcome.name, mm.marginal, mm.measured_value.value if mm.measured_value.is_value_set else 'UNSET')
    else:
        d={}
        for c,val in ops:
            try: tv=T(val)
            except TypeError: continue
            d[c]=tv
        if not d: exp=('UNSET',False,'UNSET')
        else:
            out='PASS'; marg=False
            for name,f in vals:
                rows=[model_validate([(name,f)],v) for v in d.values()]
                # DimensionPivot: all rows pass, stops at first failing row; raising propagates
                o='PASS'
                for r in rows:
                    if r[2]: o='RAISE'; break
                    if r[0]!='PASS': o='FAIL'; break
                if o!='PASS': out='FAIL'; break
            exp=(out, False, [(k,v) for k,v in d.items()])
        got=(mm.outcome.name, mm.marginal, mm.measured_value.value if mm.measured_value.is_value_set else 'UNSET')
    def eq(a,b):
        return repr(a)==repr(b)
    if not eq(exp,got): return (seed, dim, [n for n,_ in vals], tr, ops, exp, got, obs)
bad=[]
for s in range(4000):
    r=run(s)
    if r: bad.append(r)
print(len(bad))
import collections
for b in bad[:12]: print(b)
other=[b for b in bad if not (b[5][0]==b[6][0] and repr(b[5][2])==repr(b[6][2]))]
print('non-marginal mismatches', len(other))
for b in other[:10]: print(b)
