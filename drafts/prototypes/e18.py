import usbstub, itertools, collections, struct, io
from openhtf.plugs.usb import adb_message, adb_protocol, usb_exceptions, fastboot_protocol
import libusb1
M = adb_message.AdbMessage
class FT:
    def __init__(self, script): self.inq=collections.deque(); self.out=[]; [self.feed(m) for m in script]
    def write(self, data, timeout_ms): self.out.append(data)
    def read(self, n, timeout_ms):
        if not self.inq: raise usb_exceptions.UsbReadFailedError(libusb1.USBError(-7))
        return self.inq.popleft()
    def feed(self, m):
        if m is None: return
        self.inq.append(m.header)
        if m.data: self.inq.append(m.data)
    def close(self): pass
class Key(adb_protocol.AuthSigner):
    def __init__(s, n, log): s.n=n; s.log=log
    def sign(s, data): s.log.append(('sign', s.n, data)); return 'sig%d'%s.n
    def get_public_key(s): s.log.append(('pub', s.n)); return 'pub%d'%s.n
ALPH = {'CNXN': M('CNXN', 1, 256, 'device:S:b'), 'TOK': M('AUTH', 1, 0, 'tok'), 'AOTH': M('AUTH', 2, 0, 'x'), 'NOISE': M('OKAY', 5, 6), 'SYNC': M('SYNC',0,0)}
def host_msgs(out):
    res=[]; it=iter(out)
    for h in it:
        cmd,a0,a1,ln,ck,mg = struct.unpack('<6I', h); d = next(it)
        res.append((M.WIRE_TO_CMD[cmd], a0, d))
    return res
def spec(seq, nkeys):
    # returns (result, expected host msgs after CNXN)
    msgs=[]; i=0; state='wait'; k=0; pub=False
    def nxt(accept):
        nonlocal i
        while i < len(seq):
            s=seq[i]; i+=1
            if s in accept: return s
        return None
    s = nxt({'CNXN','TOK','AOTH'})
    if s is None: return 'TIMEOUT', msgs
    if s=='CNXN': return 'OK', msgs
    if nkeys==0: return 'AUTHERR', msgs
    for k in range(nkeys):
        if s!='TOK': return 'PROTO', msgs
        msgs.append(('AUTH',2,'sig%d'%k))
        s = nxt({'CNXN','TOK','AOTH'})
        if s is None: return 'TIMEOUT', msgs
        if s=='CNXN': return 'OK', msgs
    msgs.append(('AUTH',3,'pub0\0'))
    s = nxt({'CNXN'})
    if s is None: return 'TIMEOUT_OR_AUTHERR', msgs
    return 'OK', msgs
bad=0; n=0; kinds={}
for L in range(0,6):
    for seq in itertools.product(ALPH, repeat=L):
        for nk in (0,1,2):
            n+=1
            log=[]; t=FT([ALPH[s] for s in seq])
            try:
                c = adb_protocol.AdbConnection.connect(t, rsa_keys=[Key(i,log) for i in range(nk)], timeout_ms=50, auth_timeout_ms=50)
                res='OK'
            except usb_exceptions.DeviceAuthError: res='AUTHERR'
            except usb_exceptions.AdbProtocolError: res='PROTO'
            except usb_exceptions.AdbTimeoutError: res='TIMEOUT'
            except usb_exceptions.UsbReadFailedError: res='TIMEOUT'
            except Exception as e: res='EXC:'+type(e).__name__
            got = host_msgs(t.out)[1:]
            exp_res, exp = spec(list(seq), nk)
            ok = (res==exp_res or (exp_res=='TIMEOUT_OR_AUTHERR' and res in('TIMEOUT','AUTHERR'))) and got==exp
            if not ok:
                bad+=1
                kinds.setdefault((res, exp_res, got==exp), []).append((seq,nk))
print(n,'cases', bad,'bad')
for k,v in kinds.items(): print(k, len(v), v[0])
