import sys, random, io, contextlib, copy, json, collections
ROOT=sys.argv[1]; sys.argv=['x']; sys.path.insert(0, ROOT)
import openhtf as htf
assert htf.__file__.startswith(ROOT)
from openhtf.core import measurements as M
from openhtf.util import data, validators as V
sys.path.insert(0,'/tmp/exp')
def fresh_measurement_render(m):
    c = {'name': m.name, 'outcome': m.outcome.name}
    if m.validators: c['validators'] = tuple(str(v) for v in m.validators)
    if m.dimensions: c['dimensions'] = data.convert_to_base_types(m.dimensions)
    if m.units: c['units'] = data.convert_to_base_types(m.units)
    if m.docstring: c['docstring'] = m.docstring
    mv = m.measured_value
    if mv.is_value_set:
        if isinstance(mv, M.DimensionedMeasuredValue):
            c['measured_value'] = [data.convert_to_base_types(k + (v,)) for k, v in mv.value_dict.items()]
        else:
            c['measured_value'] = data.convert_to_base_types(mv.value)
    return c
def norm(x):
    if isinstance(x, dict): return {k:norm(v) for k,v in x.items()}
    if isinstance(x,(list,tuple)): return [norm(v) for v in x]
    if isinstance(x,float) and x!=x: return 'NaN!'
    return x
def raising(v): raise RuntimeError('val')
kinds=collections.Counter(); ex={}
def run(seed):
    rng=random.Random(seed)
    ms=[]
    spec={}
    for name in ('a','b','c'):
        m=htf.Measurement(name)
        dim=rng.random()<.5
        if rng.random()<.5: m.with_transform(lambda v: (v*2 if isinstance(v,(int,float)) else v))
        if rng.random()<.5: m.with_validator(V.DimensionPivot(V.InRange(0,10)) if dim else V.InRange(0,10,1,9))
        if rng.random()<.15 and not dim: m.with_validator(raising)
        if dim: m.with_dimensions('x')
        if rng.random()<.3: m.doc('doc '+name)
        ms.append(m); spec[name]=dim
    ops=[]
    for _ in range(rng.randint(1,8)):
        n=rng.choice('abc')
        ops.append((rng.choice(['set','set','read','attach','log']), n, rng.choice([0,1,5,9.5,20,None,float('nan'),float('inf'),'s',True,[1,2],{'k':1}]), rng.choice([0,1,2])))
    diffs=[]
    @htf.measures(*ms)
    def ph(test):
        ps=test._running_phase_state
        def read(tag):
            live=ps.as_base_types()
            for k,m in ps.measurements.items():
                a=norm(live['measurements'][k]); b=norm(fresh_measurement_render(m))
                if a!=b: diffs.append((tag,k,a,b))
            att={k:{'mimetype':v.mimetype,'sha1':v.sha1} for k,v in ps.attachments.items()}
            if live['attachments']!=att: diffs.append((tag,'attachments'))
        for i,(op,n,val,co) in enumerate(ops):
            try:
                if op=='set':
                    if spec[n]: test.measurements[n][co]=val
                    else: test.measurements[n]=val
                elif op=='attach': test.attach('f%d'%i, b'data%d'%i)
                elif op=='log': test.logger.info('m %d',i)
            except Exception as e: pass
            if op=='read' or rng.random()<.4: read(i)
        read('end')
    recs=[]
    t=htf.Test(ph); t.add_output_callbacks(recs.append)
    with contextlib.redirect_stdout(io.StringIO()), contextlib.redirect_stderr(io.StringIO()): t.execute()
    rec=recs[0]
    final=rec.as_base_types()['phases'][0]['measurements']
    for k,m in rec.phases[0].measurements.items():
        a=norm(final[k]); b=norm(fresh_measurement_render(m))
        if a!=b: diffs.append(('final',k,a,b))
    # JSON strictness
    try:
        from openhtf.output.callbacks import json_factory
        buf=io.BytesIO(); json_factory.OutputToJSON(buf)(rec)
        def bad(c): raise ValueError('nonstrict '+c)
        json.loads(buf.getvalue().decode(), parse_constant=bad)
    except Exception as e: diffs.append(('json', type(e).__name__, str(e)[:60]))
    return diffs, ops
for seed in range(1500):
    d,ops=run(seed)
    for x in d:
        which=[kk for kk in set(x[2])|set(x[3]) if x[2].get(kk)!=x[3].get(kk)] if len(x)>3 and isinstance(x[2],dict) else x[1:]
        k=('final' if x[0]=='final' else 'json' if x[0]=='json' else 'live', str(which))
        kinds[k]+=1; ex.setdefault(k,(seed,x))
for k,v in kinds.items(): print(v,k)
for v in list(ex.values())[:8]: print(v)
print('----')
print(ex.get(('live','[]')))
