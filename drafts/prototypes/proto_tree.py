"""Prototype: reference model of docs/event_sequence.md vs real executor (throwaway)."""
import itertools, json, random, sys, os, io, contextlib, logging
import openhtf as htf
from openhtf.core import test_record as tr, phase_descriptor as pd
from openhtf.core import diagnoses_lib as dl
from openhtf.util import configuration

CONF = configuration.CONF
logging.getLogger('openhtf').setLevel(logging.CRITICAL + 10)


class R(htf.DiagResultEnum):
  D1 = 'd1'
  D2 = 'd2'
  D3 = 'd3'

PR = htf.PhaseResult

# ---------------------------------------------------------------- real side
def build_real(node, log, ctr):
  k = node[0]
  if k == 'P':
    _, pid, beh = node
    res = beh.get('r', 'C')
    def body(test, _pid=pid, _res=res, _beh=beh):
      n = ctr.setdefault(_pid, 0); ctr[_pid] = n + 1
      log.append(_pid)
      if 'm' in _beh and _beh['m'] != 'unset':
        test.measurements['m'] = 5 if _beh['m'] == 'pass' else 50
      r = _res
      if isinstance(r, list):
        r = r[min(n, len(r) - 1)]
      if r == 'X': raise ValueError('boom')
      if r == 'BAD': return 42
      return {'C': None, 'F': PR.FAIL_AND_CONTINUE, 'K': PR.SKIP, 'S': PR.STOP,
              'U': PR.FAIL_SUBTEST, 'R': PR.REPEAT}[r]
    body.__name__ = pid
    ph = pd.PhaseDescriptor.wrap_or_copy(body)
    if 'm' in beh:
      ph = htf.measures(htf.Measurement('m').in_range(0, 10))(ph)
    if beh.get('d'):
      ds = beh['d']
      @htf.PhaseDiagnoser(R)
      def diag(phase_record, _ds=ds):
        if _ds == 'RAISE': raise RuntimeError('diag boom')
        return [htf.Diagnosis(R[d], 'x', is_failure=f) for d, f in _ds]
      ph = htf.diagnose(diag)(ph)
    if beh.get('run_if') is False:
      ph = htf.PhaseOptions(run_if=lambda: False)(ph)
    if beh.get('opts'):
      ph = htf.PhaseOptions(**beh['opts'])(ph)
    return ph
  if k == 'C':
    _, cid, kind, action = node
    act = {'S': PR.STOP, 'U': PR.FAIL_SUBTEST}[action]
    if kind == 'last': return htf.PhaseFailureCheckpoint.last(cid, action=act)
    if kind == 'all': return htf.PhaseFailureCheckpoint.all_previous(cid, action=act)
    if kind == 'sub': return htf.PhaseFailureCheckpoint.subtest_previous(cid, action=act)
    cond, results = kind
    dc = htf.DiagnosisCondition(condition=htf.core.phase_branches.ConditionOn[cond],
                                diagnosis_results=tuple(R[r] for r in results))
    return htf.DiagnosisCheckpoint(cid, dc, action=act)
  if k == 'S':
    return htf.PhaseSequence(*[build_real(n, log, ctr) for n in node[1]])
  if k == 'T':
    return htf.Subtest(node[1], *[build_real(n, log, ctr) for n in node[2]])
  if k == 'B':
    _, name, cond, results, nodes = node
    dc = htf.DiagnosisCondition(condition=htf.core.phase_branches.ConditionOn[cond],
                                diagnosis_results=tuple(R[r] for r in results))
    return htf.BranchSequence(dc, *[build_real(n, log, ctr) for n in nodes], name=name)
  if k == 'G':
    _, s, m, t = node
    return htf.PhaseGroup(setup=[build_real(n, log, ctr) for n in s] or None,
                          main=[build_real(n, log, ctr) for n in m] or None,
                          teardown=[build_real(n, log, ctr) for n in t] or None)
  raise ValueError(node)


def run_real(prog, cfg=None):
  cfg = cfg or {}
  log, ctr, recs = [], {}, []
  nodes = [build_real(n, log, ctr) for n in prog]
  t = htf.Test(*nodes)
  t.configure(stop_on_first_failure=cfg.get('sof', False))
  t.add_output_callbacks(recs.append)
  crashes = []
  import threading, traceback
  old = threading.excepthook
  threading.excepthook = lambda a: crashes.append((a.exc_type.__name__, traceback.extract_tb(a.exc_traceback)[-1].name, str(a.exc_value)[:60]))
  try:
    with contextlib.redirect_stdout(io.StringIO()), contextlib.redirect_stderr(io.StringIO()):
      ret = t.execute()
  finally:
    threading.excepthook = old
  rec = recs[0]
  return {
      'crash': crashes,
      'calls': log,
      'outcome': rec.outcome.name,
      'ret': ret,
      'phases': [(p.name, p.outcome.name, _res(p.result), p.subtest_name) for p in rec.phases],
      'subtests': [(s.name, s.outcome.name) for s in rec.subtests],
      'branches': [(b.name, b.branch_taken) for b in rec.branches],
      'checkpoints': [(c.name, _res(c.result), c.subtest_name) for c in rec.checkpoints],
  }

def _res(o):
  r = o.phase_result
  if r is None: return 'TIMEOUT'
  if isinstance(r, PR): return r.name
  return 'EXC'


# ---------------------------------------------------------------- model side
class Model:
  def __init__(self, cfg):
    self.cfg = cfg
    self.calls = []; self.phases = []; self.subtests = []; self.branches = []
    self.checkpoints = []; self.diags = set(); self.failure_diag = False
    self.terminal = None  # first terminal kind: 'STOP','EXC'
    self.ctr = {}

  # returns 'CONT' or 'TERM'
  def node(self, n, sub, td):
    k = n[0]
    return getattr(self, 'n_' + k)(n, sub, td)

  def seq(self, nodes, sub, td):
    if td:
      ret = 'CONT'
      for n in nodes:
        if self.node(n, sub, True) == 'TERM': ret = 'TERM'
      return ret
    for n in nodes:
      if self.node(n, sub, False) == 'TERM': return 'TERM'
    return 'CONT'

  def n_S(self, n, sub, td): return self.seq(n[1], sub, td)

  def n_T(self, n, sub, td):
    rec = {'name': n[1], 'outcome': 'PASS'}
    if sub and sub['outcome'] == 'FAIL': rec['outcome'] = 'FAIL'
    ret = self.seq(n[2], rec, td)
    if ret == 'TERM': rec['outcome'] = 'STOP'
    self.subtests.append((rec['name'], rec['outcome']))
    return ret

  def cond(self, c, results):
    vals = [r in self.diags for r in results]
    return {'ALL': all(vals), 'ANY': any(vals), 'NOT_ANY': not any(vals), 'NOT_ALL': not all(vals)}[c]

  def n_B(self, n, sub, td):
    _, name, c, results, nodes = n
    if not td and sub and sub['outcome'] == 'FAIL': return 'CONT'
    taken = self.cond(c, results)
    ret = self.seq(nodes, sub, td) if taken else 'CONT'
    self.branches.append((name, taken))
    return ret

  def n_G(self, n, sub, td):
    _, s, m, t = n
    failing = lambda: bool(sub and sub['outcome'] == 'FAIL')
    entered_failing = failing()
    if s:
      if self.seq(s, sub, td) == 'TERM': return 'TERM'
    skip_td = entered_failing or failing()
    mret = self.seq(m, sub, td) if m else 'CONT'
    tret = self.seq(t, sub, not skip_td) if t else 'CONT'
    return 'TERM' if 'TERM' in (mret, tret) else 'CONT'

  def n_C(self, n, sub, td):
    _, cid, kind, action = n
    subname = sub['name'] if sub else None
    if not td and sub and sub['outcome'] == 'FAIL':
      self.checkpoints.append((cid, 'SKIP', subname)); return 'CONT'
    try:
      if kind in ('last', 'all', 'sub'):
        if not self.phases: raise LookupError('no phases')
        if kind == 'last': hit = self.phases[-1][1] == 'FAIL'
        elif kind == 'sub' and sub: hit = any(p[1] == 'FAIL' and p[3] == sub['name'] for p in self.phases)
        else: hit = any(p[1] == 'FAIL' for p in self.phases)
      else:
        hit = self.cond(*kind)
      res = {'S': 'STOP', 'U': 'FAIL_SUBTEST'}[action] if hit else 'CONTINUE'
      if res == 'FAIL_SUBTEST' and not sub: raise LookupError('no subtest')
    except LookupError:
      res = 'EXC'
    self.checkpoints.append((cid, res, subname))
    if res in ('STOP', 'EXC'):
      if not self.terminal: self.terminal = res
      return 'TERM'
    if res == 'FAIL_SUBTEST': sub['outcome'] = 'FAIL'
    return 'CONT'

  def n_P(self, n, sub, td):
    _, pid, beh = n
    subname = sub['name'] if sub else None
    if not td and sub and sub['outcome'] == 'FAIL':
      self.phases.append((pid, 'SKIP', 'SKIP', subname)); return 'CONT'
    opts = beh.get('opts', {})
    limit = opts.get('repeat_limit') or 3
    count = 1
    while True:
      last = count >= limit
      if beh.get('run_if') is False:
        final = 'SKIP'; recorded = None
      else:
        final, recorded = self.once(pid, beh, sub, last)
      rep = False
      if final == 'REPEAT': rep = True
      elif opts.get('force_repeat'): rep = True
      elif opts.get('repeat_on_measurement_fail'):
        rep = bool(self.phases) and self.phases[-1][1] == 'FAIL'
      if rep and not last:
        count += 1; continue
      break
    if self.cfg.get('sof') and recorded and recorded[1] == 'FAIL':
      final = 'STOP'
    if final in ('STOP', 'EXC'):
      if not self.terminal: self.terminal = final
      return 'TERM'
    if final == 'FAIL_SUBTEST': sub['outcome'] = 'FAIL'
    return 'CONT'

  def once(self, pid, beh, sub, last):
    subname = sub['name'] if sub else None
    n = self.ctr.get(pid, 0); self.ctr[pid] = n + 1
    self.calls.append(pid)
    r = beh.get('r', 'C')
    if isinstance(r, list): r = r[min(n, len(r) - 1)]
    res = {'C': 'CONTINUE', 'F': 'FAIL_AND_CONTINUE', 'K': 'SKIP', 'S': 'STOP', 'U': 'FAIL_SUBTEST',
           'R': 'REPEAT', 'X': 'EXC', 'BAD': 'EXC'}[r]
    if res == 'FAIL_SUBTEST' and not sub: res = 'EXC'
    hit_limit = res == 'REPEAT' and last
    meas_ok = beh.get('m', 'pass') == 'pass'
    # pre-diagnosis outcome
    if res in ('EXC', 'STOP') or hit_limit: outcome = 'ERROR'
    elif res in ('REPEAT', 'SKIP'): outcome = 'SKIP'
    elif res in ('FAIL_SUBTEST', 'FAIL_AND_CONTINUE'): outcome = 'FAIL'
    elif not meas_ok:
      outcome = 'FAIL'
      if beh.get('opts', {}).get('stop_on_measurement_fail'): res = 'STOP'
    else: outcome = 'PASS'
    # diagnosers
    d = beh.get('d')
    if d and res not in ('REPEAT', 'SKIP'):
      if d == 'RAISE':
        if res not in ('EXC', 'STOP'): res = 'EXC'
      else:
        anyfail = False
        for name, isf in d:
          self.diags.add(name)
          if isf: anyfail = True; self.failure_diag = True
        if anyfail and outcome == 'PASS': outcome = 'FAIL'
    if outcome != 'ERROR' and res in ('EXC', 'STOP'): outcome = 'ERROR'
    rec = (pid, outcome, res, subname)
    self.phases.append(rec)
    final = 'STOP' if hit_limit else res
    return final, rec

  def finish(self):
    if self.terminal == 'EXC': out = 'ERROR'
    elif self.terminal == 'STOP': out = 'FAIL'
    elif not self.phases: out = 'PASS'
    elif any(p[1] == 'FAIL' for p in self.phases): out = 'FAIL'
    elif all(p[1] == 'SKIP' for p in self.phases): out = 'ERROR'
    elif self.failure_diag: out = 'FAIL'
    elif any(s[1] == 'FAIL' for s in self.subtests): out = 'FAIL'
    else: out = 'PASS'
    return out


def run_model(prog, cfg=None):
  m = Model(cfg or {})
  m.seq(prog, None, False)
  out = m.finish()
  return {'crash': [], 'calls': m.calls, 'outcome': out, 'ret': out == 'PASS', 'phases': m.phases,
          'subtests': m.subtests, 'branches': m.branches, 'checkpoints': m.checkpoints}


# ---------------------------------------------------------------- generator
def gen(rng, depth, ids, in_sub):
  k = rng.choices(['P', 'P', 'P', 'C', 'S', 'T', 'B', 'G'], k=1)[0] if depth > 0 else rng.choice(['P', 'P', 'C'])
  if k == 'P':
    pid = 'p%d' % next(ids)
    beh = {}
    r = rng.choice(['C', 'C', 'C', 'F', 'K', 'S', 'U', 'X', 'R', ['R', 'C'], 'BAD'])
    beh['r'] = r
    if rng.random() < .3: beh['m'] = rng.choice(['pass', 'fail', 'unset'])
    if rng.random() < .3:
      beh['d'] = rng.choice([[('D1', False)], [('D2', True)], [('D1', False), ('D3', False)], 'RAISE'])
    if rng.random() < .1: beh['run_if'] = False
    if rng.random() < .15:
      beh['opts'] = rng.choice([{'force_repeat': True}, {'repeat_on_measurement_fail': True},
                                {'repeat_limit': 2}, {'stop_on_measurement_fail': True}])
    return ('P', pid, beh)
  if k == 'C':
    cid = 'c%d' % next(ids)
    kind = rng.choice(['last', 'all', 'sub', ('ANY', ['D1']), ('ALL', ['D1', 'D3']), ('NOT_ANY', ['D2'])])
    return ('C', cid, kind, rng.choice(['S', 'U']))
  kids = lambda lo, hi: [gen(rng, depth - 1, ids, in_sub) for _ in range(rng.randint(lo, hi))]
  if k == 'S': return ('S', kids(0, 3))
  if k == 'T': return ('T', 't%d' % next(ids), [gen(rng, depth - 1, ids, True) for _ in range(rng.randint(0, 3))])
  if k == 'B':
    return ('B', 'b%d' % next(ids), rng.choice(['ALL', 'ANY', 'NOT_ANY', 'NOT_ALL']),
            rng.choice([['D1'], ['D2'], ['D1', 'D3'], []]), kids(0, 3))
  if k == 'G': return ('G', kids(0, 2), kids(0, 2), kids(0, 2))


if __name__ == '__main__':
  seed = int(sys.argv[1]) if len(sys.argv) > 1 else 0
  N = int(sys.argv[2]) if len(sys.argv) > 2 else 2000
  rng = random.Random(seed)
  mism = {}
  for i in range(N):
    ids = itertools.count()
    prog = [gen(rng, 3, ids, False) for _ in range(rng.randint(1, 4))]
    cfg = {'sof': rng.random() < .2}
    try:
      real = run_real(prog, cfg)
    except Exception as e:
      real = {'crash': repr(e)}
    model = run_model(prog, cfg)
    if real != model:
      keys = [k for k in model if real.get(k) != model[k]]
      sig = tuple(keys)
      mism.setdefault(sig, []).append((prog, cfg, real, model))
  print('mismatches', {k: len(v) for k, v in mism.items()})
  for sig, cases in mism.items():
    cases.sort(key=lambda c: len(json.dumps(c[0])))
    for prog, cfg, real, model in cases[:3]:
      print('----', sig, cfg)
      print(json.dumps(prog))
      for k in model:
        if real.get(k) != model[k]:
          print('  ', k, '\n     real ', real.get(k), '\n     model', model[k])
