import time
import openhtf as htf
from openhtf.core import phase_executor
recs=[]
n={'a':0,'b':0}
@htf.PhaseOptions(force_repeat=True)
def a(test):
    n['a']+=1
    if n['a']==1: raise ValueError('x')
@htf.PhaseOptions(repeat_on_timeout=True, timeout_s=0.2)
def b(test):
    n['b']+=1
    if n['b']==1:
        while True: time.sleep(0.01)
for ph in (a,b):
    recs.clear()
    t = htf.Test(ph)
    t.add_output_callbacks(recs.append)
    r = t.execute()
    print(ph.name, 'ret', r, recs[0].outcome, [(p.name,p.outcome.name, str(p.result.phase_result)) for p in recs[0].phases])
