import openhtf as htf, json
from openhtf.core import measurements as M
from openhtf.output.callbacks import json_factory
from openhtf.util import units

recs=[]
@htf.measures(htf.Measurement('m').in_range(0, 10, marginal_minimum=1, marginal_maximum=9))
@htf.measures(htf.Measurement('d').with_dimensions('x').with_transform(lambda v: v*100).dimension_pivot_validate(htf.util.validators.in_range(0, 10)) if False else htf.Measurement('d').with_dimensions('x').with_transform(lambda v: v/100.0))
@htf.measures(htf.Measurement('e').with_dimensions('x'))
def p1(test):
    test.measurements.m = 9.5      # marginal
    print('after first', test._running_phase_state.measurements['m'].marginal, test._running_phase_state.measurements['m'].outcome)
    test.measurements.m = 5        # not marginal
    print('after second', test._running_phase_state.measurements['m'].marginal, test._running_phase_state.measurements['m'].outcome)
    test.measurements.d[1] = 500
    test.measurements.e[1] = 5
    ps = test._running_phase_state
    print('live', ps.as_base_types()['measurements']['e'], ps.measurements['e'].outcome)
    print('live d', ps.as_base_types()['measurements']['d'], ps.measurements['d'].measured_value.value)

t = htf.Test(p1, htf.PhaseFailureCheckpoint.all_previous('cp'))
t.add_output_callbacks(recs.append)
r = t.execute()
rec = recs[0]
print('ret', r, rec.outcome, rec.marginal, rec.phases[0].marginal)
bt = rec.as_base_types()
print(sorted(bt.keys()))
print('checkpoints in rec', rec.checkpoints)
print(bt['phases'][0]['measurements'])
