"""Mini pause-point engine via sys.monitoring: pause thread T at (code, line, hit#), run action, resume."""
import sys, threading, time, itertools, io, contextlib
import openhtf as htf; print(htf.__file__)
from openhtf.core import test_executor, phase_executor
from openhtf.util import threads as hthreads
mon = sys.monitoring
TOOL = 3
mon.use_tool_id(TOOL, 'pp')

class Engine:
    def __init__(self):
        self.target = None      # (code, line, hit)
        self.hits = {}
        self.paused = threading.Event()
        self.resume = threading.Event()
        self.seen = {}          # (codename,line) -> count, for discovery
        self.lock = threading.Lock()
        self.fired = False
    def on_line(self, code, line):
        key = (code.co_qualname, line)
        with self.lock:
            self.seen[key] = self.seen.get(key, 0) + 1
            n = self.seen[key]
            fire = (not self.fired and self.target is not None and key == self.target[:2] and n == self.target[2])
            if fire: self.fired = True
        if fire:
            self.paused.set()
            self.resume.wait(5)
    def instrument(self, funcs):
        for f in funcs:
            mon.set_local_events(TOOL, f.__code__, mon.events.LINE)
        mon.register_callback(TOOL, mon.events.LINE, self.on_line)

E = Engine()
TE = test_executor.TestExecutor; PE = phase_executor.PhaseExecutor
funcs = [TE._execute_abortable_sequence, TE._execute_node, TE._execute_phase, PE.execute_phase, PE._execute_phase_once, TE._thread_proc, TE._execute_test_start]
E.instrument(funcs)

seq = itertools.count()
def scenario(target, with_start=False):
    E.target = target; E.seen = {}; E.fired = False; E.paused.clear(); E.resume.clear()
    ev = []
    def mk(name):
        def body(test): ev.append((next(seq), 'body', name)); 
        body.__name__ = name
        return body
    t = htf.Test(mk('p1'), mk('p2'))
    recs = []
    t.add_output_callbacks(recs.append)
    def ctrl():
        if E.paused.wait(3):
            ev.append((next(seq), 'abort_call'))
            t.abort_from_sig_int()
            ev.append((next(seq), 'abort_ret'))
            E.resume.set()
    c = threading.Thread(target=ctrl); c.start()
    with contextlib.redirect_stdout(io.StringIO()):
        if with_start:
            t.execute(test_start=htf.PhaseOptions()(mk('start')))
        else:
            t.execute()
    E.resume.set(); c.join()
    return ev, recs[0].outcome.name, dict(E.seen)

# discovery run
ev, out, seen = scenario(None)
points = sorted(seen.items())
viol = []
for (qn, line), cnt in points:
    for h in range(1, cnt+1):
        for ws in (False, True):
            ev, out, _ = scenario((qn, line, h), ws)
            ar = [e[0] for e in ev if e[1] == 'abort_ret']
            if not ar: continue
            late = [e for e in ev if e[1] == 'body' and e[0] > ar[0]]
            if late or out != 'ABORTED':
                viol.append((qn, line, h, ws, out, [e[2] for e in late]))
print(len(points), 'points')
for v in viol: print(v)
