import sys, os, io, contextlib
root, d, rfd, wfd = sys.argv[1], sys.argv[2], int(sys.argv[3]), int(sys.argv[4]); sys.argv=['x']; sys.path.insert(0, root)
import tempfile; tempfile.tempdir=d
import openhtf as htf
from openhtf.output.callbacks import json_factory
@htf.measures(htf.Measurement('m').in_range(0,10))
def p(test): test.measurements.m=5
def gate(rec):
    os.write(wfd, b'R'); os.read(rfd, 1)
t=htf.Test(p)
t.add_output_callbacks(gate, json_factory.OutputToJSON(os.path.join(d,'out.json')))
with contextlib.redirect_stdout(io.StringIO()):
    t.execute()
