import usbstub, sys, collections, struct, random, itertools
ROOT='/repo'
from openhtf.plugs.usb import adb_message, adb_protocol as ap, usb_exceptions as ue
import libusb1
M=adb_message.AdbMessage
class FT:
    def __init__(s): s.inq=collections.deque(); s.out=[]
    def write(s,d,t): s.out.append(d)
    def read(s,n,t):
        if not s.inq: raise ue.UsbReadFailedError(libusb1.USBError(-7))
        return s.inq.popleft()
    def feed(s,m):
        s.inq.append(m.header)
        if m.data: s.inq.append(m.data)
    def close(s): pass
    def host(s):
        res=[]; it=iter(s.out)
        for h in it:
            f=struct.unpack('<6I',h); d=next(it); res.append((M.WIRE_TO_CMD[f[0]],f[1],f[2],d))
        s.out=[]; return res
def connect():
    t=FT(); t.feed(M('CNXN',1,64,'device:S:b')); c=ap.AdbConnection.connect(t); t.host(); return t,c
def run(seed, limit):
    rng=random.Random(seed)
    ap.STREAM_ID_LIMIT=limit
    t,c=connect()
    c._last_id_used=rng.choice([0, limit-3, limit-2, limit-1]) % limit
    live={}  # local -> (stream, remote)
    next_remote=500; probs=[]; trace=[]
    for step in range(rng.randint(1,14)):
        op=rng.choice(['open','open','open_clse','hclose','dclose','read_closed'])
        trace.append(op)
        if op in('open','open_clse'):
            # predict id: device must answer with arg1=local id; we learn it from host OPEN message, so feed after peeking: use two-phase via queue hack
            # feed reply lazily: patch read to build reply from last OPEN
            def reply():
                h=t.host(); 
                assert h and h[-1][0]=='OPEN', h
                lid=h[-1][1]; return lid
            # we need the reply queued before open_stream reads; use a transport hook
            orig=t.read
            state={}
            def hooked(n,tm):
                if 'lid' not in state and not t.inq:
                    state['lid']=reply()
                    if op=='open': t.feed(M('OKAY', next_remote, state['lid']))
                    else: t.feed(M('CLSE', 0, state['lid']))
                return orig(n,tm)
            t.read=hooked
            try:
                s=c.open_stream('svc', timeout_ms=200)
            except ue.AdbStreamUnavailableError as e:
                t.read=orig
                if len(live)<min(64,limit-1): probs.append(('unavailable with free ids', len(live)))
                continue
            finally:
                t.read=orig
            lid=state.get('lid')
            if lid is None: probs.append('no OPEN sent'); continue
            if not (0<lid<limit): probs.append(('id out of range',lid))
            if lid in live: probs.append(('id reuse while live',lid))
            if op=='open':
                if s is None: probs.append('no stream after OKAY'); continue
                live[lid]=(s,next_remote); next_remote+=1
            else:
                if s is not None: probs.append('stream after CLSE reply')
                if lid in c._stream_transport_map: probs.append('id not released after CLSE reply')
                extra=t.host()
                # spec: no CLSE needs to be sent since remote_id unknown
        elif op=='hclose' and live:
            lid=rng.choice(list(live)); s,rid=live.pop(lid)
            s.close()
            h=t.host()
            cl=[m for m in h if m[0]=='CLSE']
            if cl!=[('CLSE',lid,rid,'')]: probs.append(('host close msgs',h))
            s.close()  # idempotent
            if t.host(): probs.append('second close sent something')
            try:
                s.read(timeout_ms=50); probs.append('read after close returned')
            except ue.AdbStreamClosedError: pass
            except Exception as e: probs.append(('read after close', type(e).__name__))
        elif op=='dclose' and live:
            lid=rng.choice(list(live)); s,rid=live.pop(lid)
            t.feed(M('WRTE', rid, lid, 'tail'))
            t.feed(M('CLSE', rid, lid))
            got=[]
            try:
                for d in s.read_until_close(timeout_ms=200): got.append(d)
            except Exception as e: probs.append(('dclose read', type(e).__name__))
            if ''.join(got)!='tail': probs.append(('drain',got))
            h=t.host()
            if [m for m in h if m[0]=='CLSE']!=[('CLSE',lid,rid,'')]: probs.append(('dclose msgs',h))
            if [m for m in h if m[0]=='OKAY']!=[('OKAY',lid,rid,'')]: probs.append(('dclose ack',h))
            if lid in c._stream_transport_map: probs.append('id not released')
    return probs, trace
bad=collections.Counter(); ex={}
for limit in (8, 70, 2**16):
    for seed in range(400):
        try: p,tr=run(seed,limit)
        except Exception as e: p=[('EXC',type(e).__name__,str(e)[:80])]; tr=[]
        for x in p:
            k=(limit, x[0] if isinstance(x,tuple) else x); bad[k]+=1; ex.setdefault(k,(seed,x,tr))
print(dict(bad)); 
for v in ex.values(): print(v)
import traceback
ap.STREAM_ID_LIMIT=70
try:
    print(run(163,70))
except Exception:
    traceback.print_exc()
