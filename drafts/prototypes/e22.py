import sys, itertools, random, copy, json, io, contextlib, attr
sys.argv=['x']
from proto_tree import *
import openhtf as htf
from openhtf.core import measurements as M, test_record as TR, test_state as TS
from openhtf.util import data

def reset_caches(obj, seen=None):
    """Return deep copy with all cache fields reset."""
    return obj

def fresh_measurement_render(m):
    c = {'name': m.name, 'outcome': m.outcome.name}
    if m.validators: c['validators'] = tuple(str(v) for v in m.validators)
    if m.conditional_validators: c['conditional_validators'] = data.convert_to_base_types(m.conditional_validators)
    if m.dimensions: c['dimensions'] = data.convert_to_base_types(m.dimensions)
    if m.units: c['units'] = data.convert_to_base_types(m.units)
    if m.docstring: c['docstring'] = m.docstring
    mv = m.measured_value
    if mv.is_value_set:
        if isinstance(mv, M.DimensionedMeasuredValue):
            c['measured_value'] = [data.convert_to_base_types(k + (v,)) for k, v in mv.value_dict.items()]
        else:
            c['measured_value'] = data.convert_to_base_types(mv.value)
    return c

def fresh_phase_render(p):
    d = {}
    for f in attr.fields(type(p)):
        if f.name in ('descriptor_id','name','codeinfo'): continue
        v = getattr(p, f.name)
        if f.name == 'measurements':
            d[f.name] = {k: fresh_measurement_render(m) for k, m in (v or {}).items()} if v is not None else None
        else:
            d[f.name] = data.convert_to_base_types(v)
    d.update(descriptor_id=p.descriptor_id, name=p.name, codeinfo=data.convert_to_base_types(p.codeinfo))
    return d

def fresh_record_render(r):
    md = data.convert_to_base_types(r.metadata, ignore_keys=('config',)); md['config'] = r.metadata.get('config')
    return {
      'dut_id': r.dut_id, 'start_time_millis': r.start_time_millis, 'end_time_millis': r.end_time_millis,
      'outcome': r.outcome.name if r.outcome else None, 'outcome_details': data.convert_to_base_types(r.outcome_details),
      'marginal': r.marginal, 'metadata': md,
      'phases': [fresh_phase_render(p) for p in r.phases],
      'subtests': [data.convert_to_base_types(s) for s in r.subtests],
      'branches': [data.convert_to_base_types(s) for s in r.branches],
      'checkpoints': [data.convert_to_base_types(s) for s in r.checkpoints],
      'diagnosers': data.convert_to_base_types(r.diagnosers),
      'diagnoses': [data.convert_to_base_types(s) for s in r.diagnoses],
      'log_records': [l._asdict() for l in r.log_records],
      'station_id': r.station_id, 'code_info': data.convert_to_base_types(r.code_info),
    }

def diff(a, b, path=''):
    out=[]
    if type(a)!=type(b) and not (isinstance(a,(list,tuple)) and isinstance(b,(list,tuple))): return [(path, 'type', type(a).__name__, type(b).__name__)]
    if isinstance(a, dict):
        for k in set(a)|set(b):
            if k not in a: out.append((path+'/'+str(k), 'missing-in-cached'))
            elif k not in b: out.append((path+'/'+str(k), 'extra-in-cached'))
            else: out+=diff(a[k], b[k], path+'/'+str(k))
    elif isinstance(a,(list,tuple)):
        if len(a)!=len(b): out.append((path,'len',len(a),len(b)))
        else:
            for i,(x,y) in enumerate(zip(a,b)): out+=diff(x,y,path+'/%d'%i)
    else:
        if a!=b and not (a!=a and b!=b): out.append((path, a, b))
    return out

rng = random.Random(11)
kinds={}
for i in range(800):
    ids = itertools.count()
    prog = [gen(rng, 3, ids, False) for _ in range(rng.randint(1, 4))]
    log, ctr, recs = [], {}, []
    nodes = [build_real(n, log, ctr) for n in prog]
    t = htf.Test(*nodes); t.add_output_callbacks(recs.append)
    with contextlib.redirect_stdout(io.StringIO()), contextlib.redirect_stderr(io.StringIO()):
        t.execute()
    r = recs[0]
    cached = r.as_base_types(); fresh = fresh_record_render(r)
    for d in diff(cached, fresh):
        import re
        key = re.sub(r'/\d+', '/#', d[0]) + ' ' + str(d[1])[:30]
        kinds.setdefault(key, []).append((d, json.dumps(prog)[:200]))
for k,v in sorted(kinds.items()): print(len(v), k, v[0][0])
