import sys, threading, time
sys.argv=['x']
from openhtf.util import threads as T
mon=sys.monitoring; TOOL=3; mon.use_tool_id(TOOL,'pp')
paused=threading.Event(); resume=threading.Event(); target={}; hits={}
def on_line(code,line):
    if threading.current_thread().name!='K': return
    k=(code.co_qualname,line); hits[k]=hits.get(k,0)+1
    if target.get('k')==(k,hits[k]) and not paused.is_set():
        paused.set(); resume.wait(5)
class KT(T.KillableThread):
    def __init__(self, ev, mode): super().__init__(name='K'); self.ev=ev; self.mode=mode
    def _thread_proc(self):
        self.ev.append('body-start')
        try:
            x=0
            for i in range(3): x+=i
            if self.mode=='raise': raise ValueError('v')
            self.ev.append('body-end')
        except BaseException as e:
            self.ev.append('body-exc:'+type(e).__name__); raise
    def _thread_exception(self, *a):
        self.ev.append('exc-handler-start:'+a[0].__name__)
        y=1; y+=1
        self.ev.append('exc-handler-end')
        return True
    def _thread_finished(self):
        self.ev.append('fin-start')
        z=1; z+=1
        self.ev.append('fin-end')
for f in (T.KillableThread.run, KT._thread_proc, KT._thread_exception, KT._thread_finished):
    mon.set_local_events(TOOL, f.__code__, mon.events.LINE)
mon.register_callback(TOOL, mon.events.LINE, on_line)
def run(k, mode):
    hits.clear(); paused.clear(); resume.clear(); target['k']=k
    ev=[]; t=KT(ev, mode); 
    exc=[]
    old=threading.excepthook; threading.excepthook=lambda a: exc.append(a.exc_type.__name__)
    t.start()
    if k and paused.wait(0.5):
        ev.append('KILL'); t.kill(); ev.append('KILL-ret'); resume.set()
    t.join(2); threading.excepthook=old
    return ev, exc, t.is_alive()
for mode in ('ok','raise'):
    ev,_,_=run(None,mode); pts=dict(hits); print(mode, ev)
    for k,n in sorted(pts.items()):
        ev,exc,alive=run((k,1),mode)
        print(' ',k, ev, exc, alive)
# kill before start
ev=[]; t=KT(ev,'ok'); t.kill(); t.start(); t.join(); print('prestart', ev)
