import sys, threading, time, collections, random, types
ROOT=sys.argv[1]; N=int(sys.argv[2]); sys.argv=['x']; sys.path.insert(0, ROOT)
import usbstub
src=open('/tmp/exp/e25.py').read().split("sys.setswitchinterval")[0].replace("import usbstub, sys,","import sys,")
exec(src)
import openhtf; assert openhtf.__file__.startswith(ROOT), openhtf.__file__
mon=sys.monitoring; TOOL=3; mon.use_tool_id(TOOL,'pp')
seen={}; target={}; lock=threading.Lock(); fired=[False]
def on_line(code,line):
    th=threading.current_thread().name
    if not th.startswith(('R','W')): return
    role=th[0]
    k=(role,code.co_qualname,line)
    with lock:
        n=seen[k]=seen.get(k,0)+1
        f = (not fired[0]) and target.get('k')==(k,n)
        if f: fired[0]=True
    if f: time.sleep(0.25)      # hold this thread; others proceed
codes=set()
def walk(c):
    if c in codes: return
    codes.add(c)
    for k in c.co_consts:
        if isinstance(k, types.CodeType): walk(k)
import gc
for o in gc.get_objects():
    if isinstance(o, types.FunctionType) and o.__code__.co_filename in (adb_protocol.__file__, adb_message.__file__): walk(o.__code__)
for c in codes: mon.set_local_events(TOOL,c,mon.events.LINE)
mon.register_callback(TOOL,mon.events.LINE,on_line)
# scenario with named threads: reuse scenario() but name threads R<i>/W<i>
def scenario2(seed, nstreams, tgt):
    seen.clear(); fired[0]=False; target['k']=tgt
    rng=random.Random(seed)
    scripts={'svc:%d'%s:['%d.%d:'%(s,j)+'x'*rng.randint(0,20) for j in range(rng.randint(1,4))] for s in range(nstreams)}
    dev=Device(scripts, rng=rng)
    conn=adb_protocol.AdbConnection.connect(dev)
    res={}
    def worker(s):
        dest='svc:%d'%s
        try:
            st=conn.open_stream(dest, timeout_ms=5000)
            out=[]; payload=''.join(chr(65+(i%26)) for i in range(rng.randint(1,150))); wres={}
            def w():
                try: st.write(payload, timeout_ms=5000); wres['w']='ok'
                except Exception as e: wres['w']=type(e).__name__
            wt=threading.Thread(target=w,name='W%d'%s); wt.start()
            try:
                for d in st.read_until_close(timeout_ms=5000): out.append(d)
                r='closed'
            except Exception as e: r=type(e).__name__
            wt.join()
            res[s]=(r,''.join(out),payload,wres.get('w'))
        except Exception as e: res[s]=('open-fail',type(e).__name__,str(e))
    ths=[threading.Thread(target=worker,args=(s,),name='R%d'%s) for s in range(nstreams)]
    [t.start() for t in ths]; [t.join() for t in ths]
    probs=list(dev.log)
    for s in range(nstreams):
        dest='svc:%d'%s; st=[x for x in dev.streams.values() if x['dest']==dest]
        if not st: probs.append(('no stream',s,res.get(s))); continue
        st=st[0]; r=res[s]
        if r[0]=='open-fail': probs.append(('open-fail',r)); continue
        if r[0]!='closed' or r[1]!=''.join(scripts[dest]): probs.append(('read mismatch',s,r[0]))
        if r[3]=='ok' and ''.join(st['got'])!=r[2]: probs.append(('write mismatch',s))
        if r[3]!='ok' and r[3]!='AdbStreamClosedError': probs.append(('write error',s,r[3]))
        if st['acks']!=len(st['sent']): probs.append(('ack count',s,st['acks'],len(st['sent'])))
    return probs
p=scenario2(1,2,None); print('base',p,len(seen),'points',sum(seen.values()),'hits')
plans=[(k,h) for k,n in sorted(seen.items()) for h in range(1,min(n,3)+1)]
random.Random(0).shuffle(plans); plans=plans[:N]
bad=collections.Counter(); ex={}
t0=time.time()
for pl in plans:
    for x in scenario2(1,2,pl):
        k=(x[0],pl[0][1]); bad[k]+=1; ex.setdefault(k,(pl,x))
print(len(plans),'schedules',round(time.time()-t0,1),'s'); 
for k,v in bad.items(): print(v,k,ex[k])
