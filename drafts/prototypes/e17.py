import sys, threading, logging
sys.argv=['x']
import openhtf
from openhtf.util import logs
from openhtf.core import test_record
mon = sys.monitoring; TOOL=3; mon.use_tool_id(TOOL,'pp')
paused = threading.Event(); resume = threading.Event(); target = {}
hits = {}
def on_line(code, line):
    if threading.current_thread().name != 'B': return
    k=(code.co_qualname,line); hits[k]=hits.get(k,0)+1
    if target.get('k') == (k, hits[k]) and not paused.is_set():
        paused.set(); resume.wait(5)
for fn in (logs.TestUidFilter.filter, logs.MacAddressLogFilter.filter, logs.RecordHandler.emit):
    mon.set_local_events(TOOL, fn.__code__, mon.events.LINE)
mon.register_callback(TOOL, mon.events.LINE, on_line)
logs.configure_logging()
def mkrec(): return test_record.TestRecord(dut_id=None, station_id='s')
def run(k):
    hits.clear(); paused.clear(); resume.clear(); target['k']=k
    ua, ub = 'uidA', 'uidB'
    ra, rb = mkrec(), mkrec()
    logs.initialize_record_handler(ua, ra, lambda: None)
    logs.initialize_record_handler(ub, rb, lambda: None)
    def B():
        logs.get_record_logger_for(ub).info('hello-b')
    b = threading.Thread(target=B, name='B'); b.start()
    if paused.wait(0.5):
        logs.remove_record_handler(ua)
        resume.set()
    b.join()
    logs.remove_record_handler(ua); logs.remove_record_handler(ub)
    return [l.message for l in rb.log_records], [l.message for l in ra.log_records]
print(run(None)); pts = dict(hits)
for k, n in sorted(pts.items()):
    for h in range(1, n+1):
        r = run((k,h))
        if r[0] != ['hello-b']: print('LOST', k, h, r)
print(len(pts),'points', logging.getLogger('openhtf').handlers)
