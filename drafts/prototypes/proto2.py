"""Extended differential: timeouts, test_start, test diagnosers, failure_exceptions, allow_unset, CONF.sof."""
import sys, itertools, random, json, io, contextlib, time, threading, collections
ROOT=sys.argv[1]; SEED=int(sys.argv[2]); N=int(sys.argv[3]); sys.argv=['x']; sys.path.insert(0, ROOT)
import proto_tree as P
import openhtf as htf
assert htf.__file__.startswith(ROOT), htf.__file__
from openhtf.util import configuration
CONF=configuration.CONF
PR=htf.PhaseResult
class TR(htf.DiagResultEnum):
    T1='t1'; T2='t2'
# ---- real side: wrap builder to support 'T' (timeout) behaviour
orig_build=P.build_real
def build_real(node, log, ctr):
    if node[0]=='P' and (node[2].get('r')=='T' or (isinstance(node[2].get('r'),list) and 'T' in node[2]['r'])):
        _,pid,beh=node
        def body(test,_pid=pid,_beh=beh):
            n=ctr.setdefault(_pid,0); ctr[_pid]=n+1; log.append(_pid)
            r=_beh['r']
            if isinstance(r,list): r=r[min(n,len(r)-1)]
            if r=='T':
                while True: time.sleep(0.002)
            return {'C':None,'F':PR.FAIL_AND_CONTINUE}[r]
        body.__name__=pid
        opts=dict(beh.get('opts',{})); opts['timeout_s']=0.05
        return htf.PhaseOptions(**opts)(htf.PhaseDescriptor.wrap_or_copy(body))
    return orig_build(node, log, ctr)
P.build_real=build_real
def run_real(prog, cfg):
    log,ctr,recs=[],{},[]
    nodes=[P.build_real(n,log,ctr) for n in prog]
    t=htf.Test(*nodes)
    kw={}
    if cfg.get('sof')=='opt': kw['stop_on_first_failure']=True
    if cfg.get('fexc'): kw['failure_exceptions']=[ValueError]
    t.configure(**kw)
    td=cfg.get('tdiag')
    if td:
        @htf.TestDiagnoser(TR)
        def tdg(rec, store):
            log.append('TDIAG')
            if td=='raise': raise KeyError('td')
            return htf.Diagnosis(TR.T1,'x',is_failure=(td=='fail'))
        t.add_test_diagnosers(tdg)
    t.add_output_callbacks(recs.append)
    start=P.build_real(cfg['start'],log,ctr) if cfg.get('start') else None
    crashes=[]
    import traceback
    old=threading.excepthook
    threading.excepthook=lambda a: None if issubclass(a.exc_type,SystemExit) else crashes.append((a.exc_type.__name__, traceback.extract_tb(a.exc_traceback)[-1].name))
    conf={}
    if cfg.get('sof')=='conf': conf['stop_on_first_failure']=True
    if cfg.get('allow_unset'): conf['allow_unset_measurements']=True
    try:
        @CONF.save_and_restore(**conf)
        def go():
            with contextlib.redirect_stdout(io.StringIO()), contextlib.redirect_stderr(io.StringIO()):
                return t.execute(test_start=start)
        ret=go()
    finally: threading.excepthook=old
    rec=recs[0]
    return {'crash':crashes,'calls':log,'outcome':rec.outcome.name,'ret':ret,
      'phases':[(p.name,p.outcome.name,P._res(p.result),p.subtest_name) for p in rec.phases],
      'subtests':[(s.name,s.outcome.name) for s in rec.subtests],'branches':[(b.name,b.branch_taken) for b in rec.branches],
      'checkpoints':[(c.name,P._res(c.result),c.subtest_name) for c in rec.checkpoints]}
# ---- model side
class Model(P.Model):
    def once(self,pid,beh,sub,last):
        r=beh.get('r','C')
        n=self.ctr.get(pid,0)
        rr=r[min(n,len(r)-1)] if isinstance(r,list) else r
        if rr=='T':
            self.ctr[pid]=n+1; self.calls.append(pid)
            rec=(pid,'ERROR','TIMEOUT',sub['name'] if sub else None); self.phases.append(rec)
            return 'TIMEOUT',rec
        if rr=='X' and self.cfg.get('fexc'):
            final,rec=super().once(pid,beh,sub,last)
            return ('EXCF' if final=='EXC' and rec[2]=='EXC' and not (beh.get('d')=='RAISE' and False) else final),rec
        # unset with allow_unset
        if beh.get('m')=='unset' and self.cfg.get('allow_unset'):
            b2=dict(beh); b2['m']='pass'
            return super().once(pid,b2,sub,last)
        return super().once(pid,beh,sub,last)
    def n_P(self,n,sub,td):
        _,pid,beh=n
        subname=sub['name'] if sub else None
        if not td and sub and sub['outcome']=='FAIL':
            self.phases.append((pid,'SKIP','SKIP',subname)); return 'CONT'
        opts=beh.get('opts',{}); limit=opts.get('repeat_limit') or 3; count=1
        while True:
            last=count>=limit
            if beh.get('run_if') is False: final='SKIP'; recorded=None
            else: final,recorded=self.once(pid,beh,sub,last)
            rep=False
            if final=='TIMEOUT' and opts.get('repeat_on_timeout'): rep=True
            elif final=='REPEAT': rep=True
            elif opts.get('force_repeat'): rep=True
            elif opts.get('repeat_on_measurement_fail'): rep = recorded is not None and recorded[1]=='FAIL'
            if rep and not last: count+=1; continue
            break
        if self.cfg.get('sof') and recorded and recorded[1]=='FAIL': final='STOP'
        if final in('STOP','EXC','EXCF','TIMEOUT'):
            if not self.terminal: self.terminal=final
            return 'TERM'
        if final=='FAIL_SUBTEST': sub['outcome']='FAIL'
        return 'CONT'
def run_model(prog,cfg):
    m=Model(cfg)
    term=False
    if cfg.get('start'):
        sof=m.cfg.get('sof'); m.cfg=dict(m.cfg, sof=None)   # (r12) stop_on_first_failure is not applied to test_start
        r=m.node(cfg['start'],None,False)
        m.cfg=dict(m.cfg, sof=sof)
        term = r=='TERM'
    tdfail=False
    if not term:
        m.seq(prog,None,False)
        td=cfg.get('tdiag')
        if td:
            m.calls.append('TDIAG')
            if td=='raise' and not m.terminal: m.terminal='EXC'
            if td=='fail': tdfail=True
    t=m.terminal
    if t in('EXC',): out='ERROR'
    elif t=='EXCF': out='FAIL'
    elif t=='TIMEOUT': out='TIMEOUT'
    elif t=='STOP': out='FAIL'
    else:
        if tdfail: m.failure_diag=True
        out=m.finish()
    return {'crash':[],'calls':m.calls,'outcome':out,'ret':out=='PASS','phases':m.phases,'subtests':m.subtests,'branches':m.branches,'checkpoints':m.checkpoints}
def gen_prog(rng):
    ids=itertools.count()
    def g(depth):
        n=P.gen(rng,depth,ids,False)
        return n
    prog=[g(2) for _ in range(rng.randint(1,3))]
    # sprinkle timeouts
    def walk(n):
        if n[0]=='P':
            if rng.random()<.12:
                n[2].clear(); n[2]['r']=rng.choice(['T',['T','C'],['T','T','C']])
                if rng.random()<.5: n[2]['opts']={'repeat_on_timeout':True}
        elif n[0] in('S',): [walk(c) for c in n[1]]
        elif n[0]=='T': [walk(c) for c in n[2]]
        elif n[0]=='B': [walk(c) for c in n[4]]
        elif n[0]=='G': [walk(c) for part in n[1:] for c in part]
    for n in prog: walk(n)
    cfg={'sof':rng.choice([None,None,'opt','conf']),'fexc':rng.random()<.3,'allow_unset':rng.random()<.3,'tdiag':rng.choice([None,None,'pass','fail','raise'])}
    if rng.random()<.4:
        cfg['start']=('P','start',{'r':rng.choice(['C','C','F','S','X','K','T'])})
    return prog,cfg
rng=random.Random(SEED)
kinds=collections.Counter(); ex={}
for i in range(N):
    prog,cfg=gen_prog(rng)
    try: real=run_real(prog,cfg)
    except Exception as e: real={'harness-crash':repr(e)}
    model=run_model(prog,cfg)
    if real!=model:
        keys=tuple(k for k in model if real.get(k)!=model[k])
        sig=(keys, tuple(sorted(set(c[0]+'@'+c[1] for c in real.get('crash',[])))) )
        kinds[sig]+=1
        if sig not in ex or len(json.dumps(prog))<len(json.dumps(ex[sig][0])): ex[sig]=(prog,cfg,real,model)
print(N,'programs;', sum(kinds.values()),'mismatches')
for sig,c in kinds.most_common():
    prog,cfg,real,model=ex[sig]
    print('----',c,sig,cfg); print(json.dumps(prog))
    for k in model:
        if real.get(k)!=model[k]: print('   ',k,'\n      real ',real.get(k),'\n      model',model[k])
