import sys, itertools, random, io, contextlib, threading, time
sys.argv=['x']
import openhtf as htf
from openhtf import plugs
from openhtf.util import configuration
CONF=configuration.CONF
seq=itertools.count()
def mkplug(name, ev, ctor_raise=False, td='ok'):
    class P(htf.BasePlug):
        def __init__(self):
            ev.append((next(seq),'ctor',name,id(self)))
            if ctor_raise: raise RuntimeError('ctor '+name)
        def tearDown(self):
            ev.append((next(seq),'td',name,id(self)))
            if td=='raise': raise RuntimeError('td')
            if td=='hang':
                while True: time.sleep(0.005)
    P.__name__='P_'+name
    return P
def run(seed):
    rng=random.Random(seed); ev=[]
    np_=rng.randint(1,3)
    fail_k = rng.choice([None,None,0,1,2])
    classes=[mkplug('p%d'%i, ev, ctor_raise=(fail_k==i), td=rng.choice(['ok','ok','raise','hang'])) for i in range(np_)]
    def mkphase(n, use, beh):
        def body(test, **kw):
            ev.append((next(seq),'phase',n, {k:id(v) for k,v in kw.items()}))
            if beh=='X': raise ValueError()
            if beh=='S': return htf.PhaseResult.STOP
        body.__name__=n
        ph=htf.PhaseDescriptor.wrap_or_copy(body)
        if use: ph=plugs.plug(**{'a%d'%i: classes[i] for i in use})(ph)
        return ph
    phases=[mkphase('ph%d'%j, sorted(rng.sample(range(np_), rng.randint(0,np_))), rng.choice(['C','C','X','S'])) for j in range(rng.randint(1,3))]
    start = mkphase('start', sorted(rng.sample(range(np_), rng.randint(0,np_))), rng.choice(['C','C','X'])) if rng.random()<.5 else None
    t=htf.Test(*phases); recs=[]
    t.add_output_callbacks(lambda r: (recs.append(r), ev.append((next(seq),'cb'))))
    CONF.load(plug_teardown_timeout_s=0.05)
    with contextlib.redirect_stdout(io.StringIO()), contextlib.redirect_stderr(io.StringIO()):
        t.execute(test_start=start)
    # oracle
    probs=[]
    ctors={}; tds={}
    for e in ev:
        if e[1]=='ctor': ctors.setdefault(e[2],[]).append(e)
        if e[1]=='td': tds.setdefault(e[2],[]).append(e)
    for n,c in ctors.items():
        if len(c)>1: probs.append(('ctor twice',n))
        failed = fail_k is not None and n=='p%d'%fail_k
        k = len(tds.get(n,[]))
        if not failed and k!=1: probs.append(('td count',n,k))
        if failed and k!=0: probs.append(('td on failed ctor',n,k))
    cb=[e[0] for e in ev if e[1]=='cb']
    lastphase=max([e[0] for e in ev if e[1]=='phase'], default=-1)
    for n,l in tds.items():
        for e in l:
            if e[0]<lastphase: probs.append(('td before last phase',n))
            if cb and e[0]>cb[0]: probs.append(('td after cb',n))
    for e in ev:
        if e[1]=='phase':
            for k,i in e[3].items():
                n='p'+k[1:]
                if ctors[n][0][3]!=i: probs.append(('wrong instance',e[2],k))
    ctor_failed = any(fail_k is not None and n=='p%d'%fail_k for n in ctors)
    if ctor_failed:
        if recs[0].outcome.name!='ERROR': probs.append(('outcome after ctor fail', recs[0].outcome.name))
        fe=[e[0] for e in ev if e[1]=='ctor' and e[2]=='p%d'%fail_k][0]
        if any(e[1]=='phase' and e[0]>fe for e in ev): probs.append('phase after ctor fail')
    # start-phase plugs only
    return probs, ev
bad=0
for s in range(600):
    p,ev=run(s)
    if p:
        bad+=1
        if bad<8: print(s,p,[e[1:3] for e in ev])
print('bad',bad)
