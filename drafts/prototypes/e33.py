import sys, threading, time, io, contextlib, signal, faulthandler
ROOT=sys.argv[1]; sys.argv=['x']; sys.path.insert(0, ROOT)
import openhtf as htf
from openhtf.core import test_descriptor
mon=sys.monitoring; TOOL=3; mon.use_tool_id(TOOL,'pp')
import inspect
src, start = inspect.getsourcelines(test_descriptor.Test.execute)
lines=[start+i for i,l in enumerate(src)]
fired={}
def on_line(code, line):
    if threading.current_thread() is not threading.main_thread(): return
    if line==fired.get('target') and not fired.get('done'):
        fired['done']=True
        test_descriptor.Test.handle_sig_int(signal.SIGINT, None)
mon.set_local_events(TOOL, test_descriptor.Test.execute.__code__, mon.events.LINE)
mon.register_callback(TOOL, mon.events.LINE, on_line)
def run(line):
    fired.clear(); fired['target']=line
    test_descriptor.Test.HANDLED_SIGINT_ONCE=False
    calls=[]
    def p(test): calls.append('p')
    t=htf.Test(p); recs=[]; t.add_output_callbacks(recs.append, lambda r: recs.append('second'))
    res=[]
    def go():
        with contextlib.redirect_stdout(io.StringIO()):
            try: res.append(t.execute())
            except KeyboardInterrupt: res.append('KI')
            except BaseException as e: res.append(type(e).__name__)
    # run on main thread with a watchdog that dumps and exits
    timer=threading.Timer(3.0, lambda: (print('HANG at line', line, src[line-start].strip(), flush=True), __import__('os')._exit(3)))
    timer.daemon=True; timer.start()
    go(); timer.cancel()
    return res, [r if r=='second' else r.outcome and r.outcome.name for r in recs], calls
import subprocess
if len(sys.argv)>1 and False: pass
import os
if os.environ.get('ONE'):
    ln=int(os.environ['ONE']); print(ln, src[ln-start].strip()[:50], run(ln))
else:
    for ln in lines:
        if not src[ln-start].strip() or src[ln-start].strip().startswith(('#','"""')): continue
        r=subprocess.run([sys.executable, __file__, ROOT], env=dict(os.environ, ONE=str(ln)), capture_output=True, text=True, timeout=30)
        out=[l for l in r.stdout.splitlines() if l.startswith(str(ln)) or l.startswith('HANG')]
        print(out[-1] if out else ('?', ln, r.returncode))
