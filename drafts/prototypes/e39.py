import sys, threading, time, io, contextlib, collections
ROOT=sys.argv[1]; sys.argv=['x']+sys.argv[2:]; sys.path.insert(0, ROOT)
import openhtf as htf
assert htf.__file__.startswith(ROOT)
from openhtf.core import test_descriptor
sys.setswitchinterval(1e-5)
def run(it):
    seen=collections.OrderedDict(); want={}; probs=[]
    cv=threading.Condition()
    final={}
    def digest(d):
        rp=d['running_phase_state']
        return (d['status'], rp['name'] if rp else None,
                tuple(sorted((k, repr(v.get('measured_value')), v['outcome']) for k,v in (rp['measurements'].items() if rp else []))),
                len(d['test_record']['phases']), len(d['test_record']['log_records']), d['test_record']['dut_id'], d['test_record']['outcome'])
    stop=threading.Event()
    def watcher(t):
        st=None
        while st is None and not stop.is_set():
            st=t.state; time.sleep(0.0005)
        last=None
        while not stop.is_set():
            try: snap, ev = st.asdict_with_event()
            except RuntimeError: continue
            dg=digest(snap)
            with cv:
                seen[dg]=1; last=dg; final['w']=dg; cv.notify_all()
            if snap['status']=='COMPLETED': return
            if not ev.wait(3.0):
                # watchdog: compare with current state
                cur=digest(st._asdict())
                if cur!=dg: probs.append(('stale watcher', dg, cur))
                else: probs.append(('idle 3s',dg))
                return
    def wait_seen(pred, what):
        with cv:
            ok=cv.wait_for(lambda: any(pred(d) for d in seen), 3.0)
        if not ok: probs.append(('never seen', what))
    @htf.measures(htf.Measurement('m'), htf.Measurement('d').with_dimensions('x'))
    def p1(test):
        wait_seen(lambda d: d[0]=='RUNNING' and d[1]=='p1', 'running p1')
        test.measurements.m=5
        wait_seen(lambda d: d[1]=='p1' and any(k=='m' and v=='5' for k,v,o in d[2]), 'm=5')
        test.measurements.d[1]=7
        wait_seen(lambda d: d[1]=='p1' and any(k=='d' and '7' in v for k,v,o in d[2]), 'd[1]=7')
        n0=max((d[4] for d in seen), default=0)
        test.logger.info('hello')
        wait_seen(lambda d: d[4]>n0, 'log record')
        test.dut_id='dut9'
        wait_seen(lambda d: d[5]=='dut9', 'dut id')
    def gate():
        wait_seen(lambda d: d[1] is None and d[3]>=1, 'phase finished')
        return True
    @htf.PhaseOptions(run_if=gate)
    def p2(test): pass
    t=htf.Test(p1,p2); recs=[]; t.add_output_callbacks(recs.append)
    w=threading.Thread(target=watcher,args=(t,)); w.start()
    with contextlib.redirect_stdout(io.StringIO()): t.execute()
    w.join(5); stop.set()
    if w.is_alive(): probs.append('watcher stuck')
    if final.get('w',(None,))[0]!='COMPLETED': probs.append(('final not COMPLETED', final.get('w')))
    return probs
bad=collections.Counter()
t0=time.time()
for it in range(int(sys.argv[1]) if len(sys.argv)>1 else 100):
    for p in run(it): bad[str(p)[:80]]+=1
print(dict(bad), round(time.time()-t0,1))
