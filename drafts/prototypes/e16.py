import sys, itertools, random, logging, io, contextlib
sys.argv=['x']
from proto_tree import *
import openhtf as htf
from openhtf import plugs
from openhtf.core import test_descriptor
from openhtf.util import configuration
CONF = configuration.CONF

def run_full(prog, rng):
    log, ctr, recs = [], {}, []
    nodes = [build_real(n, log, ctr) for n in prog]
    t = htf.Test(*nodes)
    calls=[]
    cbs=[]
    nraise = rng.randint(0,2)
    for i in range(3):
        def cb(rec, i=i):
            calls.append((i, rec, t.state))
            if i < nraise: raise RuntimeError('cb')
        cbs.append(cb)
    t.add_output_callbacks(*cbs)
    nh0 = len(logging.getLogger('openhtf').handlers)
    with contextlib.redirect_stdout(io.StringIO()), contextlib.redirect_stderr(io.StringIO()):
        ret = t.execute()
    probs=[]
    if [c[0] for c in calls] != [0,1,2]: probs.append(('cb order', [c[0] for c in calls]))
    rec = calls[0][1]
    if any(c[1] is not rec for c in calls): probs.append('cb rec differs')
    if rec.outcome is None or rec.end_time_millis is None or rec.start_time_millis > rec.end_time_millis: probs.append('rec times/outcome')
    if not rec.dut_id: probs.append('dut_id')
    if 'test_name' not in rec.metadata or 'config' not in rec.metadata: probs.append('metadata')
    for p in rec.phases:
        if p.outcome is None or p.result is None or p.options is None: probs.append(('phase fields', p.name))
        if p.end_time_millis is None or p.start_time_millis > p.end_time_millis or p.end_time_millis > rec.end_time_millis: probs.append(('phase times', p.name, p.start_time_millis, p.end_time_millis, rec.end_time_millis))
    st = calls[0][2]
    if st is not None and st.running_phase_state is not None: probs.append('running phase set')
    if ret != (rec.outcome.name == 'PASS'): probs.append('ret')
    if t.state is not None: probs.append('state after')
    if len(test_descriptor.Test.TEST_INSTANCES): probs.append('instances')
    if len(logging.getLogger('openhtf').handlers) != nh0: probs.append('handlers')
    return probs
rng = random.Random(5)
bad=0
for i in range(1500):
    ids = itertools.count()
    prog = [gen(rng, 3, ids, False) for _ in range(rng.randint(1, 4))]
    pr = run_full(prog, rng)
    if pr:
        bad+=1
        if bad<6: print(pr, json.dumps(prog)[:300])
print('bad', bad)
