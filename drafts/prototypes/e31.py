import os, subprocess, sys, time, json, shutil
root=sys.argv[1]
d='/tmp/exp/cr3'
SYSC='openat,write,close,rename,renameat,renameat2,unlink,unlinkat,fsync,newfstatat,lseek,ioctl,fchmod,chmod'
def one(N):
    shutil.rmtree(d, ignore_errors=True); os.makedirs(d)
    open(os.path.join(d,'out.json'),'w').write('{"old": "complete"}')
    r1,w1=os.pipe(); r2,w2=os.pipe()
    ch=subprocess.Popen(['/venv/bin/python','e31_child.py',root,d,str(r1),str(w2)], pass_fds=(r1,w2), stderr=subprocess.DEVNULL)
    os.close(r1); os.close(w2)
    assert os.read(r2,1)==b'R'
    args=['strace','-f','-p',str(ch.pid),'-o','/tmp/exp/st4.log','-e','trace='+SYSC]
    if N: args+=['-e','inject=%s:signal=KILL:when=%d'%(SYSC,N)]
    st=subprocess.Popen(args, stderr=subprocess.PIPE)
    line=st.stderr.readline()   # "strace: Process N attached"
    os.write(w1,b'g')
    rc=ch.wait(); st.wait()
    os.close(w1); os.close(r2)
    try: content=open(os.path.join(d,'out.json')).read()
    except FileNotFoundError: content=None
    state = 'absent' if content is None else 'old' if content=='{"old": "complete"}' else 'new' if (content.startswith('{') and content.rstrip().endswith('}') and json.loads(content)) else 'TRUNCATED'
    n=sum(1 for _ in open('/tmp/exp/st4.log'))
    return rc, state, n, sorted(os.listdir(d))
rc,state,n,ls=one(0); print('dry', rc, state, n, ls)
import collections
res=collections.Counter()
for N in range(1, n+2):
    rc,state,_,ls=one(N); res[(rc,state)]+=1
    if state=='TRUNCATED': print('TRUNC at',N)
print(dict(res))
