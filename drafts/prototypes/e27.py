"""Gate scheduler prototype: enumerate all interleavings (preemption-bounded) of watchers/updaters on SubscribableStateMixin."""
import sys, threading, time, importlib
ROOT = sys.argv[1] if len(sys.argv)>1 else '/repo'; sys.argv=['x']
sys.path.insert(0, ROOT)
import openhtf.util as U
mon=sys.monitoring; TOOL=3; mon.use_tool_id(TOOL,'gate')

class Sched:
    def __init__(self): self.cv=threading.Condition(); self.state={}; self.grant=None; self.names={}
    def reset(self): self.state={}; self.grant=None
    def yield_point(self, where):
        me=threading.current_thread()
        if me not in self.state: return
        with self.cv:
            self.state[me]=('ready', where); self.cv.notify_all()
            while self.grant is not me: self.cv.wait()
            self.grant=None; self.state[me]=('running', where)
    def block(self, lock):
        me=threading.current_thread()
        with self.cv:
            self.state[me]=('blocked', lock); self.cv.notify_all()
            while self.grant is not me: self.cv.wait()
            self.grant=None; self.state[me]=('running', None)
    def done(self):
        me=threading.current_thread()
        with self.cv: self.state[me]=('done',None); self.cv.notify_all()
S=Sched()
class CoopLock:
    def __init__(self): self.l=threading.Lock()
    def acquire(self, blocking=True):
        while not self.l.acquire(False):
            S.block(self)
        return True
    def release(self): self.l.release()
    def __enter__(self): self.acquire()
    def __exit__(self,*a): self.release()
def on_line(code,line): S.yield_point((code.co_qualname,line))
class Obj(U.SubscribableStateMixin):
    def __init__(self): super().__init__(); self.v=0; self._lock=CoopLock()
    def _asdict(self): return {'v': self.v}
def updater(o):
    o.v += 1
    o.notify_update()
def watcher(o, out):
    snap, ev = o.asdict_with_event()
    out.append((snap, ev))
for f in (U.SubscribableStateMixin.asdict_with_event, U.SubscribableStateMixin.notify_update, updater, watcher, Obj._asdict):
    mon.set_local_events(TOOL, f.__code__, mon.events.LINE)
mon.register_callback(TOOL, mon.events.LINE, on_line)

def run_schedule(prefix, nw, nu):
    """Run with choices from prefix then default (lowest index, non-preempting). Returns (trace of (enabled, chosen)), result."""
    S.reset(); o=Obj(); outs=[[] for _ in range(nw)]
    ths=[]
    def wrap(fn,*a):
        def r():
            S.yield_point(('start',0))
            try: fn(*a)
            finally: S.done()
        return r
    for i in range(nw): ths.append(threading.Thread(target=wrap(watcher,o,outs[i]), name='W%d'%i))
    for i in range(nu): ths.append(threading.Thread(target=wrap(updater,o), name='U%d'%i))
    for t in ths: S.state[t]=('new',None)
    for t in ths: t.start()
    trace=[]; last=None; step=0
    while True:
        with S.cv:
            while any(S.state[t][0] in ('new','running') for t in ths) or S.grant is not None: S.cv.wait()
            enabled=[i for i,t in enumerate(ths) if S.state[t][0]=='ready' or (S.state[t][0]=='blocked' and not S.state[t][1].l.locked())]
            if not enabled:
                if all(S.state[t][0]=='done' for t in ths): break
                raise RuntimeError('deadlock %r' % [(t.name,S.state[t]) for t in ths])
            if step < len(prefix): c=prefix[step]
            else: c = last if last in enabled else enabled[0]
            assert c in enabled, (prefix, step, c, enabled)
            trace.append((tuple(enabled), c, last)); last=c; step+=1
            S.grant=ths[c]; S.cv.notify_all()
    for t in ths: t.join()
    # oracle at quiescence
    viol=[]
    for i,out in enumerate(outs):
        snap,ev=out[0]
        if snap['v']!=o.v and not ev.is_set(): viol.append(('lost update', i, snap, o.v))
    return trace, viol
def explore(nw, nu, bound):
    stack=[[]]; n=0; viols=[]; seen=set()
    while stack:
        prefix=stack.pop()
        trace,viol=run_schedule(prefix, nw, nu); n+=1
        if viol: viols.append((prefix, viol))
        # count preemptions along trace; branch on alternatives after the prefix
        for i in range(len(prefix), len(trace)):
            enabled, chosen, last = trace[i]
            pre = sum(1 for (e,c,l) in trace[:i] if l is not None and l in e and c!=l)
            for alt in enabled:
                if alt==chosen: continue
                cost = 1 if (last is not None and last in enabled and alt!=last) else 0
                if pre+cost<=bound:
                    stack.append([c for (_,c,_) in trace[:i]]+[alt])
    return n, viols
t0=time.time()
for (nw,nu,b) in ((1,1,1),):
    n,v=explore(nw,nu,b); print(nw,nu,b,'schedules',n,'violations',len(v), v[:1], round(time.time()-t0,1))
