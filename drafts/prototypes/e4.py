import io, json, logging
import openhtf as htf
from openhtf.output.callbacks import json_factory
from openhtf.util import data
recs=[]
def p(test):
    test.attach('a.txt', b'\x00\x01hello')
    test.logger.info('mac %(m)s', {'m': 'aa:bb:cc:dd:ee:ff'})
    test.logger.info('mac2 %s', 'aa:bb:cc:dd:ee:ff')
    test.logger.info('plain')
    class O:
        def __str__(self): return 'aa:bb:cc:dd:ee:ff'
    test.logger.info('mac3 %s', O())
    test.logger.info('mac4 %s:%s', 'aa:bb:cc', 'dd:ee:ff')
t = htf.Test(p)
buf1 = io.BytesIO(); buf2 = io.BytesIO()
t.add_output_callbacks(json_factory.OutputToJSON(buf1, inline_attachments=True), recs.append, json_factory.OutputToJSON(buf2, inline_attachments=False))
t.execute()
rec = recs[0]
print([ (l.message) for l in rec.log_records if 'mac' in l.message or 'plain' in l.message])
bt = rec.as_base_types()
print('attachments rendering after JSON:', bt['phases'][0]['attachments'])
print('buf2 has data inline?', 'data' in json.loads(buf2.getvalue())['phases'][0]['attachments']['a.txt'])
