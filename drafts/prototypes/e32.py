import sys, threading, time, itertools, io, contextlib, types, collections, json
ROOT=sys.argv[1]; QUICK=int(sys.argv[2]) if len(sys.argv)>2 else 0; sys.argv=['x']; sys.path.insert(0, ROOT)
import openhtf as htf
assert htf.__file__.startswith(ROOT)
from openhtf import plugs
from openhtf.core import test_executor, phase_executor, test_state, test_descriptor
from openhtf.util import threads as hthreads
import openhtf.plugs as plugsmod
mon=sys.monitoring; TOOL=3; mon.use_tool_id(TOOL,'pp')
def all_codes(mod):
    out=set()
    def walk(c):
        if c in out: return
        out.add(c)
        for k in c.co_consts:
            if isinstance(k, types.CodeType): walk(k)
    fn=mod.__file__
    import gc
    for o in gc.get_objects():
        if isinstance(o, types.FunctionType) and o.__code__.co_filename==fn: walk(o.__code__)
    return out
class Engine:
    def __init__(self): self.target=None; self.seen={}; self.paused=threading.Event(); self.resume=threading.Event(); self.lock=threading.Lock(); self.fired=False
    def on_line(self, code, line):
        th=threading.current_thread().name
        role = 'exec' if th.startswith('TestExecutor') else 'phase' if 'PhaseExecutorThread' in th else 'main' if th=='MainThread' else None
        if role is None: return
        key=(role, code.co_qualname, line)
        with self.lock:
            n=self.seen[key]=self.seen.get(key,0)+1
            fire = (not self.fired and self.target is not None and key==self.target[:3] and n==self.target[3])
            if fire: self.fired=True
        if fire:
            self.paused.set(); self.resume.wait(5)
E=Engine()
for m in (test_executor, phase_executor, hthreads, test_state, plugsmod, test_descriptor):
    for c in all_codes(m): mon.set_local_events(TOOL, c, mon.events.LINE)
mon.register_callback(TOOL, mon.events.LINE, E.on_line)
seq=itertools.count()
def scenario(target):
    E.target=target; E.seen={}; E.fired=False; E.paused.clear(); E.resume.clear()
    ev=[]
    class Plug(htf.BasePlug):
        def __init__(self): ev.append((next(seq),'plug_ctor'))
        def tearDown(self): ev.append((next(seq),'plug_td'))
    def mk(name, slow=False, res=None, opts=None):
        def body(test, p):
            ev.append((next(seq),'start',name))
            try:
                if slow:
                    t0=time.time()
                    while time.time()-t0<0.03: pass
                ev.append((next(seq),'end',name))
            except BaseException as e:
                ev.append((next(seq),'exc',name)); raise
            return res
        body.__name__=name
        ph=plugs.plug(p=Plug)(body)
        if opts: ph=htf.PhaseOptions(**opts)(ph)
        return ph
    tree=[mk('a'), htf.PhaseGroup(setup=[mk('s')], main=[mk('m1',True), htf.Subtest('st', mk('u1'), mk('u2')), mk('m2',opts={'force_repeat':True,'repeat_limit':2})], teardown=[mk('t1'), mk('t2')]), mk('z')]
    t=htf.Test(*tree)
    recs=[]; t.add_output_callbacks(lambda r:(recs.append(r), ev.append((next(seq),'cb'))))
    def ctrl():
        if E.paused.wait(3):
            ev.append((next(seq),'abort_call')); t.abort_from_sig_int(); ev.append((next(seq),'abort_ret')); E.resume.set()
    c=threading.Thread(target=ctrl,name='ctrl'); c.start()
    done=[]
    def runit():
        with contextlib.redirect_stdout(io.StringIO()):
            done.append(t.execute(test_start=mk('start')))
    runit()
    E.resume.set(); c.join()
    return ev, recs, dict(E.seen)
def oracle(ev, recs):
    probs=[]
    if len(recs)!=1: probs.append(('cb count',len(recs))); return probs
    rec=recs[0]
    ar=[e[0] for e in ev if e[1]=='abort_ret']
    td=[e[0] for e in ev if e[1]=='plug_td']; cb=[e[0] for e in ev if e[1]=='cb']
    if len(td)>1 or (len([e for e in ev if e[1]=='plug_ctor'])==1 and len(td)!=1): probs.append(('plug_td',len(td)))
    if td and cb and not td[0]<cb[0]: probs.append('td after cb')
    if ar:
        late=[e[2] for e in ev if e[1]=='start' and e[0]>ar[0] and e[2] not in ('t1','t2')]
        if late: probs.append(('late body',late))
        if td and ar[0]<td[0] and rec.outcome.name!='ABORTED': probs.append(('outcome',rec.outcome.name))
    starts=collections.Counter(e[2] for e in ev if e[1]=='start')
    srec=[p for p in rec.phases if p.name=='s']
    entered = bool(srec) and srec[0].outcome.name in ('PASS','FAIL') and not srec[0].result.is_terminal
    if entered and (starts['t1'],starts['t2'])!=(1,1): probs.append(('teardown',starts['t1'],starts['t2']))
    if not entered and (starts['t1'] or starts['t2'] or starts['m1']): probs.append(('ran w/o entering',dict(starts)))
    # overlap
    open_=None
    for e in ev:
        if e[1]=='start':
            if open_: probs.append(('overlap',open_,e[2]))
            open_=e[2]
        elif e[1] in('end','exc') and open_==e[2]: open_=None
    return probs
ev,recs,seen=scenario(None)
print('baseline', oracle(ev,recs), len(seen), 'points', sum(seen.values()), 'hits')
pts=sorted(seen.items())
import random
rng=random.Random(0)
plans=[(k[0],k[1],k[2],h) for k,n in pts for h in range(1,n+1)]
if QUICK: plans=rng.sample(plans, QUICK)
kinds=collections.Counter(); ex={}
t0=time.time()
for pl in plans:
    ev,recs,_=scenario(pl)
    fired = any(e[1]=='abort_call' for e in ev)
    for p in oracle(ev,recs):
        k=(p[0] if isinstance(p,tuple) else p, pl[0], pl[1])
        kinds[k]+=1; ex.setdefault(k,(pl,p,[e[1:] for e in ev]))
print(len(plans),'schedules', round(time.time()-t0,1),'s')
for k,v in sorted(kinds.items(), key=str): print(v,k)
for k in list(ex)[:6]: print(ex[k])
