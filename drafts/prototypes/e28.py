import sys, threading, time, itertools, io, contextlib, signal, os
ROOT=sys.argv[1]; sys.argv_mode=sys.argv[2]; sys.argv=['x']; sys.path.insert(0, ROOT)
import openhtf as htf
assert htf.__file__.startswith(ROOT), htf.__file__
from openhtf import plugs
from openhtf.core import test_descriptor
seq=itertools.count()
def run(mode):
    ev=[]
    class Plug(htf.BasePlug):
        def tearDown(self): ev.append((next(seq),'plug_td'))
    in_m1=threading.Event(); in_t1=threading.Event()
    def mk(name, slow=None):
        def body(test, p):
            ev.append((next(seq),'start',name))
            try:
                if slow is not None:
                    slow.set()
                    t0=time.time()
                    while time.time()-t0<3: time.sleep(0.002)
                ev.append((next(seq),'end',name))
            except BaseException as e:
                ev.append((next(seq),'exc',name,type(e).__name__)); raise
        body.__name__=name
        return plugs.plug(p=Plug)(body)
    t=htf.Test(htf.PhaseGroup(setup=[mk('s')], main=[mk('m1', in_m1), mk('m2')], teardown=[mk('t1', in_t1), mk('t2')]), mk('after'))
    recs=[]; t.add_output_callbacks(lambda r:(recs.append(r), ev.append((next(seq),'cb'))))
    test_descriptor.Test.HANDLED_SIGINT_ONCE=False
    def ctrl():
        in_m1.wait(5)
        ev.append((next(seq),'abort1_call'))
        if mode=='thread': t.abort_from_sig_int()
        else: os.kill(os.getpid(), signal.SIGINT)
        ev.append((next(seq),'abort1_ret'))
        in_t1.wait(5); time.sleep(0.05)
        ev.append((next(seq),'abort2_call'))
        if mode=='thread': t.abort_from_sig_int()
        else: os.kill(os.getpid(), signal.SIGINT)
        ev.append((next(seq),'abort2_ret'))
    c=threading.Thread(target=ctrl); c.start()
    res=None
    t0=time.time()
    with contextlib.redirect_stdout(io.StringIO()):
        try: res=t.execute()
        except KeyboardInterrupt: res='KeyboardInterrupt'
    c.join()
    return res, recs[0].outcome.name if recs else None, round(time.time()-t0,2), [e[1:] for e in ev]
for mode in (sys.argv_mode,):
    print(mode, run(mode))
