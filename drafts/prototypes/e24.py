import sys, itertools, random, io, contextlib, threading, json, attr, copy
sys.argv=['x']
from proto_tree import *
from proto_tree import _res
import openhtf as htf
def fp(o, depth=0, seen=None):
    """deep fingerprint"""
    seen = seen if seen is not None else {}
    if id(o) in seen: return ('ref',)
    if isinstance(o,(int,float,str,bytes,bool,type(None))): return o
    if isinstance(o, enum.Enum): return ('enum', str(o))
    seen[id(o)] = 1
    try:
        if isinstance(o, dict): return ('dict', [(fp(k,depth+1,seen), fp(v,depth+1,seen)) for k,v in o.items()])
        if isinstance(o, (list,tuple,set,frozenset)): return (type(o).__name__, [fp(x,depth+1,seen) for x in o])
        if attr.has(type(o)): return (type(o).__name__, [(f.name, fp(getattr(o,f.name),depth+1,seen)) for f in attr.fields(type(o))])
        if callable(o): return ('callable', getattr(o,'__qualname__',repr(type(o))))
        if hasattr(o,'__dict__'): return (type(o).__name__, fp(vars(o),depth+1,seen))
        return ('obj', type(o).__name__, str(o))
    finally:
        del seen[id(o)]
import enum
rng = random.Random(21)
bad=0
for i in range(500):
    ids = itertools.count()
    prog = [gen(rng, 3, ids, False) for _ in range(rng.randint(1, 4))]
    log, ctr = [], {}
    nodes = [build_real(n, log, ctr) for n in prog]
    t = htf.Test(*nodes)
    recs=[]; t.add_output_callbacks(recs.append)
    f0 = fp(t.descriptor.phase_sequence)
    obs=[]
    for run in range(2):
        log.clear(); ctr.clear()
        with contextlib.redirect_stdout(io.StringIO()), contextlib.redirect_stderr(io.StringIO()):
            ret=t.execute()
        rec=recs[-1]
        obs.append({'calls': list(log),'outcome': rec.outcome.name,
          'phases': [(p.name, p.outcome.name, _res(p.result), p.subtest_name, {k:(m.outcome.name, str(m.measured_value)) for k,m in p.measurements.items()}, list(p.diagnosis_results), list(p.failure_diagnosis_results)) for p in rec.phases],
          'subtests': [(s.name, s.outcome.name) for s in rec.subtests], 'branches': [(b.name, b.branch_taken) for b in rec.branches],
          'checkpoints': [(c.name, _res(c.result)) for c in rec.checkpoints], 'diagnoses':[str(d.result) for d in rec.diagnoses], 'details': [(d.code) for d in rec.outcome_details]})
        f1 = fp(t.descriptor.phase_sequence)
        if f1!=f0: bad+=1; print('descriptor mutated', json.dumps(prog)[:200]); break
    if obs[0]!=obs[-1]:
        bad+=1
        print('runs differ', [k for k in obs[0] if obs[0][k]!=obs[1][k]], json.dumps(prog)[:300])
print('bad', bad)
