#!/usr/bin/env python3
"""Writes /verif/MANIFEST.json from vf/registry.py and validates it."""
import json, os, sys, subprocess
HERE = os.path.dirname(os.path.dirname(os.path.abspath(__file__)))
sys.path.insert(0, HERE)
from vf import registry

props = [json.loads(l) for l in open(os.path.join(HERE, 'properties.jsonl'))]
ids = [p['id'] for p in props]
checks, na = [], []
for pid in ids:
  e = registry.CHECKS.get(pid)
  if e is None or not e.get('claimed', True):
    na.append({'property_id': pid,
               'reason': (e or {}).get('reason', 'check not built yet in this session; see DESIGN.md section 3')})
    continue
  checks.append({
      'property_id': pid,
      'quick_cmd': './check %s --tier quick' % pid,
      'thorough_cmd': './check %s --tier thorough' % pid,
      'evidence_file': 'evidence/%s.json' % pid,
      'replay_cmd_template': './check %s --replay {path}' % pid,
      'engine': e.get('engine', 'vf'),
      'level_claimed': {'category': e['level'], 'text': e['text'],
                        'design_ref': e.get('design_ref', 'DESIGN.md section 3, ' + pid)},
      'level_note': e['note'],
      'technique': e['technique'],
  })
manifest = {
    'version': 1,
    'setup_cmd': registry.SETUP_CMD,
    'hooks': registry.HOOKS,
    'engines': registry.ENGINES,
    'checks': checks,
    'notes': registry.NOTES,
    'not_applicable': na,
}
path = os.path.join(HERE, 'MANIFEST.json')
with open(path, 'w') as f:
  json.dump(manifest, f, indent=1)
  f.write('\n')
code = ("import json,jsonschema;"
        "jsonschema.validate(json.load(open(%r)),json.load(open('/root/.vp/MANIFEST.schema.json')));"
        "print('MANIFEST ok: %d checks, %d not_applicable')") % (path, len(checks), len(na))
subprocess.check_call(['python3-vt', '-c', code])
