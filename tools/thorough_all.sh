#!/bin/sh
# Runs the thorough tier of every registered check once (development aid).
ids="$@"
[ -z "$ids" ] && ids=$(python3 -c "import json;print(' '.join(c['property_id'] for c in json.load(open('MANIFEST.json'))['checks']))")
out=$(mktemp -d /tmp/vf-thorough-XXXX)
for id in $ids; do
  t0=$(date +%s)
  VERIF_OUT=$out ./check $id --tier thorough > $out/$id.log 2>&1
  rc=$?
  echo "$id rc=$rc $(( $(date +%s) - t0 ))s $(grep -cE '^VIOLATION' $out/$id.log) violations; $(tail -2 $out/$id.log | head -1 | cut -c1-260)"
  [ $rc -ne 0 ] && grep -E '^VIOLATION|^  mechanism|^INCONCLUSIVE' $out/$id.log | cut -c1-500
done
echo "logs in $out"
