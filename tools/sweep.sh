#!/bin/sh
# Seed sweep of the quick tier of every registered check (development aid).
# usage: tools/sweep.sh "1 2 3" [IDs...]
seeds="$1"; shift
ids="$@"
[ -z "$ids" ] && ids=$(python3 -c "import json;print(' '.join(c['property_id'] for c in json.load(open('MANIFEST.json'))['checks']))")
out=$(mktemp -d /tmp/vf-sweep-XXXX)
for s in $seeds; do
  for id in $ids; do
    VERIF_SEED=$s VERIF_OUT=$out ./check $id --tier quick > $out/$id.$s.log 2>&1
    rc=$?
    echo "$id seed=$s rc=$rc $(grep -cE '^VIOLATION' $out/$id.$s.log) violations; $(grep -E '^INCONCLUSIVE' $out/$id.$s.log | head -2 | cut -c1-200)"
    [ $rc -ne 0 ] && grep -E '^VIOLATION|^  mechanism' $out/$id.$s.log | cut -c1-400
  done
done
echo "logs in $out"
