#!/usr/bin/env python3
"""Writes seeded/README.md from the meta.json files and the notes below."""
import json, os, re
HERE = os.path.dirname(os.path.dirname(os.path.abspath(__file__)))
# what had to be added to the registered check before it caught the change
STRENGTHENED = {
    'C01-2': 'internal diagnoses added to the program model (small alphabet, random generator); C01 also enumerates the small alphabet',
    'C03-1': 'schedules in which the *aborting* thread is the one held (abortlab abort_in_thread, C03 kind asched, every line of the abort path)',
    'C03-2': 'group oracle judges every teardown node kind (branch / checkpoint / sequence / nested group), three "rich teardown" skeletons',
    'C04-1': 'phases without a `test` argument in the program family; every reached line (first and second hit) is the pause point of one simple abort in the quick tier',
    'C06-2': 'diagnosis kind {ordinary, internal} for conditional validators',
    'C08-1': 'the same plug class under two argument names (plug entries such as "0b")',
    'C08-2': 'tearDown fault td_slow (50 scheduler yields) judged on its own measured run time against plug_teardown_timeout_s',
    'C09-1': 'kind race: two threads call execute() on one Test, the first held at every line of its path through test_descriptor.py',
    'C09-2': 'kind abort_sched: one abort at every line reached by the C04 family, record completeness judged',
    'C14-2': 'fault cases: the device withholds one OKAY, the host retries (also found F27 in the pinned tree)',
    'C17-1': 'atomic_write without filesync under strace kills (data only in the user-space buffer) and a failing final flush inside close()',
    'C19-1': 'paused operation in {log, end a run, start a run} x action, every open run logs once more after the release, framework message after all runs ended',
    'C02-2': 'directed family of subtests nested in subtests with checkpoints before / inside / after the inner one',
    'C05-1': 'stateful run_if (one verdict per evaluation)',
    'C05-2': 'falsy non-PhaseResult return values 0 / False / "" / []',
    'C07-2': 'the limits a within_percent validator declares (minimum / maximum) must lie within 4 ulp of the exact ones and then decide every probe exactly',
    'C11-1': 'reruns preceded by a diagnosis and a measurement with a conditional validator keyed on it',
    'C12-1': 'timing case: body returns two poll intervals early but its thread is kept alive past the deadline by a slow log handler',
    'C13-1': 'second writer / reader whose own time-out is already expired or expires while the first is held',
    'C20-1': 'save_and_restore decorated now and called later (twice), sequences on a pre-declared configuration',
    # third and fourth change per property (agents were told which ideas were taken)
    'C01-4': 'directed programs whose phase returns a falsy non-PhaseResult value (0 / False / "" / []) in several positions',
    'C05-3': 'diagnosers declared always_fail=True handing back one diagnosis / a list / a tuple / a generator',
    'C05-4': 'caught by the C04 check after a program whose main body is blocked in a C wait (cancel_timeout_s 50 ms) and whose teardown phases use the test API was added, with a predicate on bodies begun after the abort returned',
    'C07-4': 'typed InRange whose limits are numbers that the declared type changes (int truncation, a rescaling callable)',
    'C08-3': 'two distinct plug classes carrying the same module and class name',
    'C08-4': 'with_args() values whose names collide with plug argument names',
    'C09-3': 'caught by the C19 check after a pause point *inside* a statement was added: the held thread is stopped right after each of its reads of the openhtf logger\'s handler list',
    'C09-4': 'the Test is renamed (configure(name=...)) between repeated runs',
    'C10-3': 'a second reader renders the running phase while the first is held at each line of its rendering',
    'C11-3': 'a plug constructor that fails in the first run only; plug class attributes compared before / after',
    'C11-4': 'nested mutable metadata the Test was declared with, updated in place by a phase',
    'C12-3': 'phase profiling switched on for the timing table',
    'C12-4': 'a monitored phase (core.monitors) abandoned alive after its time-out, followed by a phase monitoring a measurement of the same name',
    'C13-4': 'one AdbMessage object written, its fields reassigned, written again',
    'C15-4': 'caught by the C14 check after a close race was added: stream.close() held at each line while a reader takes the device\'s CLSE off the wire',
    'C16-3': 'the chunk size setting lowered after the protocol handle was built',
    'C16-4': 'DATA acknowledgement of exactly the announced size in upper-case hex',
    'C17-3': 'two writers publishing to one destination at overlapping times',
    'C17-4': 'injected faults raising KeyboardInterrupt / ThreadTerminationError instead of an OSError',
    'C19-3': 'console logging (-vv) switched on: a handler with the CLI formatter ahead of the record handlers',
    'C19-4': 'one log statement used first with a harmless value, then with a MAC',
    # fifth and sixth change per property
    'C01-5': 'SystemExit raised on the executor thread itself (run_if predicate; plug constructor in C08): behaviours added to the program model before the first run of the check on this change',
    'C04-6': 'a program with a body that cannot be killed and cancel_timeout_s = 0',
    'C05-6': 'caught by the C04 check after slow bodies got phase diagnosers and the predicate "a killed invocation is not diagnosed" was added',
    'C06-5': 'the phase ends by SKIP / REPEAT at its limit / STOP / FAIL_AND_CONTINUE after its assignments (added before the first run of the check on this change)',
    'C06-6': 'a second assignment whose raw value equals what the first one recorded under a non-idempotent transform (added before the first run)',
    'C07-5': 'mixed declarations: one textual limit, inconsistent pairs among the numeric ones',
    'C08-5': 'a plug whose instance binds tearDown while its class keeps BasePlug\'s',
    'C09-6': 'a mutable configuration value changed in place after the run',
    'C10-6': 'an attachment of 200 003 bytes',
    'C11-5': 'the start trigger used in every other run only; declared plug types compared',
    'C12-6': 'a teardown phase that raises after the time-out',
    'C13-5': 'the ids of the filesync command set as unknown ADB commands (filesync_service imported, as every real device does)',
    'C14-6': 'a device acknowledging each WRTE after 0.6 x the time-out in logical time (the clock openhtf.util.timeouts reads is advanced by the device)',
    'C16-5': 'per-cent signs in the device\'s FAIL / unknown-header text',
    'C16-6': 'an image source whose read(n) hands back fewer than n characters',
    'C17-5': 'test metadata keys named like record fields used by the file name pattern',
    'C19-5': 'a slow station handler ahead of the record handlers, creation time noted per message and compared exactly',
    'C19-6': 'whole runs in child processes started with no -v / -v / -vv / -vvv',
    # fifth round
    'C01-8': 'phases wrapped by @monitors (directed and seeded programs)',
    'C03-8': 'run_if predicates that say no / raise, groups without setup phases, stop_on_first_failure (grouporacle generalized)',
    'C05-7': 'C12: default phase time-out set after import for phases without timeout_s (the mechanism is C12\'s; C05 has no notion of time)',
    'C05-8': 'phase under test wrapped by @monitors',
    'C06-7': 'late same-value write through a handle kept from the finished phase',
    'C09-7': 'two Tests at once and two real SIGINTs (the other test outliving the first handler); found F34 and F35',
    'C09-8': 'callbacks that are callable objects / functools.partial',
    'C10-8': 'two loggers, the first held on its way into the record (log2)',
    'C11-7': 'collection-level derives return the source collection for the identity check, derives without any override',
    'C12-7': 'two_killers discovery made robust against a run() without a with block (was inconclusive)',
    'C14-7': 'flood scenario with the answer to a write followed by CLSE (C15 catches it too: writes answered by WRTE+CLSE, sized reads)',
    'C14-8': 'flood scenarios: 10-300 acknowledged messages parked for an unread stream',
    'C15-8': 'one-shot transport write fault at a CLSE (header / payload)',
    'C16-7': 'long commands (three lengths around the packet size)',
    'C17-7': 'the same callback object publishes the next record after a failed publication',
    'C18-7': 'KillableThread notifier killed at each line of notify_update, next notification follows',
    'C20-7': 'bodies raising BaseException inside save_and_restore (snr_call with raise_kind)',
    'C20-8': 'two-thread races on declare / load (engine on configuration.py)',
    # sixth round
    'C05-9': 'options given by two PhaseOptions layers (repeat limit first, the rest on top)',
    'C06-9': 'the phase that runs is a with_args() derivation of the declared one',
    'C09-9': 'a callback registered by a phase while the test runs (late_registration history)',
    'C11-9': 'one @monitors decorator object shared by a plain and a with_args() phase, reruns and another test',
    'C15-9': 'two threads opening streams while the id counter wraps, the first held at each line of the id allocation',
    'C17-9': 'writer in a child with RLIMIT_FSIZE below / above the size of the publication',
    'C18-9': 'caught only by chance at first (one of two runs, by the sampled whole-run watchers); now the state as it was at its last notification is compared with the state at every quiescent point',
    'C19-9': 'a phase killed while the record handler saves its message; later messages of the run must still be captured',
    # seventh round (ten properties)
    'C01-10': 'two test diagnosers reporting one result, first as a failure then as a note',
    'C09-10': 'a dimensioned measurement that is never set (exit paths)',
    'C11-10': 'a phase recorded as skipped in a failed subtest carrying a conditional validator whose diagnosis exists',
    'C12-10': 'bodies that end by raising, also behind the slow exit handler (the exception message is what gets delayed)',
    'C19-10': 'a station handler with a formatter and no MAC filter ahead of the record handlers, no console handler',
    # eighth round (four properties)
    'C06-10': 'dimensioned measurements whose transform / precision is declared before the dimensions (and precision on a dimensioned measurement at all)',
    'C16-10': 'bare INFO packets (header only) and OKAY replies without text in the response sequences',
    # ninth round (three properties)
    'C07-10': 'pivot rows whose value is None at every position of every pass/fail pattern',
    'C17-11': 'close / move / serializer / write faults raising InterruptedError, BrokenPipeError and OSError(ENOSPC)',
}
# caught at once, but by the check of a neighbouring property
NEIGHBOUR = {
    'C03-5': 'caught by the C12 check (time-out with profiling on, body that cannot be killed)',
    'C03-6': 'caught by the C09 check (post-return state: still registered for SIGINT)',
    'C08-6': 'caught by the C04 check (real SIGINT schedules; it re-introduces the defect fixed as F17)',
    'C20-5': 'caught by the C09 check (per-run configuration marker in the metadata snapshot)',
    'C01-7': 'caught by the C04 check (abort schedules: aborted run ended PASS)',
    'C04-8': 'caught by the C03 check (aborter-held schedules: nested teardown phase not run)',
    'C06-8': 'caught by the C11 check (declared objects changed by execute())',
    'C01-9': 'caught by the C06 check (a validator that raises marks the measurement FAIL)',
    'C04-9': 'caught by the C12 check (a kill requested before the body started prevents it)',
    'C12-9': 'caught by the C05 check (record result of a timed-out invocation with a raising diagnoser)',
}
rows = []
root = os.path.join(HERE, 'seeded')
for d in sorted(os.listdir(root)):
  mp = os.path.join(root, d, 'meta.json')
  if not os.path.exists(mp):
    continue
  m = json.load(open(mp))
  files = sorted(set(re.findall(r'^\+\+\+ b/(\S+)', open(os.path.join(root, d, 'patch.diff')).read(), re.M)))
  rows.append((d, m, files))
out = ['# Independently seeded changes', '',
       'Each directory holds a change produced by a sub-agent that saw only the text of one',
       'property and a private scratch worktree of the repository (nothing from /verif):',
       '`patch.diff`, the agent\'s `demo.py` (exit 1 / `BROKEN:` on the changed tree, exit 0 on the',
       'unchanged tree), its `notes.md`, and `meta.json` (what it needs to manifest, what was run to',
       'confirm it, which mechanisms the registered quick check reported).  Every change keeps the',
       '307 baseline tests passing.  None is committed to the repository; to replay one:',
       '', '    git -C /repo apply /verif/seeded/<id>/patch.diff',
       '    /verif/check <PROPERTY> --tier quick        # exit 1, VIOLATION line',
       '    git -C /repo checkout -- .', '',
       '"first run" tells whether the check as it stood when the change arrived caught it; where it',
       'did not, the last column says what was added (the check was strengthened, never the change',
       'adapted).  `tools/seedcheck.py` re-confirms a change and re-runs the check on it.  Three',
       'changes are caught by the check of a neighbouring property that owns the mechanism (an abort',
       'with a body that cannot be killed: C04; two threads closing one ADB stream: C14; two runs',
       'registering / removing log handlers: C19); meta.json names the command.', '',
       '| id | file | needs, in order to manifest | first run | reported mechanisms (quick tier) | added after a miss |',
       '|----|------|-----------------------------|-----------|---------------------------------|--------------------|']
for d, m, files in rows:
  out.append('| %s | %s | %s | %s | %s | %s |' % (
      d, ', '.join(f.replace('openhtf/', '') for f in files),
      m['needs_to_manifest'].replace('|', '/'),
      'missed' if d in STRENGTHENED else 'caught',
      ', '.join('`%s`' % x for x in m['check']['mechanisms'][:3]),
      STRENGTHENED.get(d, NEIGHBOUR.get(d, ''))))
n = len(rows)
miss = sum(1 for d, _, _ in rows if d in STRENGTHENED)
out += ['', '%d changes kept; %d were caught by the check as it stood, %d only after the additions above; '
        'all %d are caught by the current checks.' % (n, n - miss, miss, n), '']
open(os.path.join(root, 'README.md'), 'w').write('\n'.join(out))
print(n, miss)
