#!/usr/bin/env python3
"""Stores a confirmed seeded change under /verif/seeded/<ID>-<n>/.

  tools/keep_seed.py <ID> <n> <seed-root> <seedcheck-json-lines-file> "<needs>"
"""
import json, os, shutil, sys
HERE = os.path.dirname(os.path.dirname(os.path.abspath(__file__)))
pid, n, root, resfile, needs = sys.argv[1:6]
res = None
for line in open(resfile):
  line = line.strip()
  if line.startswith('{'):
    d = json.loads(line)
    if d['seed'].endswith('/' + n):
      res = d
assert res, 'no seedcheck result'
assert res['demo_clean_rc'] == 0 and res['demo_patched_rc'] == 1, res
assert res['tests'].startswith('307 passed'), res
dst = os.path.join(HERE, 'seeded', '%s-%d' % (pid, int(n) + int(os.environ.get('SEED_OFFSET', '0'))))
os.makedirs(dst, exist_ok=True)
for f in ('patch.diff', 'demo.py', 'notes.md'):
  shutil.copy(os.path.join(root, n, f), os.path.join(dst, f))
meta = {
    'property': pid,
    'origin': 'independent sub-agent given only the property text and a scratch worktree',
    'breaks': open(os.path.join(root, n, 'notes.md')).read().strip().splitlines()[0].lstrip('# ').strip(),
    'needs_to_manifest': needs,
    'confirmed': {
        'how': 'tools/seedcheck.py in a scratch worktree at the current /repo HEAD: demo on the unchanged tree, '
               'git apply, pinned pytest suite, demo on the changed tree, registered quick check with '
               'VERIF_REPO=<worktree>, git checkout -- .',
        'demo_exit_unchanged_tree': res['demo_clean_rc'],
        'baseline_tests_with_change': res['tests'],
        'demo_exit_changed_tree': res['demo_patched_rc'],
        'demo_output': res['demo_line'],
    },
    'check': {
        'command': './check %s --tier %s' % (os.environ.get('CHECK_ID', pid), os.environ.get('TIER', 'quick')),
        'exit_code': res['check_rc'],
        'caught': res['caught'],
        'wall_s': res['check_wall_s'],
        'mechanisms': [m.split(' detail=')[0].replace('mechanism=', '') for m in res['check_mechanisms']],
    },
}
json.dump(meta, open(os.path.join(dst, 'meta.json'), 'w'), indent=1)
print(dst, meta['check']['caught'], meta['check']['mechanisms'][:2])
