#!/usr/bin/env python3
"""Validates evidence/*.json against the evidence schema (uses python3-vt's jsonschema)."""
import glob, os, subprocess, sys
HERE = os.path.dirname(os.path.dirname(os.path.abspath(__file__)))
files = sys.argv[1:] or sorted(glob.glob(os.path.join(HERE, 'evidence', 'C*.json')))
code = ("import json,jsonschema,sys\n"
        "s=json.load(open('/root/.vp/EVIDENCE.schema.json'))\n"
        "for p in sys.argv[1:]:\n"
        "  e=json.load(open(p)); jsonschema.validate(e,s); print(p,'ok',e['tier'],e['coverage']['evaluations'],e['coverage']['distinct_nontrivial'],e.get('verdict'))\n")
subprocess.check_call(['python3-vt', '-c', code] + files)
