#!/usr/bin/env python3
"""Mutation self-test: applies each hand-written mutant of vf/mutants.py to a
scratch copy of /repo's openhtf package (outside /repo and /verif, removed
afterwards) and expects the property's quick check to report a violation.

  tools/selftest.py [C07 ...] [-j N] [--tier quick]
Writes evidence/selftest.json (not a registered check).
"""
import argparse, concurrent.futures, json, os, shutil, subprocess, sys, tempfile, time
HERE = os.path.dirname(os.path.dirname(os.path.abspath(__file__)))
sys.path.insert(0, HERE)
from vf import mutants


def run_one(m, tier):
  root = tempfile.mkdtemp(prefix='vf-mut-')
  try:
    shutil.copytree('/repo/openhtf', os.path.join(root, 'openhtf'),
                    ignore=shutil.ignore_patterns('__pycache__', 'web_gui'))
    shutil.copytree('/repo/docs', os.path.join(root, 'docs'))
    path = os.path.join(root, m['file'])
    src = open(path).read()
    if src.count(m['old']) != m.get('count', 1):
      return dict(m, result='STALE', detail='pattern occurs %d times' % src.count(m['old']))
    open(path, 'w').write(src.replace(m['old'], m['new']))
    env = dict(os.environ, VERIF_REPO=root, VERIF_OUT=os.path.join(root, 'out'))
    t0 = time.time()
    p = subprocess.run([os.path.join(HERE, 'check'), m['property'], '--tier', tier],
                       env=env, capture_output=True, text=True, timeout=3600)
    mech = [l.strip() for l in p.stdout.splitlines() if 'mechanism=' in l][:3]
    res = {0: 'MISSED', 1: 'CAUGHT', 2: 'INCONCLUSIVE'}.get(p.returncode, 'rc=%d' % p.returncode)
    return {'id': m['id'], 'property': m['property'], 'what': m['what'],
            'result': res, 'wall_s': round(time.time() - t0, 1), 'mechanisms': mech,
            'tail': p.stdout[-400:] if res != 'CAUGHT' else ''}
  finally:
    shutil.rmtree(root, ignore_errors=True)


def main():
  ap = argparse.ArgumentParser()
  ap.add_argument('props', nargs='*')
  ap.add_argument('-j', type=int, default=2)
  ap.add_argument('--tier', default='quick')
  ap.add_argument('--id')
  a = ap.parse_args()
  todo = [m for m in mutants.MUTANTS
          if (not a.props or m['property'] in a.props) and (not a.id or m['id'] == a.id)]
  out = []
  with concurrent.futures.ThreadPoolExecutor(a.j) as ex:
    for r in ex.map(lambda m: run_one(m, a.tier), todo):
      print('%-8s %-4s %-40s %s %s' % (r['result'], r['property'], r['id'],
                                       r.get('wall_s', ''), '; '.join(r.get('mechanisms', []))[:160]))
      if r['result'] not in ('CAUGHT',):
        print('   ', r.get('detail') or r.get('tail'))
      out.append(r)
  path = os.path.join(HERE, 'evidence', 'selftest.json')
  old = {}
  if os.path.exists(path):
    old = {r['id']: r for r in json.load(open(path))['results']}
  for r in out:
    old[r['id']] = r
  live = {m['id'] for m in mutants.MUTANTS}
  old = {k: v for k, v in old.items() if k in live}
  json.dump({'note': 'mutation self-test of the checks (tools/selftest.py); not a registered check',
             'results': sorted(old.values(), key=lambda r: (r['property'], r['id']))},
            open(path, 'w'), indent=1)
  bad = [r for r in out if r['result'] != 'CAUGHT']
  print('%d mutants, %d not caught' % (len(out), len(bad)))
  sys.exit(1 if bad else 0)

main()
