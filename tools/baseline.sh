#!/bin/sh
# Runs the repository's pinned baseline test command with the verification
# guard OFF and checks that the 307 stable tests still pass.
unset OPENHTF_VERIF
out=$(mktemp /tmp/vf-baseline-XXXXXX.xml)
cd /repo && /venv/bin/python -m pytest -ra -q -p no:cacheprovider --timeout=900 \
  --continue-on-collection-errors --junitxml="$out" >/tmp/vf-baseline.log 2>&1
/venv/bin/python - "$out" <<'PY'
import json, sys, xml.etree.ElementTree as ET
base = set(json.load(open('/root/.vp/BASELINE.json'))['stable_pass'])
root = ET.parse(sys.argv[1]).getroot()
passed = set()
for tc in root.iter('testcase'):
  if not any(ch.tag in ('failure', 'error', 'skipped') for ch in tc):
    passed.add('%s::%s' % (tc.get('classname'), tc.get('name')))
missing = sorted(base - passed)
print('baseline: %d of %d stable tests pass' % (len(base & passed), len(base)))
for m in missing[:20]:
  print('  MISSING', m)
sys.exit(1 if missing else 0)
PY
rc=$?
rm -f "$out"
exit $rc
