#!/usr/bin/env python3
"""Confirms independently seeded changes and runs the registered check on them.

  tools/seedcheck.py <seed-root> <PROP> <worktree> [n ...]
For each seed <seed-root>/<n>/ (patch.diff, demo.py, notes.md):
  unchanged worktree: demo exits 0;  with the patch: 307 baseline tests pass,
  demo exits 1, and `./check PROP --tier quick` with VERIF_REPO=<worktree>
  reports a violation.  Prints one JSON line per seed.
"""
import json, os, subprocess, sys, tempfile, time
HERE = os.path.dirname(os.path.dirname(os.path.abspath(__file__)))
root, prop, wt = sys.argv[1:4]
ns = sys.argv[4:] or ['1', '2']


def sh(cmd, **kw):
  return subprocess.run(cmd, shell=True, capture_output=True, text=True, **kw)


for n in ns:
  d = os.path.join(root, n)
  out = {'property': prop, 'seed': '%s/%s' % (os.path.basename(root), n)}
  sh('git -C %s checkout -- .' % wt)
  r = sh('TREE=%s PYTHONPATH=%s /venv/bin/python %s/demo.py' % (wt, wt, d), timeout=300)
  out['demo_clean_rc'] = r.returncode
  a = sh('git -C %s apply %s/patch.diff' % (wt, d))
  out['applies'] = a.returncode == 0
  r = sh('cd %s && /venv/bin/python -m pytest -q -p no:cacheprovider --timeout=900 '
         '--continue-on-collection-errors test 2>&1 | tail -1' % wt, timeout=1800)
  out['tests'] = r.stdout.strip()[-80:]
  r = sh('TREE=%s PYTHONPATH=%s /venv/bin/python %s/demo.py' % (wt, wt, d), timeout=300)
  out['demo_patched_rc'] = r.returncode
  out['demo_line'] = next((l for l in r.stdout.splitlines() if l.startswith('BROKEN')), '')[:160]
  tmp = tempfile.mkdtemp(prefix='vf-seed-')
  t0 = time.time()
  for seed in os.environ.get('SEEDS', '0').split():
    r = sh('%s/check %s --tier %s' % (HERE, prop, os.environ.get('TIER', 'quick')),
           env=dict(os.environ, VERIF_REPO=wt, VERIF_OUT=tmp, VERIF_SEED=seed),
           timeout=7200)
    out['check_rc'] = r.returncode
    out['check_mechanisms'] = [l.strip()[:200] for l in r.stdout.splitlines()
                               if l.strip().startswith('mechanism=')][:4]
    if r.returncode == 1:
      break
  out['check_wall_s'] = round(time.time() - t0, 1)
  out['caught'] = out['check_rc'] == 1
  sh('rm -rf %s' % tmp)
  sh('git -C %s checkout -- .' % wt)
  print(json.dumps(out), flush=True)
