"""Independent from-scratch renderer of records into base types (C10 oracle).

Implements the conversion rules documented in
openhtf.util.data.convert_to_base_types and the layouts documented by the
as_base_types() methods of TestRecord / PhaseRecord / Measurement / PhaseState,
but never reads any of their incremental caches: every call walks the public
attributes again.
"""
import enum
import inspect
import math
import numbers

import attr


def norm(x):
  """tuples -> lists (JSON does not distinguish them)."""
  if isinstance(x, (list, tuple)):
    return [norm(e) for e in x]
  if isinstance(x, dict):
    return {k: norm(v) for k, v in x.items()}
  return x


def base(obj, json_safe=True):
  """Documented generic rules, applied from scratch."""
  from openhtf.core import measurements, test_record, test_state
  if isinstance(obj, measurements.Measurement):
    return measurement(obj)
  if isinstance(obj, test_record.PhaseRecord):
    return phase_record(obj)
  if isinstance(obj, test_record.TestRecord):
    return test_rec(obj)
  if isinstance(obj, test_state.PhaseState):
    return phase_state(obj)
  if isinstance(obj, (measurements.MeasuredValue,
                      measurements.DimensionedMeasuredValue)):
    return measured_value(obj)
  if hasattr(obj, 'as_base_types') and not inspect.isclass(obj):
    return obj.as_base_types()          # non-caching helpers (enums, diagnoses...)
  if hasattr(obj, '_asdict') and not inspect.isclass(obj):
    obj = obj._asdict()
  elif attr.has(type(obj)) and not inspect.isclass(obj):
    obj = attr.asdict(obj, recurse=False)
  elif isinstance(obj, enum.Enum):
    obj = obj.name
  if type(obj) in (bool, bytes, int, type(None), str):
    return obj
  if isinstance(obj, dict):
    return {base(k): base(v) for k, v in obj.items()}
  if isinstance(obj, list):
    return [base(v, json_safe) for v in obj]
  if isinstance(obj, tuple):
    return tuple(base(v, json_safe) for v in obj)
  if isinstance(obj, numbers.Integral):
    return int(obj)
  if isinstance(obj, numbers.Real):
    f = float(obj)
    if json_safe and (math.isinf(f) or math.isnan(f)):
      return str(f)
    return f
  return str(obj)


def measured_value(mv):
  from openhtf.core import measurements
  if isinstance(mv, measurements.DimensionedMeasuredValue):
    return [base(tuple(k) + (v,)) for k, v in mv.value_dict.items()]
  return base(mv.stored_value)


def measurement(m):
  out = {'name': m.name, 'outcome': m.outcome.name}
  if m.validators:
    out['validators'] = tuple(str(v) for v in m.validators)
  if m.conditional_validators:
    out['conditional_validators'] = [base(cv) for cv in m.conditional_validators]
  if m.dimensions:
    out['dimensions'] = tuple(base(d) for d in m.dimensions)
  if m.units:
    out['units'] = base(m.units)
  if m.docstring:
    out['docstring'] = m.docstring
  if m.measured_value.is_value_set:
    out['measured_value'] = measured_value(m.measured_value)
  return out


def phase_record(p):
  d = {}
  for f in attr.fields(type(p)):
    if f.name in ('descriptor_id', 'name', 'codeinfo'):
      continue
    d[f.name] = base(getattr(p, f.name))
  d['descriptor_id'] = p.descriptor_id
  d['name'] = p.name
  d['codeinfo'] = base(p.codeinfo)
  return d


def test_rec(r):
  md = {k: base(v) for k, v in r.metadata.items() if k != 'config'}
  md['config'] = r.metadata.get('config')
  return {
      'dut_id': base(r.dut_id),
      'start_time_millis': r.start_time_millis,
      'end_time_millis': r.end_time_millis,
      'outcome': base(r.outcome),
      'outcome_details': base(r.outcome_details),
      'marginal': r.marginal,
      'metadata': md,
      'phases': [phase_record(p) for p in r.phases],
      'subtests': [base(s) for s in r.subtests],
      'branches': [base(b) for b in r.branches],
      'checkpoints': [base(c) for c in r.checkpoints],
      'diagnosers': base(r.diagnosers),
      'diagnoses': [base(d) for d in r.diagnoses],
      'log_records': [base(l) for l in r.log_records],
      'station_id': base(r.station_id),
      'code_info': base(r.code_info),
  }


def phase_state(ps):
  pr = ps.phase_record
  return {
      'name': ps.name,
      'codeinfo': base(pr.codeinfo),
      'descriptor_id': base(pr.descriptor_id),
      'options': None,
      'measurements': {k: measurement(m) for k, m in ps.measurements.items()},
      'attachments': {k: a._asdict() for k, a in pr.attachments.items()},  # pylint: disable=protected-access
      'start_time_millis': pr.start_time_millis,
      'subtest_name': pr.subtest_name,
  }


def first_difference(a, b, path=''):
  """Path of the first difference between two normalised structures."""
  a, b = norm(a), norm(b)
  if type(a) is not type(b):
    return '%s: type %s vs %s (%r vs %r)' % (path, type(a).__name__,
                                             type(b).__name__,
                                             repr(a)[:60], repr(b)[:60])
  if isinstance(a, dict):
    for k in sorted(set(a) | set(b), key=repr):
      if k not in a:
        return '%s.%s: missing in first' % (path, k)
      if k not in b:
        return '%s.%s: missing in second' % (path, k)
      d = first_difference(a[k], b[k], '%s.%s' % (path, k))
      if d:
        return d
    return None
  if isinstance(a, list):
    if len(a) != len(b):
      return '%s: length %d vs %d' % (path, len(a), len(b))
    for i, (x, y) in enumerate(zip(a, b)):
      d = first_difference(x, y, '%s[%d]' % (path, i))
      if d:
        return d
    return None
  if isinstance(a, float) and isinstance(b, float) and math.isnan(a) and math.isnan(b):
    return None
  if a != b:
    return '%s: %r vs %r' % (path, repr(a)[:80], repr(b)[:80])
  return None
