"""Scripted fake ADB device (E4): acts as the raw transport under AdbConnection.

The host writes header chunk + payload chunk; the fake reassembles them into
host messages (recorded with a global sequence number and the writing thread)
and hands device messages to the host as header chunk + payload chunk.  An
optional `on_host_message` callback makes the device reactive (it runs inside
the host's write() call, i.e. at the moment the device has the full message).
"""
import struct
import threading
import time

COMMANDS = ['SYNC', 'CNXN', 'AUTH', 'OPEN', 'OKAY', 'CLSE', 'WRTE']


def wire(cmd):
  return int.from_bytes(cmd.encode('ascii'), 'little')


WIRE_TO_CMD = {wire(c): c for c in COMMANDS}


def pack(cmd, arg0, arg1, data=''):
  w = wire(cmd)
  return struct.pack('<6I', w, arg0, arg1, len(data),
                     sum(data.encode('latin-1')) & 0xFFFFFFFF, w ^ 0xFFFFFFFF)


class FakeAdbDevice:

  def __init__(self, usb_exceptions, block=True):
    self.exc = usb_exceptions
    self.cv = threading.Condition()
    self.inbound = []          # chunks for the host to read
    self.host_msgs = []        # (seq, thread, cmd, arg0, arg1, data)
    self.delivered = []        # device messages whose header the host has read
    self._pending_header = None
    self.on_host_message = None
    self.block = block
    self.closed = False
    self.seq = 0
    self.framing_errors = []
    self.readers_waiting = 0
    self.read_calls = 0
    self.fail_write = None     # (command, 'header' | 'payload'): one-shot write fault
    self.write_faults_fired = 0

  # ---------------------------------------------------------- device side
  def feed(self, cmd, arg0, arg1, data='', tag=None):
    with self.cv:
      self.inbound.append(('h', pack(cmd, arg0, arg1, data),
                           (cmd, arg0, arg1, data, tag)))
      if data:
        self.inbound.append(('p', data, None))
      self.cv.notify_all()

  def feed_raw(self, chunk):
    with self.cv:
      self.inbound.append(('h', chunk, None))
      self.cv.notify_all()

  def unread(self):
    with self.cv:
      return [c[2] for c in self.inbound if c[0] == 'h' and c[2]]

  # ---------------------------------------------------------- host side
  def write(self, data, timeout_ms=None):
    cb = None
    with self.cv:
      if self._pending_header is None:
        if not isinstance(data, (bytes, bytearray)) or len(data) != 24:
          self.framing_errors.append(('bad header chunk', repr(data)[:60]))
          return
        f = struct.unpack('<6I', data)
        if self.fail_write and self.fail_write == (WIRE_TO_CMD.get(f[0]), 'header'):
          # nothing reaches the device
          self.fail_write = None
          self.write_faults_fired += 1
          self._write_fault()
        self._pending_header = f
        return
      f = self._pending_header
      self._pending_header = None
      if not isinstance(data, str) or len(data) != f[3] or (
          sum(data.encode('latin-1')) & 0xFFFFFFFF) != f[4]:
        self.framing_errors.append(('payload does not match header',
                                    repr(data)[:60]))
      if f[5] != f[0] ^ 0xFFFFFFFF:
        self.framing_errors.append(('bad magic', f))
      self.seq += 1
      msg = (self.seq, threading.current_thread().name,
             WIRE_TO_CMD.get(f[0], '?'), f[1], f[2], data)
      self.host_msgs.append(msg)
      cb = self.on_host_message
      if self.fail_write and self.fail_write == (msg[2], 'payload'):
        # the device has the complete message, the host sees a failed transfer
        self.fail_write = None
        self.write_faults_fired += 1
        self._write_fault()
    if cb:
      cb(msg)

  def read(self, n, timeout_ms=None):
    deadline = None if timeout_ms is None else time.monotonic() + timeout_ms / 1000.0
    with self.cv:
      self.read_calls += 1
      while not self.inbound:
        if not self.block or self.closed:
          self._timeout()
        remaining = None if deadline is None else deadline - time.monotonic()
        if remaining is not None and remaining <= 0:
          self._timeout()
        self.readers_waiting += 1
        try:
          self.cv.wait(min(remaining, 0.5) if remaining is not None else 0.5)
        finally:
          self.readers_waiting -= 1
      kind, chunk, meta = self.inbound.pop(0)
      if meta:
        self.delivered.append(meta)
      return chunk

  def _timeout(self):
    import libusb1
    raise self.exc.UsbReadFailedError(
        libusb1.USBError(libusb1.LIBUSB_ERROR_TIMEOUT), 'fake device silent')

  def _write_fault(self):
    import libusb1
    raise self.exc.UsbWriteFailedError(
        libusb1.USBError(libusb1.LIBUSB_ERROR_TIMEOUT), 'fake write fault')

  def close(self):
    with self.cv:
      self.closed = True
      self.cv.notify_all()
