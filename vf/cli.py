"""./check <ID> --tier quick|thorough [--replay path]."""
import argparse
import os
import sys


def main():
  ap = argparse.ArgumentParser()
  ap.add_argument('prop')
  ap.add_argument('--tier', default=os.environ.get('VERIF_TIER', 'quick'),
                  choices=['quick', 'thorough'])
  ap.add_argument('--replay')
  ap.add_argument('--seed', type=int,
                  default=int(os.environ.get('VERIF_SEED', '0') or 0))
  a = ap.parse_args()
  sys.argv = ['verif-check']
  from vf import harness
  sys.exit(harness.main_check(a.prop.upper(), a.tier, a.seed, a.replay))


if __name__ == '__main__':
  main()
