"""Worker entry point: python -m vf.worker PROP TIER SEED SHARD NSHARDS OUT [REPLAY]."""
import faulthandler
import json
import sys


def main():
  prop, tier, seed, shard, nshards, out = sys.argv[1:7]
  replay = sys.argv[7] if len(sys.argv) > 7 else None
  # openhtf parses sys.argv in Test.configure(); give it nothing to chew on.
  sys.argv = ['verif-worker']
  faulthandler.enable()
  from vf import harness
  only = None
  if replay:
    with open(replay) as f:
      only = json.load(f)['case']
  harness.run_shard(prop, tier, int(seed), int(shard), int(nshards), out,
                    only_case=only)


if __name__ == '__main__':
  main()
