"""Worker entry point: python -m vf.worker PROP TIER SEED SHARD NSHARDS OUT [REPLAY]."""
import faulthandler
import json
import os
import sys


def normal_sigint():
  """A check started from a background job inherits SIGINT=ignored; openhtf
  remembers the handler it found at import as the one to fall back to.  Give
  every worker the disposition of a foreground process."""
  import signal
  if signal.getsignal(signal.SIGINT) in (signal.SIG_IGN, signal.SIG_DFL, None):
    signal.signal(signal.SIGINT, signal.default_int_handler)


def main():
  prop, tier, seed, shard, nshards, out = sys.argv[1:7]
  replay = sys.argv[7] if len(sys.argv) > 7 else None
  # openhtf parses sys.argv in Test.configure(); give it nothing to chew on.
  sys.argv = ['verif-worker']
  faulthandler.enable()
  normal_sigint()
  from vf import harness
  only = None
  if replay:
    with open(replay) as f:
      only = json.load(f)['case']
  harness.run_shard(prop, tier, int(seed), int(shard), int(nshards), out,
                    only_case=only)
  # The summary is written.  A thread of the code under test that never returns
  # (that is a verdict some checks report) must not keep this process alive.
  sys.stdout.flush()
  sys.stderr.flush()
  os._exit(0)


if __name__ == '__main__':
  main()
