"""Pause-point engine (E2): sys.monitoring local LINE events on chosen files.

A *discovery* run records every (role, qualname, line) a scenario reaches and
how often.  A *targeted* run blocks the thread of the chosen role inside the
LINE callback when it reaches (qualname, line) for the hit-th time; the
controller then performs one complete action in another thread and releases the
paused thread.  If the action cannot finish because it needs something the
paused thread holds, the paused thread is released after `hold_s` and the
schedule is recorded as "action blocked" — a legitimate schedule.

The same callback can instead inject yields (time.sleep(0) / tiny sleeps chosen
by a seeded PRNG per thread) for stress runs.
"""
import gc
import random
import sys
import threading
import time
import types

TOOLS = (3, 4, 2, 1)     # several engines may coexist in one process
_mon = sys.monitoring


class Engine:

  def __init__(self, files, role_fn, name='vf-pause'):
    self.files = set(files)
    self.role_fn = role_fn
    self.lock = threading.Lock()
    self.seen = {}
    self.target = None
    self.fired = False
    self.paused = threading.Event()
    self.resume = threading.Event()
    self.max_hold_s = 10.0
    self.yield_seed = None
    self._yield_rngs = {}
    self.yield_prob = 0.0
    self.yields = 0
    self._codes = set()
    self._installed = False
    self.name = name
    self.enabled = True
    self.inline_action = None

  # -------------------------------------------------------------- install
  def _walk(self, code):
    if code in self._codes:
      return
    self._codes.add(code)
    for k in code.co_consts:
      if isinstance(k, types.CodeType):
        self._walk(k)

  def install(self):
    if not self._installed:
      for tool in TOOLS:
        if _mon.get_tool(tool) is None:
          self.tool = tool
          break
      else:
        raise RuntimeError('no free sys.monitoring tool id')
      _mon.use_tool_id(self.tool, self.name)
      _mon.register_callback(self.tool, _mon.events.LINE, self._on_line)
      self._installed = True
    before = len(self._codes)
    for o in gc.get_objects():
      if isinstance(o, types.FunctionType):
        try:
          code = o.__code__
        except Exception:  # pylint: disable=broad-except
          continue
        if code.co_filename in self.files:
          self._walk(code)
    for c in self._codes:
      _mon.set_local_events(self.tool, c, _mon.events.LINE)
    return len(self._codes) - before

  def uninstall(self):
    if self._installed:
      for c in self._codes:
        _mon.set_local_events(self.tool, c, 0)
      _mon.register_callback(self.tool, _mon.events.LINE, None)
      _mon.free_tool_id(self.tool)
      self._installed = False

  # -------------------------------------------------------------- callback
  def _on_line(self, code, line):
    if not self.enabled:
      return
    role = self.role_fn(threading.current_thread())
    if role is None:
      return
    key = (role, code.co_qualname, line)
    fire = False
    with self.lock:
      n = self.seen[key] = self.seen.get(key, 0) + 1
      t = self.target
      if (t is not None and not self.fired and key == t[0] and n == t[1]):
        self.fired = True
        fire = True
    if fire:
      self.paused.set()
      if self.inline_action is not None:
        # the action runs on the paused thread itself; what it raises is
        # raised at this line of the monitored code
        self.inline_action()
        return
      self.resume.wait(self.max_hold_s)
      return
    if self.yield_prob:
      rng = self._yield_rngs.get(role)
      if rng is None:
        rng = self._yield_rngs[role] = random.Random(
            '%s/%s' % (self.yield_seed, role))
      x = rng.random()
      if x < self.yield_prob:
        self.yields += 1
        time.sleep(0 if x > self.yield_prob / 8 else 0.0005)

  # -------------------------------------------------------------- control
  def arm(self, target=None, yield_seed=None, yield_prob=0.0):
    """target = ((role, qualname, line), hit) or None for discovery."""
    with self.lock:
      self.seen = {}
      self.target = target
      self.fired = False
      self.paused.clear()
      self.resume.clear()
      self.yield_seed = yield_seed
      self.yield_prob = yield_prob
      self._yield_rngs = {}
      self.yields = 0

  def points(self, max_hits=None):
    out = []
    for key, n in sorted(self.seen.items()):
      for h in range(1, (min(n, max_hits) if max_hits else n) + 1):
        out.append((key, h))
    return out

  def release(self):
    self.resume.set()

  def run_action_at_pause(self, action, wait_s=5.0, hold_s=0.3):
    """Controller: wait for the pause, run action, release.  Returns a dict:
    reached (bool), blocked (bool: action had not finished within hold_s while
    the target was paused), result / error of the action."""
    out = {'reached': False, 'blocked': False, 'result': None, 'error': None}
    if not self.paused.wait(wait_s):
      self.release()
      return out
    out['reached'] = True
    done = threading.Event()

    def run():
      try:
        out['result'] = action()
      except BaseException as e:  # pylint: disable=broad-except
        out['error'] = e
      finally:
        done.set()

    th = threading.Thread(target=run, name='vf-action', daemon=True)
    th.start()
    if not done.wait(hold_s):
      out['blocked'] = True
    self.release()
    out['_thread'] = th
    out['_done'] = done
    return out
