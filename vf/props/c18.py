"""C18 — state subscriptions never lose an update (snapshot + event protocol).

(a) Gate scheduler: all line-level interleavings (preemption-bounded) of 1-2
    watchers with 1-2 updaters on a minimal SubscribableStateMixin subclass and
    on the UserInput plug; oracle at quiescence: a watcher whose snapshot
    differs from the final state must hold a set event.
(b) Whole runs: protocol-following watcher threads (snapshot, wait on the
    event with a watchdog, repeat) attached to real Test runs under yield
    injection; the run blocks at quiescent points until a watcher has seen a
    given change (status RUNNING, running phase, measurement value, log record,
    attachment, phase finished, DUT id, plug prompt) and every watcher must end
    on COMPLETED.
"""
import itertools
import random
import sys
import threading
import time

from vf import progmodel as pm

PROPERTY = 'C18'
LEVEL = 'exploration'
RULE = ('(a) one case = one part of the DFS over all interleavings of W watchers x U updaters '
        '(W,U in {1,2}) on a minimal SubscribableStateMixin subclass or on UserInput '
        '(start_prompt / respond / remove_prompt as updaters), every thread stopping at every '
        'line of the mixin / plug methods, preemption bound 2 (quick; 1 for 2x2) or 3 / '
        'unbounded for 1x1 (thorough); evaluations = schedules executed, distinct = distinct '
        'complete schedules; (killed) a KillableThread notifier killed at each line of notify_update with 1-3 registered watchers, next notification follows; (b) one case = (scenario with 5-8 quiescent points, 1-3 watcher '
        'threads, yield-injection seed); non-trivial = at least one snapshot/event pair was '
        'judged')
ASSUMPTIONS = [
    'the object\'s _lock (and UserInput._cond) is replaced on the instance by a cooperative try-lock so that blocked threads are visible to the scheduler',
    'updaters change the state before calling notify_update (the call sites of whole runs are checked by (b))',
    'a watcher time-out (5 s watchdog) is a violation only if a fresh snapshot then shows the awaited change with the event still unset',
]
REQUIRED_COUNTERS = ['schedules_executed', 'watcher_verdicts', 'whole_runs',
                     'quiescent_points_passed', 'watchers_completed',
                     'killed_notifier_runs']
EXHAUSTIVE = {'quick': True, 'thorough': True}
PLAN = {
    'quick': {'workers': 16, 'budget_s': 60, 'sampled_per_worker': 6,
              'wall_limit_s': 900, 'case_limit_s': 400},
    'thorough': {'workers': 16, 'budget_s': 900, 'sampled_per_worker': 300,
                 'wall_limit_s': 9000, 'case_limit_s': 3000},
}
PARTS = 16
CONFIGS = {
    'quick': [('mixin', 1, 1, 3), ('mixin', 2, 1, 2), ('mixin', 1, 2, 2),
              ('mixin', 2, 2, 1), ('userinput', 1, 1, 2), ('userinput', 2, 1, 1),
              ('userinput', 1, 2, 1)],
    'thorough': [('mixin', 1, 1, None), ('mixin', 2, 1, 3), ('mixin', 1, 2, 3),
                 ('mixin', 2, 2, 2), ('userinput', 1, 1, 4), ('userinput', 2, 1, 2),
                 ('userinput', 1, 2, 2), ('userinput', 2, 2, 1)],
}
_S = {}


def setup():
  pm.htf()
  import openhtf.util as U
  from openhtf.plugs import user_input
  from vf import harness
  harness.assert_root(U)
  _S.update(U=U, ui=user_input)


def teardown():
  from vf import gate
  gate.uninstall()
  if _S.get('engine'):
    _S['engine'].uninstall()


def enumerated(tier):
  for ci, cfg in enumerate(CONFIGS[tier]):
    for part in range(PARTS):
      yield {'k': 'gate', 'cfg': list(cfg), 'part': part}
  # the notifying thread is killed (as a timed-out or aborted phase thread is)
  # at a line of notify_update; the next notification follows
  for w in (1, 2, 3):
    for idx in range(24):
      yield {'k': 'killed', 'watchers': w, 'idx': idx}
  for w in (1, 2, 3):
    yield {'k': 'run', 'scenario': 'quiet', 'watchers': w, 'seed': None}
  yield {'k': 'run', 'scenario': 'full', 'watchers': 1, 'seed': None}
  yield {'k': 'run', 'scenario': 'full', 'watchers': 3, 'seed': None}
  yield {'k': 'run', 'scenario': 'prompt', 'watchers': 2, 'seed': None}


def sampled(tier, rng):
  while True:
    yield {'k': 'run', 'scenario': rng.choice(['full', 'quiet', 'quiet', 'prompt']),
           'watchers': rng.randint(1, 3), 'seed': rng.getrandbits(32)}


# ------------------------------------------------------------------ (a) gate
def make_mixin(nw, nu):
  from vf import gate
  U = _S['U']

  class Obj(U.SubscribableStateMixin):

    def __init__(self):
      super().__init__()
      self.v = 0
      self._lock = gate.CoopLock()

    def _asdict(self):
      return {'v': self.v}

  def updater(o):
    o.v += 1
    o.notify_update()

  def watcher(o, out):
    snap, ev = o.asdict_with_event()
    out.append((snap, ev))

  gate.instrument([U.SubscribableStateMixin.asdict_with_event,
                   U.SubscribableStateMixin.notify_update, updater, watcher,
                   Obj._asdict])

  def make():
    o = Obj()
    outs = [[] for _ in range(nw)]
    specs = [('W%d' % i, (lambda i=i: watcher(o, outs[i]))) for i in range(nw)]
    specs += [('U%d' % i, (lambda: updater(o))) for i in range(nu)]

    def finish():
      bad = []
      final = o._asdict()
      for i, out in enumerate(outs):
        snap, ev = out[0]
        _S['verdicts'] = _S.get('verdicts', 0) + 1
        if snap != final and not ev.is_set():
          bad.append(['lost-update', i, snap, final])
      return bad
    return specs, finish
  return make


def make_userinput(nw, nu):
  from vf import gate
  ui = _S['ui']
  U = _S['U']
  gate.instrument([U.SubscribableStateMixin.asdict_with_event,
                   U.SubscribableStateMixin.notify_update,
                   ui.UserInput._asdict, ui.UserInput.start_prompt,
                   ui.UserInput.respond, ui.UserInput.remove_prompt])

  def make():
    p = ui.UserInput()
    p._lock = gate.CoopLock()          # pylint: disable=protected-access
    p._cond = gate.CoopRLock()         # pylint: disable=protected-access
    outs = [[] for _ in range(nw)]
    ids = []

    def watcher(i):
      snap, ev = p.asdict_with_event()
      outs[i].append((snap, ev))

    def updater0():
      try:
        ids.append(p.start_prompt('question', text_input=True))
      except ui.MultiplePromptsError:
        pass

    def updater1():
      # answers whatever prompt is active (or removes it)
      snap = p._asdict()                # pylint: disable=protected-access
      if snap:
        p.respond(snap['id'], 'answer')
      else:
        p.remove_prompt()

    specs = [('W%d' % i, (lambda i=i: watcher(i))) for i in range(nw)]
    ups = [updater0, updater1]
    specs += [('U%d' % i, ups[i % 2]) for i in range(nu)]

    def finish():
      bad = []
      final = p._asdict()               # pylint: disable=protected-access
      for i, out in enumerate(outs):
        snap, ev = out[0]
        _S['verdicts'] = _S.get('verdicts', 0) + 1
        if snap != final and not ev.is_set():
          bad.append(['lost-update', i, snap, final])
      return bad
    return specs, finish
  return make


def run_gate(case):
  from vf import gate
  kind, nw, nu, bound = case['cfg']
  make = (make_mixin if kind == 'mixin' else make_userinput)(nw, nu)
  _S['verdicts'] = 0
  viol = []
  try:
    res = gate.explore(make, bound, part=case['part'], parts=PARTS)
  except gate.Deadlock as e:
    return {'sig': case, 'violations': [{'mechanism': 'gate:deadlock',
                                         'detail': {'threads': repr(e)[:300],
                                                    'cfg': case['cfg']}}],
            'counters': {'schedules_executed': 1}}
  for prefix, verdict in res['violations'][:3]:
    viol.append({'mechanism': '%s:%s' % (kind, verdict[0][0]),
                 'detail': {'cfg': case['cfg'], 'schedule': prefix[:80],
                            'verdict': repr(verdict)[:200]}})
  return {'sig': ['gate', case['cfg'], case['part'], res['distinct']],
          'multi_sig': False, 'evaluations': max(1, res['schedules']),
          'violations': viol,
          'counters': {'schedules_executed': res['schedules'],
                       'distinct_schedules': res['distinct'],
                       'watcher_verdicts': _S['verdicts'],
                       'parts_complete': 1 if res['complete'] else 0}}


# ------------------------------------------------------------------ (b) runs
class Watcher(threading.Thread):
  """Follows the documented protocol against a running Test."""

  def __init__(self, idx, get_state, goals, shared):
    super().__init__(name='WATCH%d' % idx, daemon=True)
    self.shared = shared
    self.idx = idx
    self.get_state = get_state
    self.goals = goals          # list of (name, predicate(state_dict), Event)
    self.problems = []
    self.snapshots = 0
    self.completed = False

  def run(self):
    ts = None
    t_end = time.monotonic() + 10
    while ts is None and time.monotonic() < t_end:
      ts = self.get_state()
      if ts is None:
        time.sleep(0.0005)
    if ts is None:
      self.problems.append(['no-test-state'])
      return
    pending = list(self.goals)
    while True:
      try:
        state, ev = ts.asdict_with_event()
      except Exception as e:  # pylint: disable=broad-except
        # the subscribable object's own snapshot raised under this schedule
        import traceback
        where = traceback.extract_tb(e.__traceback__)[-1].name
        p = ['snapshot-raised', type(e).__name__, where]
        if p not in self.problems:
          self.problems.append(p)
        time.sleep(0.0005)
        continue
      self.snapshots += 1
      for g in list(pending):
        name, pred, seen = g
        try:
          ok = pred(state)
        except Exception:  # pylint: disable=broad-except
          ok = False
        if ok:
          seen.set()
          pending.remove(g)
      if state['status'] == 'COMPLETED':
        self.completed = True
        return
      waited = 0.0
      while not ev.wait(0.05):
        waited += 0.05
        # The phase thread publishes the goal it is blocked at *after* it made
        # the change (notification included) and saw it in a snapshot of its
        # own.  From then on nothing else will notify: an unset event together
        # with a snapshot that lacks the change is a lost update.
        q = self.shared.get('at')
        mine = [g for g in pending if g[0] == q]
        if (mine or self.shared.get('done')) and not ev.is_set():
          what = q if mine else 'COMPLETED'
          self.problems.append(['lost-notification', [what], False])
          for g in mine:
            g[2].set()          # let the scenario go on
            pending.remove(g)
          if not mine:
            return
          break
        if waited >= 90:
          self.problems.append(['watchdog-without-change'])
          return


def _safe(pred, state):
  try:
    return bool(pred(state))
  except Exception:  # pylint: disable=broad-except
    return False


def run_whole(case):
  H = pm.htf()
  from vf import pause
  from openhtf.core import test_state as ts_mod
  from openhtf import util as util_mod
  from openhtf.util import logs
  from openhtf import plugs as plugs_mod
  from openhtf.plugs import user_input
  viol = []
  c = {'whole_runs': 1, 'quiescent_points_passed': 0, 'watchers_completed': 0,
       'watcher_snapshots': 0, 'schedules_executed': 0, 'watcher_verdicts': 0}
  nw = case['watchers']
  holder = {}
  seen = {}

  def goal(name):
    seen[name] = [threading.Event() for _ in range(nw)]
    return name

  stale = []

  # What the state looked like when it last notified its watchers (recorded by
  # a wrapper around TestState.notify_update for this run's state object).  At
  # a quiescent point - the run's only writer is parked here - it must be what
  # the state looks like now: a change after the last notification is a change
  # no watcher will be told about until something else happens.
  def view_of(ts):
    ps = ts.running_phase_state
    return (ts._status.name, ps.name if ps is not None else None,  # pylint: disable=protected-access
            len(ts.test_record.phases))

  real_notify = ts_mod.TestState.notify_update

  def notify_and_note(self):
    try:
      self._vf_last_view = view_of(self)  # pylint: disable=protected-access
    except Exception:  # pylint: disable=broad-except
      pass
    return real_notify(self)

  ts_mod.TestState.notify_update = notify_and_note
  unnotified = []

  def wait_all(name, timeout=60.0):
    # The phase thread made the change itself and is the only writer: a fresh
    # snapshot taken here, at quiescence, must show it.
    ts = t.state
    last = getattr(ts, '_vf_last_view', None)
    if last is not None:
      c['quiescent_views_compared'] = c.get('quiescent_views_compared', 0) + 1
      now = view_of(ts)
      if now != last and len(unnotified) < 3:
        unnotified.append({'at': name, 'view_at_last_notification': list(last),
                           'view_now': list(now)})
    fresh = None
    for _ in range(3):
      try:
        fresh = ts._asdict()   # pylint: disable=protected-access
        break
      except Exception:  # pylint: disable=broad-except
        time.sleep(0.001)
    if fresh is not None and not _safe(preds[name], fresh):
      stale.append(name)
      return False
    shared['at'] = name
    ok = True
    for ev in seen[name]:
      if not ev.wait(timeout):
        ok = False
    shared['at'] = None
    if ok:
      c['quiescent_points_passed'] += 1
    else:
      stuck.append(name)
    return ok

  stuck = []
  shared = {'at': None, 'done': False}
  preds = {}

  def running_name(s):
    return (s['running_phase_state'] or {}).get('name')

  preds['running'] = lambda s: s['status'] == 'RUNNING'
  preds['phase1'] = lambda s: running_name(s) == 'phase1'
  preds['meas'] = lambda s: s['running_phase_state']['measurements']['m'].get(
      'measured_value') == 42
  preds['dim'] = lambda s: len(s['running_phase_state']['measurements']['d'].get(
      'measured_value', [])) == 2
  preds['log'] = lambda s: any('marker-log' in r['message']
                               for r in s['test_record']['log_records'])
  preds['attach'] = lambda s: 'blob' in s['running_phase_state']['attachments']
  preds['dut'] = lambda s: s['test_record']['dut_id'] == 'DUT-C18'
  preds['finished'] = lambda s: any(p['name'] == 'phase1'
                                    for p in s['test_record']['phases'])
  preds['phase2'] = lambda s: running_name(s) == 'phase2'
  preds['all_finished'] = lambda s: (len(s['test_record']['phases']) >= 2 and
                                     s['running_phase_state'] is None)
  names = ['running', 'phase1', 'meas', 'dim', 'log', 'attach', 'dut',
           'finished', 'phase2', 'all_finished']
  for n in names:
    goal(n)

  @H.measures(H.Measurement('m'), H.Measurement('d').with_dimensions('x'))
  def phase1(test):
    wait_all('running')
    wait_all('phase1')
    test.measurements.m = 42
    wait_all('meas')
    test.measurements.d[0] = 1
    test.measurements.d[1] = 2
    wait_all('dim')
    test.logger.warning('marker-log line')
    wait_all('log')
    test.attach('blob', b'123')
    test.notify_update()
    wait_all('attach')
    test.dut_id = 'DUT-C18'
    wait_all('dut')

  class SlowTeardownPlug(H.plugs.BasePlug):
    """Its tearDown runs after the last phase and before finalization."""

    def tearDown(self):
      if case['scenario'] != 'prompt':
        wait_all('all_finished')

  @H.plugs.plug(slow=SlowTeardownPlug)
  def phase2(test, slow):
    wait_all('finished')
    wait_all('phase2')

  nodes = [phase1, phase2]
  prompt_seen = [threading.Event() for _ in range(nw)]
  if case['scenario'] == 'prompt':
    @H.plugs.plug(prompts=user_input.UserInput)
    def phase3(test, prompts):
      pid = prompts.start_prompt('ready?', text_input=True)
      holder['prompt_id'] = pid
      holder['answer'] = prompts.wait_for_prompt(timeout_s=60)
    nodes.append(phase3)

  t = H.Test(*nodes)
  recs = []
  t.add_output_callbacks(recs.append)
  watchers = []
  for i in range(nw):
    goals = [(n, preds[n], seen[n][i]) for n in names]
    watchers.append(Watcher(i, lambda: holder.get('ts') or t.state, goals, shared))

  plug_problems = []

  def plug_watcher():
    """Station-API style long poll on the frontend-aware plug."""
    t_end = time.monotonic() + 120
    ts = None
    while ts is None and time.monotonic() < t_end:
      ts = t.state
      time.sleep(0.0005)
    if ts is None:
      return
    name = 'openhtf.plugs.user_input.UserInput'
    remote = None
    while time.monotonic() < t_end:
      try:
        new = ts.plug_manager.wait_for_plug_update(name, remote, 20.0)
      except Exception:  # pylint: disable=broad-except
        time.sleep(0.002)     # plug not initialised yet / already torn down
        if t.state is None:
          return
        continue
      if new is None:
        plug = ts.plug_manager.get_plug_by_class_path(name)
        if plug is not None and plug._asdict() != remote:  # pylint: disable=protected-access
          plug_problems.append('plug-update-lost')
          return
        continue
      remote = new
      if new and new.get('id'):
        plug = ts.plug_manager.get_plug_by_class_path(name)
        plug.respond(new['id'], 'yes')
        holder['responded'] = True
        return

  eng = None
  if case['seed'] is not None:
    eng = _S.get('engine')
    if eng is None:
      eng = pause.Engine([util_mod.__file__, ts_mod.__file__, logs.__file__,
                          plugs_mod.__file__, user_input.__file__],
                         lambda th: th.name if th.name.startswith(
                             ('WATCH', 'TestExecutor', '<Phase', 'PLUGW')) else None)
      eng.install()
      _S['engine'] = eng
    eng.arm(None, yield_seed=case['seed'], yield_prob=0.2)
    eng.enabled = True
    old = sys.getswitchinterval()
    sys.setswitchinterval(1e-5)
  import logging
  htf_logger = logging.getLogger('openhtf')
  old_level = htf_logger.level
  if case['scenario'] == 'quiet':
    # a station that keeps DEBUG/INFO framework chatter out of its records:
    # only the explicit notifications remain
    htf_logger.setLevel(logging.WARNING)
  try:
    for w in watchers:
      w.start()
    pw = None
    if case['scenario'] == 'prompt':
      pw = threading.Thread(target=plug_watcher, name='PLUGW', daemon=True)
      pw.start()
    t.execute()
    shared['done'] = True
    for w in watchers:
      w.join(120)
    if pw:
      pw.join(30)
  finally:
    ts_mod.TestState.notify_update = real_notify
    htf_logger.setLevel(old_level)
    if eng is not None:
      eng.enabled = False
      sys.setswitchinterval(old)
    pm.prune_handlers()
  ctx = {'scenario': case['scenario'], 'watchers': nw, 'seed': case['seed']}
  if case['scenario'] == 'prompt':
    for ev in seen['all_finished']:
      ev.set()
  for u in unnotified:
    fields = [f for f, a, b in zip(('status', 'running_phase', 'phase_records'),
                                   u['view_at_last_notification'], u['view_now'])
              if a != b]
    viol.append({'mechanism': 'run:state-changed-after-last-notification:' +
                              '+'.join(fields), 'detail': dict(ctx, **u)})
  for w in watchers:
    c['watcher_snapshots'] += w.snapshots
    c['watcher_verdicts'] += 1
    if w.completed:
      c['watchers_completed'] += 1
    for p in w.problems:
      if p[0] == 'snapshot-raised':
        viol.append({'mechanism': 'run:snapshot-raised:%s@%s' % (p[1], p[2]),
                     'detail': dict(ctx, watcher=w.idx)})
      elif p[0] == 'lost-notification':
        viol.append({'mechanism': 'run:lost-notification:' + ','.join(p[1]),
                     'detail': dict(ctx, watcher=w.idx, event_set=p[2])})
      elif p[0] == 'watchdog-without-change':
        raise RuntimeError('watcher watchdog fired without a state change')
    if not w.completed and not w.problems and w.is_alive():
      viol.append({'mechanism': 'run:watcher-blocked-on-finished-test',
                   'detail': dict(ctx, watcher=w.idx)})
  for name in stale:
    viol.append({'mechanism': 'run:change-not-visible-in-snapshot:' + name,
                 'detail': dict(ctx, stale=stale)})
  if stuck and not viol:
    # no watcher holds a lost-update witness: slowness, not a verdict
    raise RuntimeError('whole-run scenario stuck at %s without a witness' % stuck)
  if case['scenario'] == 'prompt':
    if plug_problems:
      viol.append({'mechanism': 'run:' + plug_problems[0], 'detail': ctx})
    elif holder.get('answer') != 'yes':
      viol.append({'mechanism': 'run:plug-prompt-not-answered',
                   'detail': dict(ctx, answer=holder.get('answer'))})
    else:
      c['quiescent_points_passed'] += 1
  if not recs or recs[0].outcome.name != 'PASS':
    viol.append({'mechanism': 'run:outcome-not-PASS',
                 'detail': dict(ctx, outcome=recs[0].outcome.name if recs else None)})
  return {'sig': ['run', case['scenario'], nw, case['seed']], 'violations': viol,
          'counters': c}


_KPOINTS = {}


def run_killed(case):
  """W watchers hold (snapshot, event) pairs.  Updater UA (a KillableThread, as
  phase threads are) changes the state and notifies; it is held at a line of
  notify_update, killed there, and released.  A second update + notification
  follows.  Every watcher whose snapshot differs from the final state must
  then hold a set event."""
  from openhtf.util import threads as kthreads
  from vf import pause
  U = _S['U']
  if not _S.get('engine'):
    eng = pause.Engine([U.__file__], lambda th: 'UA' if th.name == 'UA' else None)
    eng.install()
    eng.enabled = False
    _S['engine'] = eng
  eng = _S['engine']
  nw = case['watchers']

  class Obj(U.SubscribableStateMixin):

    def __init__(self):
      super().__init__()
      self.v = 0

    def _asdict(self):
      return {'v': self.v}

  out = {}

  def scenario(target):
    o = Obj()
    pairs = [o.asdict_with_event() for _ in range(nw)]

    class Updater(kthreads.KillableThread):

      def _thread_proc(self):
        o.v += 1
        o.notify_update()
        out['ua_completed'] = True

      def _thread_exception(self, *args):
        return True    # a killed phase thread ends quietly, too

    ua = Updater(name='UA')
    eng.arm(target)
    eng.enabled = True
    try:
      ua.start()
      if target is not None:
        r = eng.run_action_at_pause(ua.kill, wait_s=4, hold_s=1.0)
        out['reached'] = r['reached']
      ua.join(10)
    finally:
      eng.enabled = False
      eng.release()
    out['seen'] = dict(eng.seen)
    out['ua_alive'] = ua.is_alive()
    # the next update (phase outcome, COMPLETED, a trailing log line, ...)
    o.v += 1
    o.notify_update()
    final = o._asdict()
    out['lost'] = [i for i, (snap, ev) in enumerate(pairs)
                   if snap != final and not ev.is_set()]
    out['judged'] = len(pairs)
    # a watcher that registers now is woken by the notification after that
    snap, ev = o.asdict_with_event()
    o.v += 1
    o.notify_update()
    if not ev.is_set():
      out['lost'].append('registered-after-the-kill')

  if nw not in _KPOINTS:
    scenario(None)
    import linecache
    # The second line event of a `with` line is its exit sequence (the call of
    # __exit__).  CPython checks for a pending asynchronous exception after
    # calls and at backward jumps, never between the end of the body and that
    # call, so a kill cannot land there without this instrumentation; stopping
    # the notifier there would manufacture a thread that dies holding the lock.
    _KPOINTS[nw] = [
        (k, h) for k, n in sorted(out['seen'].items())
        if 'notify_update' in k[1] for h in range(1, n + 1)
        if not (h > 1 and linecache.getline(U.__file__, k[2]).strip().startswith('with '))]
  pts = _KPOINTS[nw]
  c = {'killed_notifier_runs': 0, 'watcher_verdicts': 0}
  if case['idx'] >= len(pts):
    return {'sig': None, 'violations': [], 'counters': c, 'evaluations': 0,
            'sample': False}
  target = pts[case['idx']]
  out.clear()
  scenario(target)
  viol = []
  if out.get('reached'):
    c['killed_notifier_runs'] = 1
    c['notifier_died_inside_notify_update'] = 0 if out.get('ua_completed') else 1
  c['watcher_verdicts'] = out.get('judged', 0)
  if out.get('lost'):
    viol.append({'mechanism': 'lost-update-after-notifier-was-killed',
                 'detail': {'watchers': nw, 'unwoken': out['lost'],
                            'notifier_held_at': [list(target[0]), target[1]],
                            'notifier_completed': bool(out.get('ua_completed'))}})
  if out.get('ua_alive'):
    viol.append({'mechanism': 'notifier-thread-never-ended', 'detail': {}})
  return {'sig': ['killed', nw, list(target[0]), target[1]], 'violations': viol,
          'counters': c}


def run_case(case):
  if case['k'] == 'killed':
    return run_killed(case)
  if case['k'] == 'gate':
    return run_gate(case)
  return run_whole(case)
