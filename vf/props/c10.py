"""C10 — the serialized (base-type / JSON) view always equals the in-memory record.

Monitor: an independent from-scratch renderer (vf/render.py) that never reads
the incremental caches is compared with (a) the live PhaseState/TestState view
read between operations inside a phase body, (b) the final
TestRecord.as_base_types() of generated programs, (c) the bytes produced by
OutputToJSON under serialisation histories, parsed with a strict JSON parser.
"""
import base64
import enum
import io
import itertools
import json
import math
import random

from vf import progmodel as pm

PROPERTY = 'C10'
LEVEL = 'exploration'
RULE = ('cases: (live) histories of 1-8 operations inside one phase body over five declared '
        'measurements (scalar, scalar with precision, scalar whose validator raises on '
        'non-numbers, 1-D with transform, 2-D) - set, override, coordinate set/override, '
        'attach, log, read-live-view - with values from None, bool, int, float incl. NaN/+-inf, '
        'str, enum, nested lists/tuples/str-keyed dicts; every read compares '
        'PhaseState.as_base_types() and TestState.as_base_types() with the fresh renderer, and '
        'the final record is compared too; (live2) a second reader renders while the first is held '
        'at each line of its rendering (the body stands still); (record) E1 programs with subtests, branches, '
        'checkpoints, diagnoses: final TestRecord.as_base_types() vs fresh renderer; (json) '
        'serialisation histories over {as_base_types, OutputToJSON with/without inline '
        'attachments, with/without allow_nan} in every order of length <= 3: strict parse, '
        'decoded structure, base64 round trip, as_base_types() still base types and fresh; '
        '(log2) two threads log to the running test, the first held at each line of its way into the record; '
        'distinct = distinct case; non-trivial = at least one rendering was compared')
ASSUMPTIONS = [
    'tuples and lists are identified (JSON cannot distinguish them)',
    'reads are issued from the phase body, which is where station-API reads land relative to writes',
    'dict-valued measurement values have str keys',
]
REQUIRED_COUNTERS = ['live_reads_compared', 'final_records_compared',
                     'concurrent_reads_compared', 'concurrent_log_histories',
                     'json_documents_parsed', 'attachments_round_tripped']
EXHAUSTIVE = {'quick': True, 'thorough': True}
PLAN = {
    'quick': {'workers': 16, 'budget_s': 50, 'sampled_per_worker': 250,
              'wall_limit_s': 900},
    'thorough': {'workers': 16, 'budget_s': 600, 'sampled_per_worker': 8000,
                 'wall_limit_s': 7200},
}
NAN, INF = float('nan'), float('inf')


class Color(enum.Enum):
  RED = 1
  GREEN = 'g'


VALUES = [None, True, 7, 2.5, NAN, INF, -INF, 'str', '', Color.RED, [1, [2, NAN]],
          (1, 'a'), {'k': [1, {'z': INF}], 'e': Color.GREEN}, 0, -0.0, 10**30,
          1e-320, [], {}, 2.345678, 'üñí']
MEAS = ['s', 'sr', 'sx', 'd', 'dd']
SER_STEPS = ['base', 'json_inline', 'json_noinline', 'json_nan', 'json_nan_noinline']


_S = {}


def setup():
  pm.htf()
  from openhtf.core import measurements, test_state
  from vf import pause
  eng = pause.Engine([test_state.__file__, measurements.__file__],
                     lambda th: 'RA' if th.name == 'RA' else None)
  eng.install()
  eng.enabled = False
  _S['engine'] = eng
  from openhtf.core import test_record
  from openhtf.util import logs
  eng2 = pause.Engine([test_record.__file__, logs.__file__],
                      lambda th: 'LA' if th.name == 'LA' else None)
  eng2.install()
  eng2.enabled = False
  _S['engine_log'] = eng2


def teardown():
  _S['engine'].uninstall()
  _S['engine_log'].uninstall()


def enumerated(tier):
  # live histories: exhaustive over a reduced alphabet
  core = [['set', 's', 3], ['set', 's', 4], ['set', 'sr', 19], ['set', 'sx', 7],
          ['set', 'sx', 2], ['setd', 'd', 0, 2], ['setd', 'd', 0, 3],
          ['setd', 'd', 1, 4], ['setd', 'dd', 0, 10], ['attach', 0], ['log', 0],
          ['read']]
  n = 3 if tier == 'quick' else 4
  for length in range(1, n + 1):
    for seq in itertools.product(range(len(core)), repeat=length):
      if length >= 3 and (hash(seq) % (6 if tier == 'quick' else 9)):
        continue
      yield {'k': 'live', 'ops': [core[i] for i in seq] + [['read']]}
  for v in range(len(VALUES)):
    for m in ('s', 'sx', 'sr'):
      yield {'k': 'live', 'ops': [['set', m, v], ['read'], ['set', m, 2], ['read']]}
    yield {'k': 'live', 'ops': [['setd', 'd', 0, v], ['read'], ['setd', 'd', 0, 2],
                                ['read'], ['setd', 'd', 1, v], ['read']]}
    yield {'k': 'live', 'ops': [['setd', 'dd', 0, v], ['read']]}
  # two concurrent readers of the running phase: reader RA is held at every
  # line of its rendering while reader B renders
  for ops_i in range(len(LIVE2_OPS)):
    for idx in range(70):
      yield {'k': 'live2', 'ops_i': ops_i, 'idx': idx}
  # two threads log to the running test: LA is held at every line of its way
  # into the record while LB logs
  for idx in range(60):
    yield {'k': 'log2', 'idx': idx}
  # serialisation histories
  m = 3
  for length in range(1, m + 1):
    for seq in itertools.product(range(len(SER_STEPS)), repeat=length):
      yield {'k': 'json', 'steps': [SER_STEPS[i] for i in seq], 'vals': [3, 4, 10]}
  for v in range(len(VALUES)):
    yield {'k': 'json', 'steps': ['json_inline', 'json_nan', 'base'],
           'vals': [v, (v + 1) % len(VALUES), (v + 5) % len(VALUES)]}
  # record shapes
  for prog in RECORD_PROGS:
    yield {'k': 'record', 'prog': prog, 'cfg': {}}
    yield {'k': 'record', 'prog': prog, 'cfg': {'tdiag': 'fail'}}


def _p(pid, **beh):
  return ['P', pid, beh]


RECORD_PROGS = [
    [_p('a', m='pass', ds=[[['D1', 0]]]),
     ['T', 't', [_p('u', r='U'), _p('v'), ['C', 'c1', 'last', 'S']]],
     ['B', 'b', 'ANY', ['D1'], [_p('x', m='marginal')]],
     ['C', 'c2', ['ANY', ['D2']], 'S'], ['C', 'c3', 'all', 'U'], _p('z')],
    [['G', [_p('s')], [_p('m', r='X')], [_p('t')]]],
    [_p('a', r=['R', 'C']), ['C', 'c', 'last', 'S'], _p('b', r='T')],
    [['C', 'c0', 'last', 'S']],
    [_p('a', ds=[[['D2', 1]], 'RAISE']), ['B', 'b', 'NOT_ANY', ['D1'], []]],
]


def sampled(tier, rng):
  while True:
    r = rng.random()
    if r < .5:
      ops = []
      for _ in range(rng.randint(1, 8)):
        k = rng.choice(['set', 'set', 'setd', 'setd', 'attach', 'log', 'read', 'read'])
        if k == 'set':
          ops.append(['set', rng.choice(['s', 'sr', 'sx']),
                      rng.randrange(len(VALUES))])
        elif k == 'setd':
          ops.append(['setd', rng.choice(['d', 'dd']), rng.randrange(3),
                      rng.randrange(len(VALUES))])
        elif k in ('attach', 'log'):
          ops.append([k, rng.randrange(4)])
        else:
          ops.append(['read'])
      yield {'k': 'live', 'ops': ops + [['read']]}
    elif r < .75:
      yield {'k': 'record', 'prog': pm.gen_program(rng, depth=3, width=4),
             'cfg': pm.gen_cfg(rng)}
    else:
      yield {'k': 'json',
             'steps': [rng.choice(SER_STEPS) for _ in range(rng.randint(1, 5))],
             'vals': [rng.randrange(len(VALUES)) for _ in range(3)]}


def strict_loads(b):
  def no_constants(name):
    raise ValueError('non-strict JSON token %s' % name)
  return json.loads(b.decode('utf-8'), parse_constant=no_constants)


def only_base_types(x, path=''):
  if x is None or isinstance(x, (bool, int, float, str, bytes)):
    return None
  if isinstance(x, dict):
    for k, v in x.items():
      r = only_base_types(k, path + '.<key>') or only_base_types(
          v, '%s.%s' % (path, k))
      if r:
        return r
    return None
  if isinstance(x, (list, tuple)):
    for i, v in enumerate(x):
      r = only_base_types(v, '%s[%d]' % (path, i))
      if r:
        return r
    return None
  return '%s: %s' % (path, type(x).__name__)


def declared_measurements(H):
  return [
      H.Measurement('s'),
      H.Measurement('sr').with_precision(1),
      H.Measurement('sx').in_range(0, 10),
      H.Measurement('d').with_dimensions('x').with_transform(
          lambda v: v * 2 if isinstance(v, (int, float)) and not isinstance(v, bool) else v),
      H.Measurement('dd').with_dimensions('x', 'y').with_units('V').doc('two-d'),
  ]


LIVE2_OPS = [
    [['set', 's', 3], ['setd', 'd', 0, 2], ['setd', 'dd', 0, 10]],
    [['setd', 'd', 0, 2], ['read1'], ['setd', 'd', 0, 3], ['set', 'sx', 3]],
    [['set', 'sr', 19], ['read1'], ['set', 'sr', 3], ['set', 's', 4]],
]
_LIVE2_POINTS = {}


def run_live2(case):
  """After the body's assignments (the body then stands still) reader RA renders
  the running phase and is held at a line of its path; reader B renders in the
  meantime.  What B gets must equal a from-scratch rendering."""
  import threading
  from vf import render
  H = pm.htf()
  eng = _S['engine']
  ops = LIVE2_OPS[case['ops_i']]
  viol = []
  c = {'live_reads_compared': 0, 'final_records_compared': 0,
       'json_documents_parsed': 0, 'attachments_round_tripped': 0,
       'concurrent_reads_compared': 0}
  out = {}

  def scenario(target):
    @H.PhaseOptions(requires_state=True)
    def put(state):
      api = state.test_api
      ps = state.running_phase_state
      for op in ops:
        if op[0] == 'set':
          api.measurements[op[1]] = VALUES[op[2]]
        elif op[0] == 'setd':
          coords = op[2] if op[1] == 'd' else (op[2], 'y%d' % op[2])
          api.measurements[op[1]][coords] = VALUES[op[3]]
        elif op[0] == 'read1':
          ps.as_base_types()        # an earlier rendering fills the caches
      res = {}

      def reader_a():
        res['a'] = ps.as_base_types()

      def reader_b():
        live = ps.as_base_types()
        fresh = render.phase_state(ps)
        res['b'] = render.first_difference(fresh, live, 'phase')
        res['b_done'] = True

      eng.arm(target)
      eng.enabled = True
      try:
        ta = threading.Thread(target=reader_a, name='RA')
        ta.start()
        if target is not None:
          r = eng.run_action_at_pause(reader_b, wait_s=4, hold_s=0.2)
          out['reached'], out['blocked'] = r['reached'], r['blocked']
          if r.get('_thread'):
            r['_thread'].join(10)
        ta.join(10)
        if not res.get('b_done'):
          reader_b()
      finally:
        eng.enabled = False
        eng.release()
      out['diff'] = res.get('b')
      out['seen'] = dict(eng.seen)

    put = H.measures(*declared_measurements(H))(put)
    t = H.Test(put)
    CONF = pm._H['CONF']  # pylint: disable=protected-access

    @CONF.save_and_restore(allow_unset_measurements=True)
    def go():
      t.execute()
    go()
    pm.prune_handlers()

  key = case['ops_i']
  if key not in _LIVE2_POINTS:
    scenario(None)
    _LIVE2_POINTS[key] = [(k, h) for k, n in sorted(out['seen'].items())
                          for h in range(1, min(n, 2) + 1)]
  pts = _LIVE2_POINTS[key]
  if case['idx'] >= len(pts):
    return {'sig': None, 'violations': [], 'counters': c, 'evaluations': 0,
            'sample': False}
  target = pts[case['idx']]
  out.clear()
  scenario(target)
  if out.get('reached'):
    c['concurrent_reads_compared'] = 1
    c['live_reads_compared'] = 1
  if out.get('diff'):
    d = out['diff']
    viol.append({'mechanism': 'live-view-stale-measured-value'
                 if '.measured_value' in d else 'live-view-differs',
                 'detail': {'second_reader': True, 'diff': d,
                            'first_reader_held_at': [list(target[0]), target[1]],
                            'ops': ops}})
  return {'sig': ['live2', key, list(target[0]), target[1]], 'violations': viol,
          'counters': c}


def run_live(case):
  from vf import render
  H = pm.htf()
  viol = []
  c = {'live_reads_compared': 0, 'final_records_compared': 0,
       'json_documents_parsed': 0, 'attachments_round_tripped': 0,
       'ops_applied': 0}

  def bad(mech, **d):
    if len(viol) < 4:
      viol.append({'mechanism': mech, 'detail': d})

  def classify(diff):
    if '.measured_value' in diff:
      return 'live-view-stale-measured-value'
    if '.outcome' in diff:
      return 'live-view-stale-outcome'
    if '.attachments' in diff:
      return 'live-view-stale-attachments'
    return 'live-view-differs'

  @H.PhaseOptions(requires_state=True)
  def put(state):
    api = state.test_api
    nattach = 0
    for i, op in enumerate(case['ops']):
      k = op[0]
      try:
        if k == 'set':
          api.measurements[op[1]] = VALUES[op[2]]
        elif k == 'setd':
          coords = op[2] if op[1] == 'd' else (op[2], 'y%d' % op[2])
          api.measurements[op[1]][coords] = VALUES[op[3]]
        elif k == 'attach':
          nattach += 1
          api.attach('att%d_%d' % (op[1], nattach), bytes([op[1], 0, 255, 10]) * 3)
        elif k == 'log':
          api.logger.info('live message %d with %s', op[1], 'arg')
        elif k == 'read':
          ps = state.running_phase_state
          live = ps.as_base_types()
          fresh = render.phase_state(ps)
          c['live_reads_compared'] += 1
          d = render.first_difference(fresh, live, 'phase')
          if d:
            bad(classify(d), index=i, ops=case['ops'][:i + 1], diff=d)
          whole = state.as_base_types()
          d2 = render.first_difference(fresh, whole['running_phase_state'],
                                       'state.running_phase_state')
          if d2 and not d:
            bad('test-state-view-differs', index=i, diff=d2)
          d3 = render.first_difference(render.test_rec(state.test_record),
                                       whole['test_record'], 'state.test_record')
          if d3:
            bad('live-test-record-view-differs:' + d3.split(':')[0], index=i,
                diff=d3)
          r = only_base_types(whole, 'state')
          if r:
            bad('live-view-not-base-types', where=r)
          try:
            json.dumps(render.norm(whole), allow_nan=False)
          except (ValueError, TypeError) as e:
            bad('live-view-not-json-serialisable', error=str(e)[:100])
        c['ops_applied'] += 1
      except Exception:  # pylint: disable=broad-except
        c['ops_applied'] += 1   # rejected assignment: the view must still agree

  put = H.measures(*declared_measurements(H))(put)
  t = H.Test(put)
  recs = []
  t.add_output_callbacks(recs.append)
  CONF = pm._H['CONF']  # pylint: disable=protected-access

  @CONF.save_and_restore(allow_unset_measurements=True)
  def go():
    t.execute()
  go()
  pm.prune_handlers()
  if recs:
    c['final_records_compared'] += 1
    d = stable_difference(recs[0], c)
    if d:
      bad('final-record-differs:' + d.split(':')[0].split('[')[0], diff=d,
          ops=case['ops'])
  return {'sig': case if c['live_reads_compared'] else None, 'violations': viol,
          'counters': c}


def stable_difference(rec, c, label='record'):
  """Fresh rendering vs as_base_types() of a finished record.  The two reads
  are not atomic: if a log line still in flight on another thread lands between
  them (log_records grew), the pair is read again; counted, never judged."""
  from vf import render
  d = None
  for _ in range(4):
    n0 = len(rec.log_records)
    d = render.first_difference(render.test_rec(rec), rec.as_base_types(), label)
    if len(rec.log_records) == n0:
      return d
    c['record_changed_during_comparison'] = c.get(
        'record_changed_during_comparison', 0) + 1
  return None


def run_record(case):
  from vf import render
  H = pm.htf()
  viol = []
  c = {'live_reads_compared': 0, 'final_records_compared': 0,
       'json_documents_parsed': 0, 'attachments_round_tripped': 0}
  real = pm.run_real(case['prog'], case['cfg'], keep=True)
  pm.settle()
  b = real['_built']
  if b.recs:
    rec = b.recs[0]
    c['final_records_compared'] = 1
    d = stable_difference(rec, c)
    if d:
      viol.append({'mechanism': 'final-record-differs:' +
                   d.split(':')[0].split('[')[0], 'detail': {'diff': d}})
    from openhtf.output.callbacks import json_factory
    for _ in range(4):
      # the JSON bytes and the fresh rendering are two reads of the record: a
      # log line still in flight on a thread left over from an abandoned body
      # may land between them; such a pair is read again (counted, not judged)
      n0 = len(rec.log_records)
      buf = io.BytesIO()
      json_factory.OutputToJSON(buf)(rec)
      want0 = render.norm(render.test_rec(rec))
      if len(rec.log_records) == n0:
        break
      c['record_changed_during_comparison'] = c.get(
          'record_changed_during_comparison', 0) + 1
    try:
      doc = strict_loads(buf.getvalue())
      c['json_documents_parsed'] = 1
      want = want0
      for p, orig in zip(want['phases'], rec.phases):
        p['attachments'] = {
            n: dict(a._asdict(),  # pylint: disable=protected-access
                    data=base64.standard_b64encode(a.data).decode())
            for n, a in orig.attachments.items()}
      d = render.first_difference(json.loads(json.dumps(want)), doc, 'json')
      if d:
        viol.append({'mechanism': 'json-differs-from-record:' +
                     d.split(':')[0].split('[')[0], 'detail': {'diff': d}})
    except ValueError as e:
      viol.append({'mechanism': 'json-not-strict', 'detail': {'error': str(e)[:120]}})
  return {'sig': case if c['final_records_compared'] else None,
          'violations': viol, 'counters': c}


def run_json(case):
  from vf import render
  from openhtf.output.callbacks import json_factory
  H = pm.htf()
  viol = []
  c = {'live_reads_compared': 0, 'final_records_compared': 0,
       'json_documents_parsed': 0, 'attachments_round_tripped': 0}
  vals = [VALUES[i] for i in case['vals']]
  blobs = {'a.bin': bytes(range(256)), 'b.txt': 'text ü'.encode('utf-8'),
           'empty': b'',
           # larger than any plausible internal chunk, length not a multiple of 3
           'big.bin': bytes((i * 7 + i // 251) % 256 for i in range(200003))}

  def body(test):
    test.measurements['s'] = vals[0]
    test.measurements['d'][0] = vals[1]
    test.measurements['d'][1] = vals[2]
    test.measurements['d'][0] = vals[2]
    for n, b in blobs.items():
      test.attach(n, b)
    test.logger.warning('json case %s', 'x')

  body = H.measures(*declared_measurements(H))(body)

  def second(test):
    test.attach('later.bin', b'\x00\x01')

  t = H.Test(body, second)
  recs = []
  t.add_output_callbacks(recs.append)
  CONF = pm._H['CONF']  # pylint: disable=protected-access

  @CONF.save_and_restore(allow_unset_measurements=True)
  def go():
    t.execute()
  go()
  pm.prune_handlers()
  pm.settle()

  def bad(mech, **d):
    if len(viol) < 4:
      viol.append({'mechanism': mech, 'detail': dict(d, steps=case['steps'])})

  rec = recs[0]
  for si, step in enumerate(case['steps']):
    if step == 'base':
      got = rec.as_base_types()
      c['final_records_compared'] += 1
      r = only_base_types(got, 'record')
      if r:
        bad('as_base_types-contains-non-base-type', where=r, step=si)
      d = render.first_difference(render.test_rec(rec), got, 'record')
      if d and not r:
        bad('final-record-differs:' + d.split(':')[0].split('[')[0], diff=d,
            step=si)
      continue
    inline = 'noinline' not in step
    allow_nan = 'nan' in step
    failed = None
    for _ in range(4):       # stable pair of reads, see run_record
      n0 = len(rec.log_records)
      buf = io.BytesIO()
      try:
        json_factory.OutputToJSON(buf, inline_attachments=inline,
                                  allow_nan=allow_nan, sort_keys=True)(rec)
      except Exception as e:  # pylint: disable=broad-except
        failed = e
        break
      want0 = render.norm(render.test_rec(rec))
      if len(rec.log_records) == n0:
        break
      c['record_changed_during_comparison'] = c.get(
          'record_changed_during_comparison', 0) + 1
    if failed is not None:
      bad('json-output-raised:' + type(failed).__name__, step=si,
          error=str(failed)[:120])
      continue
    try:
      doc = strict_loads(buf.getvalue()) if not allow_nan else json.loads(
          buf.getvalue().decode('utf-8'))
    except ValueError as e:
      bad('json-not-strict', step=si, error=str(e)[:120])
      continue
    c['json_documents_parsed'] += 1
    want = want0
    for p, orig in zip(want['phases'], rec.phases):
      p['attachments'] = {}
      for n, a in orig.attachments.items():
        entry = dict(a._asdict())  # pylint: disable=protected-access
        if inline:
          entry['data'] = base64.standard_b64encode(a.data).decode()
        p['attachments'][n] = entry
    d = render.first_difference(json.loads(json.dumps(want)), doc, 'json')
    if d:
      bad('json-differs-from-record:' + ('attachments' if 'attachments' in d
                                        else d.split(':')[0].split('[')[0]),
          diff=d, step=si, inline=inline)
    if inline:
      for p, orig in zip(doc['phases'], rec.phases):
        for n, a in orig.attachments.items():
          c['attachments_round_tripped'] += 1
          got = p['attachments'].get(n, {}).get('data')
          if got is None or base64.standard_b64decode(got) != a.data:
            bad('attachment-does-not-round-trip', name=n, step=si)
  return {'sig': case if (c['json_documents_parsed'] or
                          c['final_records_compared']) else None,
          'violations': viol, 'counters': c}


_LOG2_POINTS = []


def run_log2(case):
  """Thread LA logs a line and is held at a line of its way through the record
  handler; thread LB logs another line in the meantime.  Afterwards the
  rendering of the record's log lines equals a from-scratch rendering of
  TestRecord.log_records (same lines, same order)."""
  import threading
  H = pm.htf()
  eng = _S['engine_log']
  viol = []
  c = {'live_reads_compared': 0, 'final_records_compared': 0,
       'json_documents_parsed': 0, 'attachments_round_tripped': 0,
       'concurrent_reads_compared': 0, 'concurrent_log_histories': 0}
  out = {}

  def scenario(target):
    @H.PhaseOptions(requires_state=True)
    def put(state):
      lg = state.state_logger
      lg.info('line-0')

      def log_a():
        lg.info('line-A')
        lg.warning('line-A2')

      def log_b():
        lg.info('line-B')
        out['b_done'] = True

      eng.arm(target)
      eng.enabled = True
      try:
        ta = threading.Thread(target=log_a, name='LA')
        ta.start()
        if target is not None:
          r = eng.run_action_at_pause(log_b, wait_s=4, hold_s=0.2)
          out['reached'], out['blocked'] = r['reached'], r['blocked']
          if r.get('_thread'):
            r['_thread'].join(10)
        ta.join(10)
        if not out.get('b_done'):
          log_b()
      finally:
        eng.enabled = False
        eng.release()
      out['seen'] = dict(eng.seen)
      rec = state.test_record
      out['objects'] = [(r.message, r.timestamp_millis, r.level)
                        for r in list(rec.log_records)]
      out['rendered'] = [(d['message'], d['timestamp_millis'], d['level'])
                         for d in rec.as_base_types()['log_records']]

    t = H.Test(put)
    recs = []
    t.add_output_callbacks(recs.append)
    t.execute()
    pm.settle()
    pm.prune_handlers()
    if recs:
      out['final_objects'] = [(r.message, r.timestamp_millis, r.level)
                              for r in recs[0].log_records]
      out['final_rendered'] = [(d['message'], d['timestamp_millis'], d['level'])
                               for d in recs[0].as_base_types()['log_records']]

  if not _LOG2_POINTS:
    scenario(None)
    _LOG2_POINTS.extend((k, h) for k, n in sorted(out['seen'].items())
                        for h in range(1, min(n, 2) + 1))
  if case['idx'] >= len(_LOG2_POINTS):
    return {'sig': None, 'violations': [], 'counters': c, 'evaluations': 0,
            'sample': False}
  target = _LOG2_POINTS[case['idx']]
  out.clear()
  scenario(target)
  if out.get('reached'):
    c['concurrent_log_histories'] = 1
  ctx = {'first_logger_held_at': [list(target[0]), target[1]],
         'second_logger_blocked': out.get('blocked')}
  for a, b, where in ((out.get('objects'), out.get('rendered'), 'running'),
                      (out.get('final_objects'), out.get('final_rendered'), 'final')):
    if a is None or b is None:
      viol.append({'mechanism': 'no-record', 'detail': ctx})
      break
    c['final_records_compared'] += 1
    if a != b:
      i = next((j for j, (x, y) in enumerate(zip(a, b)) if x != y), min(len(a), len(b)))
      viol.append({'mechanism': 'log-lines-rendered-differ-from-log_records:' + (
          'order' if sorted(a) == sorted(b) else 'content'),
                   'detail': dict(ctx, where=where, index=i,
                                  objects=[x[0] for x in a][:8],
                                  rendered=[x[0] for x in b][:8])})
      break
    msgs = [x[0] for x in a]
    if where == 'running' and not all(m in msgs for m in ('line-0', 'line-A', 'line-A2',
                                                          'line-B')):
      viol.append({'mechanism': 'logged-line-missing-from-record',
                   'detail': dict(ctx, lines=msgs[:10])})
      break
  return {'sig': ['log2', list(target[0]), target[1]], 'violations': viol[:3],
          'counters': c}


def run_case(case):
  return {'live': run_live, 'live2': run_live2, 'log2': run_log2, 'record': run_record,
          'json': run_json}[case['k']](case)
