"""C12 — phase time-out and thread kill: no hang, no false time-out, kill confined.

(t) Virtual time (vf/vclock.py): phase bodies end a chosen distance before or
    after their deadline, hang killably, or hang unkillably (and later wake up,
    swallow the termination request and keep acting); positions setup / main /
    teardown of a group; explicit, zero and default time-outs; repeat_on_timeout.
(k) Pause-point schedules on a KillableThread subclass: kill() is performed
    while the thread is held at every reached line of threads.py (before the
    body, in the body, in the exception / finish handlers), kill before start,
    kill after exit, the converse (the killer held inside kill()), and two
    overlapping kills after the body returned.
"""
import itertools
import os
import random
import re
import sys
import threading
import time

from vf import progmodel as pm

PROPERTY = 'C12'
LEVEL = 'exploration'
RULE = ('(t) one case = (position of the timed phase in {plain, group setup, group main, group '
        'teardown}, time-out in {10 s, 1 s, 0, default 180 s}, body end relative to the deadline '
        'in {-2P, -eps, +eps, +P-eps, +P+eps, never (killable), never (unkillable), unkillable '
        'then acts later, -2P with the thread kept alive past the deadline by a slow log handler}, '
        'phase profiling on/off, repeat_on_timeout yes/no, own result CONTINUE / FAIL_AND_CONTINUE) '
        'with P = the join poll interval, all enumerated; (m) a monitored phase abandoned alive '
        'after its time-out, followed by a phase monitoring a measurement of the same name; (l) the body waits for the run\'s record log handler (helper threads format a slow message under its lock) when the time-out expires; (t) also with the default time-out set after import and with early bodies that end by raising (also behind the slow exit handler); (mk) the kill ending a monitor thread lands in a finalizer that thread is running; (k) one case = (kill scenario, pause '
        'point (function, line, hit) of threads.py reached by the killable thread or by the '
        'killer), all enumerated; distinct = distinct case; non-trivial = the timed body / the '
        'killable thread was started (or provably prevented) and the record / event log judged')
ASSUMPTIONS = [
    'between deadline and deadline + P either verdict (own result or TIMEOUT) is accepted',
    'thread-identifier reuse between is_alive() and PyThreadState_SetAsyncExc is out of reach (documented upstream)',
    'an abandoned body can only act later if it swallows the termination request',
]
REQUIRED_COUNTERS = ['timing_cases', 'timeouts_observed', 'own_results_kept', 'slow_exits',
                     'monitor_samples_judged', 'log_handler_waits',
                     'monitor_kill_cases',
                     'kill_schedules', 'kills_performed', 'bodies_prevented',
                     'bodies_killed', 'kills_without_effect']
EXHAUSTIVE = {'quick': True, 'thorough': True}
PLAN = {
    'quick': {'workers': 16, 'budget_s': 60, 'sampled_per_worker': 0,
              'wall_limit_s': 900},
    'thorough': {'workers': 16, 'budget_s': 600, 'sampled_per_worker': 0,
                 'wall_limit_s': 3600},
}
EPS = 0.01
_S = {}


def setup():
  pm.htf()
  from openhtf.core import phase_executor
  from openhtf.util import threads
  from vf import harness, pause
  harness.assert_root(threads)
  eng = pause.Engine([threads.__file__],
                     lambda th: {'vf-K': 'K', 'vf-killer': 'C'}.get(th.name))
  eng.install()
  eng.enabled = False
  _S.update(pe=phase_executor, threads=threads, engine=eng,
            P=phase_executor._JOIN_TRY_INTERVAL_SECONDS,  # pylint: disable=protected-access
            default=phase_executor.DEFAULT_PHASE_TIMEOUT_S)


def teardown():
  _S['engine'].uninstall()


POSITIONS = ['plain', 'setup', 'main', 'teardown']
TIMEOUTS = [10, 1, 0, None]
ENDS = ['-2P', '-eps', '+eps', '+P-eps', '+P+eps', 'never', 'unkillable',
        'unkillable_acts', 'early_slow_exit']


def enumerated(tier):
  for pos in POSITIONS:
    for tmo in TIMEOUTS:
      for end in ENDS:
        for rep in (False, True):
          for own in ('C', 'F'):
            if tier == 'quick' and own == 'F' and end not in ('-eps', '+eps',
                                                              'early_slow_exit'):
              continue
            yield {'k': 't', 'pos': pos, 'timeout': tmo, 'end': end,
                   'repeat': rep, 'own': own}
  # the station's default time-out was set after import (what the flag
  # --phase_default_timeout_s does); phases without timeout_s use that value
  for pos in POSITIONS:
    for end in ENDS:
      for rep in (False, True):
        for dflt in (7, 1):
          if tier == 'quick' and dflt == 1 and end not in ('-eps', '+eps', 'never'):
            continue
          yield {'k': 't', 'pos': pos, 'timeout': None, 'end': end, 'repeat': rep,
                 'own': 'C', 'default': dflt}
  # the body ends by raising, early (also with the slow log handler delaying
  # what its thread logs on the way out: the exception message comes first)
  for pos in POSITIONS:
    for tmo in (10, 1):
      for end in ('-2P', '-eps', 'early_slow_exit'):
        for rep in (False, True):
          yield {'k': 't', 'pos': pos, 'timeout': tmo, 'end': end, 'repeat': rep,
                 'own': 'X'}
  # the phase after the timed-out one (a teardown phase) ends terminally too
  for pos in ('main', 'teardown'):
    for end in ('never', 'unkillable', '+P+eps'):
      for tmo in (10, 1):
        yield {'k': 't', 'pos': pos, 'timeout': tmo, 'end': end, 'repeat': False,
               'own': 'C', 'after_raises': True}
  # with phase profiling switched on (execute(profile_filename=...))
  for pos in ('plain', 'main'):
    for end in ('-2P', 'never', 'unkillable', 'early_slow_exit'):
      for rep in (False, True):
        yield {'k': 't', 'pos': pos, 'timeout': 10, 'end': end, 'repeat': rep,
               'own': 'C', 'profile': True}
  for pos in ('main', 'teardown'):
    for rep in (False, True):
      yield {'k': 'm', 'pos': pos, 'repeat': rep}
  # the kill that ends a monitor thread lands in a finalizer the thread is
  # running (the interpreter prints and drops it): the monitored phase still ends
  for pos in ('plain', 'main', 'teardown'):
    for ret in ('C', 'F'):
      for del_ms in (150, 400):
        yield {'k': 'mk', 'pos': pos, 'ret': ret, 'del_ms': del_ms}
  # the body is waiting for the run's record log handler (another thread of the
  # phase is logging) when its time-out expires
  for pos in ('plain', 'main', 'teardown'):
    for who in ('helper_thread', 'two_helpers'):
      for hold_ms in (150, 400):
        yield {'k': 'l', 'pos': pos, 'who': who, 'hold_ms': hold_ms}
  for scen in ('kill_at_target_line', 'held_in_kill', 'kill_before_start',
               'kill_after_exit', 'kill_twice', 'kill_raising_body',
               'kill_mid_body', 'two_killers'):
    n = 80 if scen in ('kill_at_target_line', 'held_in_kill',
                       'kill_raising_body') else 6 if scen == 'kill_mid_body' \
        else 40 if scen == 'two_killers' else 1
    for idx in range(n):
      yield {'k': 'k', 'scenario': scen, 'idx': idx}


def sampled(tier, rng):
  return iter(())


# ------------------------------------------------------------------ (t)
def run_timing(case):
  H = pm.htf()
  vc = pm._H['vc']  # pylint: disable=protected-access
  P, default = _S['P'], _S['default']
  viol = []
  c = {'timing_cases': 1, 'timeouts_observed': 0, 'own_results_kept': 0}
  if case.get('default') is not None:
    default = case['default']
    _S['pe'].DEFAULT_PHASE_TIMEOUT_S = default
    c['default_timeout_set_after_import'] = 1
  d = default if case['timeout'] is None else case['timeout']
  end = case['end']
  dur = {'-2P': d - 2 * P, '-eps': d - EPS, '+eps': d + EPS,
         '+P-eps': d + P - EPS, '+P+eps': d + P + EPS,
         # the body returns well before the deadline, but the thread that ran it
         # is kept alive beyond the deadline by a slow log handler (what the
         # thread logs on its way out)
         'early_slow_exit': d - 2 * P}.get(end)
  if dur is not None and dur < 0:
    dur = 0.0
  log = pm.EventLog()
  release = threading.Event()
  inv = {'n': 0}
  late_actions = []

  class Plug(H.plugs.BasePlug):
    def tearDown(self):
      log.add('plug_td', vc.monotonic())

  opts = {'repeat_on_timeout': True} if case['repeat'] else {}
  if case['timeout'] is not None:
    opts['timeout_s'] = case['timeout']

  @H.PhaseOptions(**opts)
  @H.plugs.plug(p=Plug)
  @H.measures(H.Measurement('own'))
  def timed(test, p):
    n = inv['n']
    inv['n'] += 1
    log.add('start', 'timed', n, vc.monotonic())
    test.measurements.own = 1
    if n >= 1:
      # second attempt (repeat_on_timeout): returns at once
      log.add('end', 'timed', n, vc.monotonic())
      return None
    if end == 'never':
      while True:
        vc.vsleep(1.0)
    if end in ('unkillable', 'unkillable_acts'):
      try:
        me = threading.current_thread()
        with vc.cv:
          vc.hung.add(me)
          vc.cv.notify_all()
        release.wait()
      except BaseException:  # pylint: disable=broad-except
        pass
      if end == 'unkillable_acts':
        # the abandoned body wakes up much later, ignores the request to
        # terminate and keeps acting
        try:
          test.measurements.shared = 99
          test.logger.warning('abandoned body speaking')
          late_actions.append('acted')
        except BaseException as e:  # pylint: disable=broad-except
          late_actions.append('raised:' + type(e).__name__)
        return H.PhaseResult.STOP
      return None
    vc.vsleep(dur)
    log.add('end', 'timed', n, vc.monotonic())
    if case['own'] == 'X':
      raise pm.Boom('the body ends by raising')
    return None if case['own'] == 'C' else H.PhaseResult.FAIL_AND_CONTINUE

  @H.measures(H.Measurement('shared'))
  def after(test):
    log.add('start', 'after', 0, vc.monotonic())
    if case.get('after_raises'):
      # a later teardown phase ends terminally as well: the time-out came first
      log.add('end', 'after', 0, vc.monotonic())
      raise RuntimeError('device does not answer the clean-up command either')
    if end == 'unkillable_acts':
      release.set()
      t_end = time.monotonic() + 5
      while not late_actions and time.monotonic() < t_end:
        time.sleep(0.001)
    log.add('end', 'after', 0, vc.monotonic())

  def filler(test):
    log.add('start', 'filler', 0, vc.monotonic())

  def td_last(test):
    log.add('start', 'td_last', 0, vc.monotonic())

  pos = case['pos']
  if pos == 'plain':
    nodes = [timed, after]
  elif pos == 'setup':
    nodes = [H.PhaseGroup(setup=[timed], main=[filler], teardown=[after])]
  elif pos == 'main':
    nodes = [H.PhaseGroup(setup=[filler], main=[timed], teardown=[after])]
  else:
    nodes = [H.PhaseGroup(setup=[filler], main=[], teardown=[timed, after,
                                                             td_last])]
  t = H.Test(*nodes)
  recs = []
  t.add_output_callbacks(recs.append)
  crashes = []
  old_hook = threading.excepthook
  threading.excepthook = lambda a: crashes.append(
      (a.exc_type.__name__, getattr(a.thread, 'name', '?')))
  wall0 = time.monotonic()
  slow = None
  if end == 'early_slow_exit':
    import logging
    slept = []

    class SlowExitHandler(logging.Handler):
      # the delay sits in filter(), which logging calls without holding the
      # handler lock, so other threads' log calls are not blocked by it

      def filter(self, record):
        th = threading.current_thread()
        if ('(timed)' in th.name and not slept and
            any(e[2] == 'end' and e[3] == 'timed' for e in log.events)):
          slept.append(1)
          log.add('slow_exit', 'timed', 0, vc.monotonic())
          # parked in virtual time until deadline + 2P, or until the executor
          # has moved on (nobody advances the clock for this thread after that)
          with vc.cv:
            wake = vc.now + 4 * P
            vc.sleepers[th] = wake
            vc.cv.notify_all()
            t_end = time.monotonic() + 5
            try:
              def moved_on():
                end_seq = max(e[0] for e in log.events
                              if e[2] == 'end' and e[3] == 'timed')
                return any(e[0] > end_seq and (
                    e[2] == 'plug_td' or (e[2] == 'start' and e[3] != 'timed'))
                           for e in log.events)
              while (vc.now < wake and time.monotonic() < t_end and
                     not moved_on()):
                vc.cv.wait(0.005)
            finally:
              vc.sleepers.pop(th, None)
              vc.cv.notify_all()
        return False

      def emit(self, record):
        pass

    slow = SlowExitHandler(level=logging.DEBUG)
    logging.getLogger('openhtf').addHandler(slow)
  prof = None
  if case.get('profile'):
    import tempfile
    fd, prof = tempfile.mkstemp(prefix='vf-c12-prof-')
    os.close(fd)
  try:
    if prof:
      t.execute(profile_filename=prof)
    else:
      t.execute()
  finally:
    _S['pe'].DEFAULT_PHASE_TIMEOUT_S = _S['default']
    if prof:
      try:
        os.unlink(prof)
      except OSError:
        pass
    if slow is not None:
      logging.getLogger('openhtf').removeHandler(slow)
      c['slow_exits'] = 1 if any(e[2] == 'slow_exit' for e in log.events) else 0
    threading.excepthook = old_hook
    release.set()
    pm.prune_handlers()
  wall = time.monotonic() - wall0
  ctx = {'case': {k: case.get(k) for k in ('pos', 'timeout', 'end', 'repeat', 'own',
                                           'profile', 'after_raises', 'default')},
         'deadline': d, 'P': P}

  def bad(mech, **k):
    if len(viol) < 5:
      viol.append({'mechanism': mech, 'detail': dict(ctx, **k)})

  if not recs:
    bad('no-record')
    return {'sig': case, 'violations': viol, 'counters': c}
  rec = recs[0]
  ev = log.events
  trecs = [p for p in rec.phases if p.name == 'timed']
  first = trecs[0] if trecs else None
  if first is None:
    bad('timed-phase-has-no-record')
    return {'sig': case, 'violations': viol, 'counters': c}
  res = pm.res_name(first.result)
  own_res = {'C': 'CONTINUE', 'F': 'FAIL_AND_CONTINUE', 'X': 'EXC'}[case['own']]
  zone = ('early' if end in ('-2P', '-eps', 'early_slow_exit') else
          'grey' if end in ('+eps', '+P-eps') else 'late')
  if d == 0 and zone == 'early':
    zone = 'grey'      # a zero time-out expires at once
  if zone == 'early':
    if res == 'TIMEOUT':
      bad('false-timeout', result=res)
    elif res != own_res:
      bad('own-result-lost', result=res, want=own_res)
    else:
      c['own_results_kept'] = 1
  elif zone == 'late':
    if res != 'TIMEOUT':
      bad('late-body-not-timed-out', result=res)
    else:
      c['timeouts_observed'] = 1
  else:
    if res not in ('TIMEOUT', own_res):
      bad('grey-zone-result-neither-own-nor-timeout', result=res)
    c['timeouts_observed'] = 1 if res == 'TIMEOUT' else 0
    c['own_results_kept'] = 1 if res == own_res else 0
  timed_out = res == 'TIMEOUT'
  # bounded delay: what follows the timed phase starts by deadline + P (+eps)
  t_start = next(e[5] for e in ev if e[2] == 'start' and e[3] == 'timed')
  nxt = [e for e in ev if (e[2] == 'start' and e[3] in ('after', 'td_last')
                           or e[2] == 'start' and e[3] == 'timed' and e[4] == 1
                           or e[2] == 'plug_td') and e[0] > 0 and
         e[0] > next(x[0] for x in ev if x[2] == 'start' and x[3] == 'timed')]
  if timed_out:
    if not nxt:
      bad('nothing-ran-after-the-time-out')
    else:
      t_next = nxt[0][5] if nxt[0][2] == 'start' else nxt[0][3]
      if t_next - t_start > d + P + 0.5:
        bad('executor-did-not-proceed-within-bound', waited=t_next - t_start,
            bound=d + P)
  if wall > 60:
    bad('real-time-hang', wall=wall)
  # teardown and plug tearDown still run
  if not any(e[2] == 'plug_td' for e in ev):
    bad('plug-teardown-missing-after-time-out' if timed_out else
        'plug-teardown-missing')
  ran_after = any(e[2] == 'start' and e[3] == 'after' for e in ev)
  repeated = len(trecs) > 1
  final_timeout = pm.res_name(trecs[-1].result) == 'TIMEOUT'
  if pos == 'main' and not ran_after:
    bad('group-teardown-missing-after-main' + ('-time-out' if timed_out else ''))
  if pos == 'teardown' and not (ran_after and any(
      e[2] == 'start' and e[3] == 'td_last' for e in ev)):
    bad('remaining-teardown-phases-missing')
  if pos == 'setup' and final_timeout and ran_after:
    bad('teardown-ran-although-setup-timed-out')
  if pos == 'plain' and final_timeout and ran_after:
    bad('phase-ran-after-terminal-time-out')
  # outcome
  want_outcome = None
  if final_timeout:
    want_outcome = 'TIMEOUT'
  if want_outcome and rec.outcome.name != want_outcome:
    bad('outcome-not-TIMEOUT', outcome=rec.outcome.name)
  if zone == 'early' and not case['repeat'] and rec.outcome.name == 'TIMEOUT':
    bad('false-timeout', outcome='TIMEOUT')
  # repeat_on_timeout: re-invoked only after a time-out
  if inv['n'] > 1 and not (case['repeat'] and timed_out):
    bad('re-invoked-without-time-out', invocations=inv['n'])
  if case['repeat'] and timed_out and inv['n'] < 2:
    bad('repeat_on_timeout-not-honoured')
  # an abandoned body's later actions are not attributed to another phase
  if end == 'unkillable_acts' and ran_after:
    arec = [p for p in rec.phases if p.name == 'after']
    if arec:
      m = arec[0].measurements['shared']
      if m.measured_value.is_value_set or m.outcome.name != 'UNSET':
        bad('abandoned-body-wrote-into-another-phase-record',
            value=repr(m.measured_value.value) if m.measured_value.is_value_set
            else None)
      if pm.res_name(arec[0].result) != 'CONTINUE':
        bad('abandoned-body-result-attributed-to-another-phase',
            result=pm.res_name(arec[0].result))
  bad_crash = [x for x in crashes if x[0] != 'ThreadTerminationError']
  if bad_crash:
    bad('framework-thread-crashed:' + bad_crash[0][0], crashes=bad_crash[:2])
  return {'sig': case, 'violations': viol, 'counters': c}


# ------------------------------------------------------------------ (m)
def run_monitor(case):
  """A monitored phase (openhtf.core.monitors) times out with its body blocked
  in a C wait: the body is abandoned alive, so its monitor thread keeps
  sampling.  A later phase monitors a measurement of the same name.  Every
  sample in a phase's record must come from that phase's own probe."""
  H = pm.htf()
  from openhtf.core import monitors
  vc = pm._H['vc']  # pylint: disable=protected-access
  viol = []
  c = {'timing_cases': 1, 'timeouts_observed': 0, 'own_results_kept': 0,
       'monitor_cases': 1, 'monitor_samples_judged': 0}
  release = threading.Event()
  counts = {'soak': 0, 'cool': 0}

  def probe_soak():
    counts['soak'] += 1
    return 1000 + counts['soak']

  def probe_cool():
    counts['cool'] += 1
    return 2000 + counts['cool']

  @H.PhaseOptions(timeout_s=1, repeat_on_timeout=case['repeat'])
  @monitors.monitors('temperature', probe_soak, poll_interval_ms=3)
  def soak(test):
    if counts.get('soak_runs'):
      return None          # second attempt under repeat_on_timeout
    counts['soak_runs'] = 1
    try:
      with vc.cv:
        vc.hung.add(threading.current_thread())
        vc.cv.notify_all()
      release.wait(30)
    except BaseException:  # pylint: disable=broad-except
      pass

  @monitors.monitors('temperature', probe_cool, poll_interval_ms=3)
  def cool(test):
    t_end = time.monotonic() + 0.06     # real time: the monitors poll in real time
    while time.monotonic() < t_end:
      time.sleep(0.002)

  if case['pos'] == 'teardown':
    nodes = [H.PhaseGroup(main=[soak], teardown=[cool])]
  else:
    nodes = [H.PhaseGroup(setup=[], main=[soak], teardown=[cool])] \
        if not case['repeat'] else [H.PhaseGroup(main=[soak], teardown=[cool])]
  t = H.Test(*nodes)
  recs = []
  t.add_output_callbacks(recs.append)
  old_hook = threading.excepthook
  threading.excepthook = lambda a: None
  try:
    t.execute()
  finally:
    threading.excepthook = old_hook
    release.set()
    pm.prune_handlers()
  ctx = {'case': {k: case.get(k) for k in ('pos', 'repeat')}}
  if not recs:
    viol.append({'mechanism': 'no-record', 'detail': ctx})
    return {'sig': case, 'violations': viol, 'counters': c}
  for p in recs[0].phases:
    m = p.measurements.get('temperature')
    if m is None or not m.measured_value.is_value_set:
      continue
    vals = [v[-1] for v in m.measured_value.value]
    c['monitor_samples_judged'] += len(vals)
    lo, hi = (1000, 2000) if p.name == 'soak' else (2000, 3000)
    foreign = [v for v in vals if not lo < v < hi]
    if p.name == 'soak' and pm.res_name(p.result) == 'TIMEOUT':
      c['timeouts_observed'] = 1
    if foreign:
      viol.append({'mechanism': 'abandoned-monitor-wrote-into-another-phase-record'
                   if p.name == 'cool' else 'foreign-samples-in-phase-record',
                   'detail': dict(ctx, phase=p.name, foreign=foreign[:4],
                                  samples=len(vals))})
  return {'sig': case, 'violations': viol, 'counters': c}


# ------------------------------------------------------------------ (k)
_POINTS = {}


def with_line():
  import ast
  import inspect
  if 'with_line' not in _S:
    src, first = inspect.getsourcelines(_S['threads'].KillableThread.run)
    import textwrap
    tree = ast.parse(textwrap.dedent(''.join(src)))
    withs = [n for n in ast.walk(tree) if isinstance(n, ast.With)]
    # (no `with` block in run(): there is no lock-release window to excuse)
    _S['with_line'] = first + withs[0].lineno - 1 if withs else None
  return _S['with_line']


def make_thread(events, body_kind):
  T = _S['threads']

  class K(T.KillableThread):

    def _thread_proc(self):
      events.append(('body_start',))
      try:
        if body_kind == 'loop':
          t_end = time.monotonic() + 0.03
          while time.monotonic() < t_end:
            time.sleep(0.0003)
        elif body_kind == 'raise':
          raise ValueError('body boom')
        events.append(('body_end',))
      except T.ThreadTerminationError:
        events.append(('body_killed',))
        raise

    def _thread_exception(self, exc_type, exc_val, exc_tb):
      events.append(('handler_exc', exc_type.__name__))
      time.sleep(0)          # a few lines of handler work
      events.append(('handler_exc_done',))
      return True

    def _thread_finished(self):
      events.append(('finish_start',))
      time.sleep(0)
      events.append(('finished',))

  return K(name='vf-K')


def run_kill(case):
  T = _S['threads']
  eng = _S['engine']
  viol = []
  c = {'kill_schedules': 0, 'kills_performed': 0, 'bodies_prevented': 0,
       'bodies_killed': 0, 'kills_without_effect': 0, 'pause_not_reached': 0}
  scen = case['scenario']
  events = []
  escaped = []
  old_hook = threading.excepthook
  threading.excepthook = lambda a: escaped.append(
      (a.exc_type.__name__, getattr(a.thread, 'name', '?')))
  bystander_exc = []
  stop_by = threading.Event()

  def bystander():
    try:
      while not stop_by.is_set():
        time.sleep(0.0005)
    except BaseException as e:  # pylint: disable=broad-except
      bystander_exc.append(type(e).__name__)

  by = threading.Thread(target=bystander, name='vf-bystander', daemon=True)
  by.start()
  ctx = {'scenario': scen}

  def bad(mech, **k):
    if len(viol) < 5:
      viol.append({'mechanism': mech,
                   'detail': dict(ctx, events=[e for e in events][:14], **k)})

  try:
    if scen == 'kill_before_start':
      th = make_thread(events, 'loop')
      th.kill()
      c['kills_performed'] = 1
      th.start()
      th.join(10)
      c['kill_schedules'] = 1
      if ('body_start',) in events:
        bad('body-ran-although-killed-before-start')
      else:
        c['bodies_prevented'] = 1
      if ('finished',) not in events:
        bad('finish-handler-missing')
    elif scen == 'kill_after_exit':
      th = make_thread(events, 'none')
      th.start()
      th.join(10)
      n = len(events)
      th.kill()
      c['kills_performed'] = 1
      c['kill_schedules'] = 1
      time.sleep(0.01)
      if len(events) != n or escaped:
        bad('kill-after-exit-had-an-effect')
      else:
        c['kills_without_effect'] = 1
    elif scen == 'kill_mid_body':
      th = make_thread(events, 'loop')
      th.start()
      while ('body_start',) not in events:
        time.sleep(0.0002)
      time.sleep(0.001 * case['idx'])
      th.kill()
      c['kills_performed'] = 1
      c['kill_schedules'] = 1
      th.join(10)
      if th.is_alive():
        bad('thread-survived-kill')
      if ('body_killed',) in events:
        c['bodies_killed'] = 1
      elif ('body_end',) not in events:
        bad('body-neither-killed-nor-finished')
      if ('finished',) not in events:
        bad('finish-handler-missing')
    elif scen == 'two_killers':
      # The body has returned; the thread is still alive in its finish handler.
      # Killer 1 is held at a line of kill() while killer 2 calls kill(): neither
      # request may have an effect on the handlers.
      park = threading.Event()

      def parked_thread():
        th = make_thread(events, 'none')
        real_finished = th._thread_finished  # pylint: disable=protected-access

        def finished():
          try:
            events.append(('parked',))
            park.wait(3)
          except T.ThreadTerminationError:
            events.append(('handler_killed',))
            raise
          real_finished()
        th._thread_finished = finished  # pylint: disable=protected-access
        return th

      key = (scen,)
      if key not in _POINTS:
        th = parked_thread()
        eng.arm(None)
        eng.enabled = True
        try:
          th.start()
          while ('parked',) not in events:
            time.sleep(0.0002)
          killer = threading.Thread(target=th.kill, name='vf-killer')
          killer.start()
          killer.join(10)
          park.set()
          th.join(10)
        finally:
          eng.enabled = False
        _POINTS[key] = sorted(p for p in eng.points(max_hits=2) if p[0][0] == 'C')
        del events[:]
        del escaped[:]
        park.clear()
      pts = _POINTS[key]
      if case['idx'] >= len(pts):
        return {'sig': None, 'violations': [], 'counters': {}, 'evaluations': 0,
                'sample': False}
      target = pts[case['idx']]
      ctx['point'] = [list(target[0]), target[1]]
      th = parked_thread()
      eng.arm(target)
      eng.enabled = True
      info = {}
      try:
        th.start()
        while ('parked',) not in events:
          time.sleep(0.0002)
        killer = threading.Thread(target=th.kill, name='vf-killer')
        killer.start()
        info = eng.run_action_at_pause(th.kill, wait_s=3, hold_s=0.3)
        killer.join(10)
        time.sleep(0.01)
        park.set()
        th.join(10)
      finally:
        eng.release()
        eng.enabled = False
        park.set()
      c['kill_schedules'] = 1 if info.get('reached') else 0
      c['pause_not_reached'] = 0 if info.get('reached') else 1
      c['kills_performed'] = 2 if info.get('reached') else 1
      if th.is_alive():
        bad('thread-still-alive')
      if ('handler_killed',) in events or escaped:
        bad('kill-after-body-returned-reached-the-handlers', escaped=escaped[:2])
      elif info.get('reached'):
        c['kills_without_effect'] = 1
      if ('finished',) not in events:
        bad('finish-handler-did-not-complete')
    elif scen == 'kill_twice':
      th = make_thread(events, 'loop')
      th.start()
      while ('body_start',) not in events:
        time.sleep(0.0002)
      th.kill()
      th.kill()
      c['kills_performed'] = 2
      c['kill_schedules'] = 1
      th.join(10)
      if th.is_alive():
        bad('thread-survived-kill')
      if ('body_killed',) in events:
        c['bodies_killed'] = 1
      if ('finished',) not in events:
        bad('finish-handler-missing')
    else:
      body = 'raise' if scen == 'kill_raising_body' else 'loop'
      role = 'C' if scen == 'held_in_kill' else 'K'
      key = (scen,)
      if key not in _POINTS:
        # discovery: a run with a kill in the middle of the body
        ev0 = []
        th = make_thread(ev0, body)
        eng.arm(None)
        eng.enabled = True
        try:
          th.start()
          if body == 'loop':
            while ('body_start',) not in ev0:
              time.sleep(0.0002)
          killer = threading.Thread(target=th.kill, name='vf-killer')
          killer.start()
          killer.join(10)
          th.join(10)
        finally:
          eng.enabled = False
        pts = [p for p in eng.points(max_hits=2) if p[0][0] == role]
        # plus a discovery run without any kill (handlers after a normal end)
        ev1 = []
        th = make_thread(ev1, body)
        eng.arm(None)
        eng.enabled = True
        try:
          th.start()
          th.join(10)
        finally:
          eng.enabled = False
        for p in eng.points(max_hits=2):
          if p[0][0] == role and p not in pts:
            pts.append(p)
        _POINTS[key] = sorted(pts)
        del escaped[:]       # what the discovery threads did is not judged
      pts = _POINTS[key]
      if case['idx'] >= len(pts):
        return {'sig': None, 'violations': [], 'counters': {}, 'evaluations': 0,
                'sample': False}
      target = pts[case['idx']]
      ctx['point'] = [list(target[0]), target[1]]
      th = make_thread(events, body)
      eng.arm(target)
      eng.enabled = True
      info = {}
      try:
        if role == 'K':
          th.start()
          r = eng.run_action_at_pause(th.kill, wait_s=3, hold_s=0.3)
          info = r
          if r['reached']:
            c['kills_performed'] = 1
            events.append(('kill_returned', len(events)))
          th.join(10)
        else:
          th.start()
          while ('body_start',) not in events:
            time.sleep(0.0002)
          killer = threading.Thread(target=th.kill, name='vf-killer')
          killer.start()
          # the killer is held inside kill(); the target runs on to its end
          r = eng.run_action_at_pause(lambda: th.join(0.2), wait_s=3,
                                      hold_s=0.5)
          info = r
          killer.join(10)
          c['kills_performed'] = 1 if r['reached'] else 0
          th.join(10)
      finally:
        eng.release()
        eng.enabled = False
      c['kill_schedules'] = 1 if info.get('reached') else 0
      c['pause_not_reached'] = 0 if info.get('reached') else 1
      if th.is_alive():
        bad('thread-still-alive')
      if ('finished',) not in events:
        bad('finish-handler-did-not-complete')
      if role == 'K' and info.get('reached'):
        fn, line = target[0][1], target[0][2]
        kidx = [i for i, e in enumerate(events) if e[0] == 'kill_returned'][0]
        before = [e[0] for e in events[:kidx]]
        after = [e[0] for e in events[kidx + 1:]]
        body_done = ('body_end' in before or 'body_killed' in before or
                     'handler_exc' in before)
        # Leaving the `with self._running_lock` block is still "the body is
        # running" for the implementation (the lock is held for two more
        # instructions): the statement only speaks of handlers / after exit.
        leaving_with = (fn.endswith('KillableThread.run') and
                        line == with_line() and target[1] >= 2)
        if body_done and leaving_with:
          c['kills_in_lock_release_window'] = 1
        elif body_done and not info.get('blocked'):
          # the kill was requested after the body had returned / raised
          if 'body_killed' in after or any(
              e[0] == 'handler_exc' and e[1] == 'ThreadTerminationError'
              for e in events[kidx + 1:]) or escaped:
            bad('kill-after-body-returned-had-an-effect', escaped=escaped[:2])
          else:
            c['kills_without_effect'] = 1
        elif 'body_start' not in before and not info.get('blocked'):
          if 'body_start' in after and 'body_killed' not in after and \
              'body_end' in after:
            # the body ran to its end although the kill completed before it began
            bad('body-ran-to-completion-after-kill-before-it-began')
          elif 'body_start' not in after:
            c['bodies_prevented'] = 1
          else:
            c['bodies_killed'] = 1
        else:
          if 'body_killed' in after:
            c['bodies_killed'] = 1
      if scen == 'kill_raising_body' and ('handler_exc', 'ValueError') not in \
          events and ('body_killed',) not in events and c['kills_performed'] and \
          ('body_start',) in events:
        pass
    if bystander_exc:
      bad('termination-error-in-another-thread', where=bystander_exc)
    if any(x[1] != 'vf-K' for x in escaped):
      bad('exception-escaped-in-another-thread', escaped=escaped[:2])
  finally:
    stop_by.set()
    threading.excepthook = old_hook
  return {'sig': [scen, ctx.get('point')], 'violations': viol, 'counters': c}


# ------------------------------------------------------------------ (l)
def run_logkill(case):
  """The timed-out body is abandoned while it waits for the record log handler
  of its run: another thread started by the phase is in the middle of logging a
  message that takes a while to format.  The kill request is pending when the
  body gets the handler.  The executor must still proceed: teardown phase, plug
  tearDown, a finalized TIMEOUT record.  Witness of a violation: execute() has
  not returned and the handler's lock belongs to a thread that has ended."""
  import logging
  H = pm.htf()
  vc = pm._H['vc']  # pylint: disable=protected-access
  viol = []
  c = {'timing_cases': 1, 'timeouts_observed': 0, 'own_results_kept': 0,
       'log_handler_waits': 0}
  holding = threading.Event()
  hold_s = case['hold_ms'] / 1000.0
  log = pm.EventLog()
  bodies = []

  def record_handlers():
    return [h for h in logging.getLogger('openhtf').handlers
            if type(h).__name__ == 'RecordHandler']

  class SlowText:
    # formatted by the record handler while it holds its lock

    def __str__(self):
      if any(h.lock._is_owned() for h in record_handlers()):  # pylint: disable=protected-access
        holding.set()
        time.sleep(hold_s)
      return 'text that took a while to format'

  def chatty(test):
    me = threading.current_thread()
    bodies.append(me)
    n = 2 if case['who'] == 'two_helpers' else 1
    helpers = [threading.Thread(target=test.logger.info, args=('%s', SlowText()),
                                name='vf-log-helper-%d' % i, daemon=True)
               for i in range(n)]
    for th in helpers:
      th.start()
    holding.wait(5)
    with vc.cv:            # the virtual clock jumps to the deadline
      vc.hung.add(me)
      vc.cv.notify_all()
    log.add('body_logs', 'chatty', 0)
    c['log_handler_waits'] = 1
    while True:            # ends by being killed
      test.logger.info('from the body')
      time.sleep(0.0005)

  chatty = H.PhaseOptions(timeout_s=10)(chatty)

  def wrap_up(test):
    log.add('start', 'wrap_up', 0)
    test.logger.info('teardown phase logs as well')

  pos = case['pos']
  if pos == 'plain':
    nodes = [chatty]
  elif pos == 'main':
    nodes = [H.PhaseGroup(main=[chatty], teardown=[wrap_up])]
  else:
    nodes = [H.PhaseGroup(main=[wrap_up], teardown=[chatty])]
  t = H.Test(*nodes)
  recs = []
  t.add_output_callbacks(recs.append)
  old_hook = threading.excepthook
  threading.excepthook = lambda a: None
  done = {}

  def runner():
    try:
      done['ret'] = t.execute()
    except BaseException as e:  # pylint: disable=broad-except
      done['exc'] = repr(e)

  th = threading.Thread(target=runner, name='vf-runner', daemon=True)
  try:
    handlers_before = set(map(id, record_handlers()))
    th.start()
    th.join(20)
    mine = [h for h in record_handlers() if id(h) not in handlers_before]
    stuck = th.is_alive()
    owners = []
    for h in mine:
      m = re.search(r'owner=(\d+)', repr(h.lock))
      if m and int(m.group(1)):
        ident = int(m.group(1))
        alive = [x.name for x in threading.enumerate() if x.ident == ident]
        owners.append({'owner_alive': bool(alive), 'owner': alive[:1]})
  finally:
    threading.excepthook = old_hook
    with vc.cv:
      for b in bodies:
        vc.hung.discard(b)
    if not th.is_alive():
      pm.prune_handlers()
  ctx = {'case': {k: case.get(k) for k in ('pos', 'who', 'hold_ms')}}
  if stuck:
    dead_owner = any(not o['owner_alive'] for o in owners)
    viol.append({'mechanism': 'executor-did-not-proceed-within-bound' + (
        ':record-log-handler-owned-by-an-ended-thread' if dead_owner else ''),
                 'detail': dict(ctx, handler_locks=owners,
                                events=[list(e[2:5]) for e in log.events][:8])})
    # the stuck run keeps its handler; take it off the shared logger
    lg = logging.getLogger('openhtf')
    lg.handlers = [h for h in lg.handlers if h not in mine]
    return {'sig': case, 'violations': viol, 'counters': c}
  if not recs:
    viol.append({'mechanism': 'no-record', 'detail': dict(ctx, done=done)})
    return {'sig': case, 'violations': viol, 'counters': c}
  rec = recs[0]
  ph = [p for p in rec.phases if p.name == 'chatty']
  if len(ph) == 1 and pm.res_name(ph[0].result) == 'TIMEOUT':
    c['timeouts_observed'] = 1
  else:
    viol.append({'mechanism': 'late-body-not-timed-out',
                 'detail': dict(ctx, phases=[(p.name, pm.res_name(p.result))
                                             for p in rec.phases])})
  if rec.outcome.name != 'TIMEOUT':
    viol.append({'mechanism': 'run-outcome-not-TIMEOUT',
                 'detail': dict(ctx, outcome=rec.outcome.name)})
  if pos == 'main' and not any(e[2] == 'start' and e[3] == 'wrap_up'
                               for e in log.events):
    viol.append({'mechanism': 'teardown-not-run-after-timeout', 'detail': ctx})
  return {'sig': case, 'violations': viol, 'counters': c}


# ------------------------------------------------------------------ (mk)
def run_monitor_kill_swallowed(case):
  """A monitored phase whose body returns well before its time-out.  The
  monitor function drops a resource per sample; its finalizer has some work to
  do (pure Python) and is running when the phase ends, so the asynchronous
  exception that is to end the monitor thread is raised inside the finalizer,
  where the interpreter prints and drops it.  The phase must still end with the
  body's own result and the following phase must run.  Witness of a violation
  (logical, not a wall-clock verdict): the body has returned, execute() has
  not, and the monitor has taken several hundred further samples."""
  H = pm.htf()
  from openhtf.core import monitors
  viol = []
  c = {'timing_cases': 1, 'timeouts_observed': 0, 'own_results_kept': 0,
       'monitor_kill_cases': 1}
  st = {'samples': 0, 'ending': False, 'at_end': None, 'stop': False,
        'swallowed_in_finalizer': 0}
  in_long = threading.Event()
  log = pm.EventLog()

  class Resource:

    def __init__(self, busy_s):
      self.busy_s = busy_s

    def __del__(self):
      if self.busy_s:
        in_long.set()
      t_end = time.monotonic() + self.busy_s
      try:
        while time.monotonic() < t_end:
          pass
      except BaseException:  # pylint: disable=broad-except
        st['swallowed_in_finalizer'] += 1
        raise      # printed and dropped by the interpreter, as for any finalizer

  def probe():
    if st['stop']:
      raise RuntimeError('harness: end of the case')
    st['samples'] += 1
    busy = 0.0
    if st['ending'] and not in_long.is_set():
      busy = case['del_ms'] / 1000.0
    Resource(busy)          # dropped at once: finalized on this (the monitor) thread
    return st['samples']

  ret = {'C': None, 'F': H.PhaseResult.FAIL_AND_CONTINUE}[case['ret']]

  @H.PhaseOptions(timeout_s=100)
  @monitors.monitors('temperature', probe, poll_interval_ms=2)
  def soak(test):
    log.add('start', 'soak', 0)
    t_end = time.monotonic() + 5
    while st['samples'] < 3 and time.monotonic() < t_end:
      time.sleep(0.001)
    st['ending'] = True
    in_long.wait(5)          # the monitor thread is inside the slow finalizer
    st['at_end'] = st['samples']
    log.add('end', 'soak', 0)
    return ret

  def after(test):
    log.add('start', 'after', 0)

  pos = case['pos']
  if pos == 'plain':
    nodes = [soak, after]
  elif pos == 'main':
    nodes = [H.PhaseGroup(main=[soak], teardown=[after])]
  else:
    nodes = [H.PhaseGroup(main=[after], teardown=[soak])]
  t = H.Test(*nodes)
  recs = []
  t.add_output_callbacks(recs.append)
  old_hook = threading.excepthook
  threading.excepthook = lambda a: None
  old_unraisable = sys.unraisablehook
  sys.unraisablehook = lambda a: None
  done = {}

  def runner():
    try:
      done['ret'] = t.execute()
    except BaseException as e:  # pylint: disable=broad-except
      done['exc'] = repr(e)

  th = threading.Thread(target=runner, name='vf-runner', daemon=True)
  survived = None
  try:
    th.start()
    t_end = time.monotonic() + 40          # watchdog only
    while th.is_alive() and time.monotonic() < t_end:
      if st['at_end'] is not None and st['samples'] - st['at_end'] > 400:
        survived = st['samples'] - st['at_end']
        break
      time.sleep(0.005)
    if th.is_alive():
      st['stop'] = True            # the probe raises: the monitor thread ends
      th.join(30)
  finally:
    threading.excepthook = old_hook
    sys.unraisablehook = old_unraisable
    st['stop'] = True
    if not th.is_alive():
      pm.prune_handlers()
  ctx = {'case': {k: case.get(k) for k in ('pos', 'ret', 'del_ms')},
         'kill_swallowed_in_finalizer': st['swallowed_in_finalizer']}
  c['kills_swallowed_in_finalizer'] = st['swallowed_in_finalizer']
  if survived is not None:
    viol.append({'mechanism': 'monitor-thread-survived-the-end-of-its-phase',
                 'detail': dict(ctx, samples_after_body_returned=survived)})
    return {'sig': case, 'violations': viol, 'counters': c}
  if th.is_alive() or not recs:
    viol.append({'mechanism': 'executor-did-not-proceed-within-bound',
                 'detail': dict(ctx, done=done)})
    return {'sig': case, 'violations': viol, 'counters': c}
  rec = recs[0]
  ph = [p for p in rec.phases if p.name == 'soak']
  want = {'C': ('PASS', 'CONTINUE'), 'F': ('FAIL', 'FAIL_AND_CONTINUE')}[case['ret']]
  got = [(p.outcome.name, pm.res_name(p.result)) for p in ph]
  if got == [want]:
    c['own_results_kept'] = 1
  else:
    viol.append({'mechanism': 'early-body-reported-timeout' if got and got[0][1] == 'TIMEOUT'
                 else 'own-result-not-kept', 'detail': dict(ctx, got=got, want=want)})
  if not any(e[2] == 'start' and e[3] == 'after' for e in log.events):
    viol.append({'mechanism': 'following-phase-not-run', 'detail': ctx})
  return {'sig': case, 'violations': viol, 'counters': c}


def run_case(case):
  if case['k'] == 'mk':
    return run_monitor_kill_swallowed(case)
  if case['k'] == 'l':
    return run_logkill(case)
  if case['k'] == 'm':
    return run_monitor(case)
  return run_timing(case) if case['k'] == 't' else run_kill(case)
