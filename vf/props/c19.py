"""C19 — log capture: every run log recorded once, in order, in its own run only.

Monitors: every message carries a unique id; the run's log_records are compared
with the list of ids the harness emitted through that run's loggers (and through
framework loggers during the run): exactly once, per-thread order preserved,
fields (level, logger name, source file, line, millisecond time stamp), no id
of another run's record loggers, MAC redaction of the formatted message,
handler count after the run.  Workloads: message/argument/uid/logger-name
shapes on the capture layer and on whole Test runs; two concurrent runs under
the pause-point engine (a logging thread paused at every reached line of
logs.py while the other run starts, logs or ends) and under yield injection;
sequences of consecutive runs.
"""
import inspect
import itertools
import logging
import os
import random
import re
import threading
import time

from vf import progmodel as pm

PROPERTY = 'C19'
LEVEL = 'exploration'
RULE = ('cases: (shape) uid shape x logger kind x message/argument shape x MAC placement on '
        'the capture layer (initialize_record_handler / get_record_logger_for) and on whole '
        'Test runs (test.logger, plug logger, state logger, framework logger), also with console '
        'logging (-vv) switched on and a slow station handler ahead of the record handlers; whole '
        'runs in child processes started with no -v / -v / -vv / -vvv; (sched) a thread '
        'that logs through run B / ends run B / starts a run is paused at every reached line '
        'of openhtf/util/logs.py, and right after each of its reads of the openhtf logger\'s handler '
        'list, while another run ends / starts / logs, then released, and '
        'every run still open logs once more; (stress) two runs logging from 2-3 threads each '
        'under seeded yield injection while further runs start and end; (seq) 1-20 '
        'consecutive runs counting handlers; (exec_sched) a whole Test run whose executor thread '
        'is held 150 ms at each line it reaches while the main thread runs on, a tap on the '
        'openhtf logger telling what the run\'s own threads emitted; distinct = distinct case; non-trivial = at least '
        'one emitted message id was looked up in a record')
ASSUMPTIONS = [
    'a MAC address is six colon-separated hex octets in either case, delimited by non-word characters',
    'across threads any interleaving is accepted; per emitting thread the order must be preserved',
    'framework messages are emitted only while the receiving runs are known to be active',
]
REQUIRED_COUNTERS = ['messages_emitted', 'messages_looked_up', 'records_judged',
                     'mac_cases', 'schedules_paused', 'handler_counts_checked',
                     'killed_logger_runs']
EXHAUSTIVE = {'quick': True, 'thorough': True}
PLAN = {
    'quick': {'workers': 16, 'budget_s': 50, 'sampled_per_worker': 40,
              'wall_limit_s': 900},
    'thorough': {'workers': 16, 'budget_s': 600, 'sampled_per_worker': 1500,
                 'wall_limit_s': 7200},
}

UIDS = ['1234:abcdef0123456789:0123456789abcdef:1790000000000', 'plain', 'a',
        'u-1', '7', 'abc:def', 'UPPER_lower', 'uid with space']
LOGGER_KINDS = ['record', 'child', 'grandchild', 'phase', 'plug', 'framework',
                'framework_child', 'foreign', 'foreign_child', 'lookalike',
                'prefix_sharing_uid']
MACS = ['f8:8f:ca:12:34:56', 'F8:8F:CA:AB:CD:EF', '00:11:22:33:44:55']
MSG_SHAPES = ['plain', 'percent_args', 'tuple_arg', 'mapping_args', 'no_args_percent',
              'nonstr_msg', 'nonstr_arg', 'mac_in_msg', 'mac_in_arg', 'mac_split_args',
              'mac_in_nonstr_arg', 'mac_in_mapping', 'mac_twice', 'unicode',
              'mac_after_plain_same_format']

MAC_REF = re.compile(r'(?<![0-9A-Fa-f:])((?:[0-9A-Fa-f]{2}:){3})'
                     r'[0-9A-Fa-f]{2}:[0-9A-Fa-f]{2}:[0-9A-Fa-f]{2}(?![0-9A-Fa-f:])')
_S = {}
THIS_FILE = os.path.basename(__file__)


def setup():
  pm.htf()
  from openhtf.util import logs
  from vf import harness, pause
  harness.assert_root(logs)
  eng = pause.Engine([logs.__file__],
                     lambda th: th.name if th.name in ('LB', 'LA') else None)
  eng.install()
  eng.enabled = False
  _S.update(logs=logs, engine=eng, ids=itertools.count(1))
  logs.configure_logging()    # what constructing a Test does first


def teardown():
  _S['engine'].uninstall()


def enumerated(tier):
  for u in range(len(UIDS)):
    for kind in LOGGER_KINDS:
      yield {'k': 'shape', 'uid': u, 'kind': kind, 'shape': 'percent_args'}
  for shape in MSG_SHAPES:
    for kind in ('record', 'phase', 'framework'):
      for mi in range(len(MACS)):
        yield {'k': 'shape', 'uid': 0, 'kind': kind, 'shape': shape, 'mac': mi}
  for shape in MSG_SHAPES:
    yield {'k': 'test', 'shape': shape}
  for where in ('phase_logger', 'framework_logger'):
    yield {'k': 'killed_logger', 'where': where}
  # with console logging switched on (-vv): a handler ahead of the record handlers
  for shape in ('plain', 'percent_args', 'mac_in_arg', 'nonstr_arg'):
    for kind in LOGGER_KINDS:
      yield {'k': 'shape', 'uid': 0, 'kind': kind, 'shape': shape, 'cli': True}
    yield {'k': 'test', 'shape': shape, 'cli': True}
  for shape in MSG_SHAPES:
    for kind in ('record', 'phase', 'framework'):
      yield {'k': 'shape', 'uid': 0, 'kind': kind, 'shape': shape, 'cli': 'station',
             'mac': 1}
    yield {'k': 'test', 'shape': shape, 'cli': 'station'}
  for action in ('end_a', 'start_c', 'log_a', 'end_a_end_c'):
    for op in ('log', 'close', 'start'):
      for idx in range(60):
        yield {'k': 'sched', 'action': action, 'op': op, 'idx': idx}
  for idx in range(450 if tier == 'quick' else 900):
    yield {'k': 'exec_sched', 'idx': idx}
  for v in (0, 1, 2, 3):
    yield {'k': 'verbosity', 'v': v}
  for n in (1, 2, 5, 20):
    yield {'k': 'seq', 'n': n, 'mode': 'layer'}
    yield {'k': 'seq', 'n': min(n, 5), 'mode': 'test'}


def sampled(tier, rng):
  while True:
    yield {'k': 'stress', 'seed': rng.getrandbits(32),
           'threads': rng.randint(2, 3), 'msgs': rng.randint(3, 10)}


class Odd:
  def __init__(self, text):
    self.text = text

  def __str__(self):
    return self.text


def emit(logger, shape, mid, mac=None, level=logging.INFO):
  """Emits one message; returns the expected record fields (an exception
  escaping the logging call is recorded in 'raised')."""
  box = {}

  class Catch:
    name = logger.name

    def log(self, *a, **k):
      try:
        logger.log(*a, stacklevel=2, **k)
      except Exception as e:  # pylint: disable=broad-except
        box['raised'] = type(e).__name__ + ': ' + str(e)[:80]

  out = _emit(Catch(), shape, mid, mac, level)
  out.update(box)
  return out


def _emit(logger, shape, mid, mac=None, level=logging.INFO):
  mac = mac or MACS[0]
  tag = 'MSG%06d' % mid
  frame = inspect.currentframe()
  t0 = int(time.time() * 1000)
  if shape == 'plain':
    text = '%s plain text' % tag
    logger.log(level, text); line = frame.f_lineno
  elif shape == 'percent_args':
    logger.log(level, '%s value=%s n=%d', tag, 'v', 7); line = frame.f_lineno
    text = '%s value=v n=7' % tag
  elif shape == 'tuple_arg':
    logger.log(level, '%s t=%s', tag, (1, 'x')); line = frame.f_lineno
    text = "%s t=(1, 'x')" % tag
  elif shape == 'mapping_args':
    logger.log(level, tag + ' a=%(a)s b=%(b)d', {'a': 'A', 'b': 2}); line = frame.f_lineno
    text = '%s a=A b=2' % tag
  elif shape == 'no_args_percent':
    logger.log(level, tag + ' 100%% sure'.replace('%%', '%')); line = frame.f_lineno
    text = '%s 100%% sure' % tag if False else tag + ' 100% sure'
  elif shape == 'nonstr_msg':
    logger.log(level, Odd(tag + ' odd object')); line = frame.f_lineno
    text = tag + ' odd object'
  elif shape == 'nonstr_arg':
    logger.log(level, '%s o=%s', tag, Odd('oddarg')); line = frame.f_lineno
    text = '%s o=oddarg' % tag
  elif shape == 'mac_in_msg':
    logger.log(level, '%s mac %s end' % (tag, mac)); line = frame.f_lineno
    text = '%s mac %s end' % (tag, mac)
  elif shape == 'mac_in_arg':
    logger.log(level, '%s mac %s end', tag, mac); line = frame.f_lineno
    text = '%s mac %s end' % (tag, mac)
  elif shape == 'mac_split_args':
    logger.log(level, '%s mac %s:%s end', tag, mac[:8], mac[9:]); line = frame.f_lineno
    text = '%s mac %s end' % (tag, mac)
  elif shape == 'mac_in_nonstr_arg':
    logger.log(level, '%s mac %s end', tag, Odd(mac)); line = frame.f_lineno
    text = '%s mac %s end' % (tag, mac)
  elif shape == 'mac_in_mapping':
    logger.log(level, tag + ' mac %(m)s end', {'m': mac}); line = frame.f_lineno
    text = '%s mac %s end' % (tag, mac)
  elif shape == 'mac_twice':
    logger.log(level, '%s %s and %s.', tag, mac, MACS[2]); line = frame.f_lineno
    text = '%s %s and %s.' % (tag, mac, MACS[2])
  elif shape == 'mac_after_plain_same_format':
    # one log statement used first with a harmless value, then with a MAC
    fmt = '%s device identified as %s'
    logger.log(level, fmt, 'earlier-message', 'serial-0042')
    logger.log(level, fmt, tag, mac); line = frame.f_lineno
    text = '%s device identified as %s' % (tag, mac)
  elif shape == 'unicode':
    logger.log(level, '%s üñí %s', tag, 'ça'); line = frame.f_lineno
    text = '%s üñí ça' % tag
  else:
    raise ValueError(shape)
  t1 = int(time.time() * 1000)
  return {'id': tag, 'text': MAC_REF.sub(r'\1<REDACTED>', text), 'raw': text,
          'level': level, 'logger': logger.name, 'line': line, 't0': t0,
          't1': t1, 'thread': threading.current_thread().name,
          'has_mac': bool(MAC_REF.search(text))}


def find(records, tag):
  return [r for r in records if tag in r.message]


def judge_record(records, expected, foreign, viol, c, ctx):
  """expected / foreign: lists of dicts from emit()."""
  c['records_judged'] += 1
  pos = {}
  for i, r in enumerate(records):
    m = re.search(r'MSG\d{6}', r.message)
    if m:
      pos.setdefault(m.group(0), []).append(i)

  def bad(mech, **d):
    if len(viol) < 6:
      viol.append({'mechanism': mech, 'detail': dict(ctx, **d)})

  for e in expected:
    c['messages_looked_up'] += 1
    if e.get('raised'):
      bad('logging-call-raised', error=e['raised'], shape=e.get('shape'))
      continue
    hits = pos.get(e['id'], [])
    if len(hits) != 1:
      bad('message-%s' % ('lost' if not hits else 'recorded-more-than-once'),
          id=e['id'], count=len(hits), shape=e.get('shape'), logger=e['logger'])
      continue
    r = records[hits[0]]
    if e['has_mac']:
      c['mac_cases'] += 1
      if MAC_REF.search(r.message):
        bad('mac-not-redacted', shape=e.get('shape'), message=r.message[:120])
        continue
    if r.message != e['text']:
      bad('message-text-differs', want=e['text'][:120], got=r.message[:120],
          shape=e.get('shape'))
    if r.level != e['level']:
      bad('level-differs', want=e['level'], got=r.level)
    if r.logger_name != e['logger']:
      bad('logger-name-differs', want=e['logger'], got=r.logger_name)
    if r.source != THIS_FILE or r.lineno != e['line']:
      bad('source-location-differs', want=[THIS_FILE, e['line']],
          got=[r.source, r.lineno])
    if not (e['t0'] - 2 <= r.timestamp_millis <= e['t1'] + 2):
      bad('timestamp-out-of-range', want=[e['t0'], e['t1']],
          got=r.timestamp_millis)
    made = (_S.get('created') or {}).get(e['id'])
    if made is not None and r.timestamp_millis != made:
      # the time stamp is that of the message, not of the moment a (slow)
      # handler chain got round to this run's handler
      bad('timestamp-not-the-time-of-emission', created=made,
          got=r.timestamp_millis)
  # per-thread emission order
  by_thread = {}
  for e in expected:
    by_thread.setdefault(e['thread'], []).append(e['id'])
  for th, ids in by_thread.items():
    idx = [pos[i][0] for i in ids if len(pos.get(i, [])) == 1]
    if idx != sorted(idx):
      bad('emission-order-not-preserved', thread=th)
  for f in foreign:
    c['messages_looked_up'] += 1
    if f['id'] in pos:
      bad('foreign-run-message-recorded', id=f['id'], logger=f['logger'])


def record_handlers():
  logs = _S['logs']
  return [h for h in logging.getLogger('openhtf').handlers
          if isinstance(h, logs.RecordHandler)]


class Run:
  """One run on the capture layer (a TestRecord + record handler)."""

  def __init__(self, uid):
    from openhtf.core import test_record
    self.uid = uid
    self.rec = test_record.TestRecord(dut_id='d', station_id='s')
    self.notified = 0
    _S['logs'].initialize_record_handler(uid, self.rec, self._notify)
    self.logger = _S['logs'].get_record_logger_for(uid)
    self.expected = []
    self.open = True

  def _notify(self):
    self.notified += 1

  def close(self):
    _S['logs'].remove_record_handler(self.uid)
    self.open = False


def new_counters():
  return {'messages_emitted': 0, 'messages_looked_up': 0, 'records_judged': 0,
          'mac_cases': 0, 'schedules_paused': 0, 'handler_counts_checked': 0}


def logger_for(kind, run, other_uid):
  logs = _S['logs']
  if kind == 'record':
    return run.logger, True
  if kind == 'child':
    return run.logger.getChild('sub'), True
  if kind == 'grandchild':
    return run.logger.getChild('sub').getChild('deeper'), True
  if kind == 'phase':
    return run.logger.getChild('phase.my_phase'), True
  if kind == 'plug':
    return run.logger.getChild('plug').getChild('MyPlug'), True
  if kind == 'framework':
    return logging.getLogger('openhtf.core.something'), True
  if kind == 'framework_child':
    return logging.getLogger('openhtf').getChild('util').getChild('x'), True
  if kind == 'foreign':
    return logs.get_record_logger_for(other_uid), False
  if kind == 'foreign_child':
    return logs.get_record_logger_for(other_uid).getChild('phase.p'), False
  if kind == 'lookalike':
    # shares the prefix text but is not a record logger name
    return logging.getLogger('openhtf.test_recordings.' + run.uid), True
  if kind == 'prefix_sharing_uid':
    return logs.get_record_logger_for(run.uid + 'x'), False
  raise ValueError(kind)


class cli_logging:
  """What `-vv` sets up: a console handler with the CLI formatter and the MAC
  filter, installed ahead of the record handlers (here writing to a buffer)."""

  def __init__(self, on):
    self.on = on

  def __enter__(self):
    if self.on:
      import io
      logs = _S['logs']
      self.h = logging.StreamHandler(stream=io.StringIO())
      self.h.setFormatter(logs.CliFormatter())
      self.h.setLevel(logging.DEBUG)
      self.h.addFilter(logs.MAC_FILTER)
      created = _S.setdefault('created', {})

      class SlowStationHandler(logging.Handler):
        # a station's own (slow) handler ahead of the record handlers; it also
        # notes when each message was *created*
        def emit(self, record):
          try:
            # formats the record as a station's file handler would (this sets
            # record.message from the unredacted msg / args)
            self.format(record)
            m = re.search(r'MSG\d{6}', record.getMessage())
          except Exception:  # pylint: disable=broad-except
            m = None
          if m:
            created[m.group(0)] = int(record.created * 1000)
            time.sleep(0.012)

      self.slow = SlowStationHandler(level=logging.DEBUG)
      self.slow.setFormatter(logging.Formatter('%(asctime)s %(name)s %(message)s'))
      lg = logging.getLogger('openhtf')
      # 'station': only the station's own handler (a formatter, no MAC filter)
      # sits ahead of the record handlers, no console handler
      ahead = [self.slow] if self.on == 'station' else [self.slow, self.h]
      lg.handlers = ahead + list(lg.handlers)
    return self

  def __exit__(self, *exc):
    if self.on:
      lg = logging.getLogger('openhtf')
      lg.handlers = [h for h in lg.handlers if h is not self.h and
                     h is not self.slow]
    return False


def run_shape(case):
  with cli_logging(case.get('cli')):
    return _run_shape(case)


def _run_shape(case):
  viol, c = [], new_counters()
  uid = UIDS[case['uid']]
  if '.' in uid:
    return {'sig': None, 'violations': [], 'counters': c}
  before = len(record_handlers())
  run = Run(uid)
  other = Run('other-' + uid)
  try:
    lg, mine = logger_for(case['kind'], run, other.uid)
    mac = MACS[case.get('mac', 0)]
    lvl = [logging.DEBUG, logging.INFO, logging.WARNING, logging.ERROR][
        (case['uid'] + len(case['kind'])) % 4]
    e = emit(lg, case['shape'], next(_S['ids']), mac, lvl)
    e['shape'] = case['shape']
    c['messages_emitted'] += 1
    e2 = emit(run.logger, 'plain', next(_S['ids']))
    c['messages_emitted'] += 1
    ctx = {'uid': uid, 'kind': case['kind'], 'shape': case['shape']}
    judge_record(run.rec.log_records, ([e] if mine else []) + [e2],
                 [] if mine else [e], viol, c, ctx)
    if case['kind'] in ('framework', 'framework_child', 'lookalike'):
      judge_record(other.rec.log_records, [e], [e2], viol, c,
                   dict(ctx, view='other run'))
    elif case['kind'] in ('foreign', 'foreign_child'):
      judge_record(other.rec.log_records, [e], [e2], viol, c,
                   dict(ctx, view='other run'))
    else:
      judge_record(other.rec.log_records, [], [e, e2] if mine else [e2], viol, c,
                   dict(ctx, view='other run'))
  finally:
    run.close()
    other.close()
  n1 = len(run.rec.log_records)
  emit(run.logger, 'plain', next(_S['ids']))
  c['handler_counts_checked'] += 1
  if len(run.rec.log_records) != n1:
    viol.append({'mechanism': 'finished-record-altered-by-later-logging',
                 'detail': {'uid': uid}})
  if len(record_handlers()) != before:
    viol.append({'mechanism': 'record-handler-left-behind',
                 'detail': {'count': len(record_handlers()), 'before': before}})
  return {'sig': case, 'violations': viol, 'counters': c}


def run_test(case):
  with cli_logging(case.get('cli')):
    return _run_test(case)


def _run_test(case):
  """Whole Test run: test.logger, plug logger, state logger, framework logger."""
  H = pm.htf()
  viol, c = [], new_counters()
  expected = []
  shape = case['shape']

  class LogPlug(H.plugs.BasePlug):
    def say(self):
      expected.append(dict(emit(self.logger, shape, next(_S['ids'])), shape=shape))

  @H.plugs.plug(p=LogPlug)
  def phase_one(test, p):
    expected.append(dict(emit(test.logger, shape, next(_S['ids'])), shape=shape))
    p.say()
    expected.append(dict(emit(logging.getLogger('openhtf.vf.framework'), shape,
                              next(_S['ids'])), shape=shape))
    expected.append(dict(emit(test.logger, 'plain', next(_S['ids']),
                              level=logging.WARNING), shape='plain'))

  @H.PhaseOptions(requires_state=True)
  def phase_two(state):
    expected.append(dict(emit(state.state_logger, shape, next(_S['ids'])),
                         shape=shape))

  t = H.Test(phase_one, phase_two)
  recs = []
  t.add_output_callbacks(recs.append)
  before = len(record_handlers())
  t.execute()
  pm.prune_handlers()
  c['messages_emitted'] += len(expected)
  if not recs:
    viol.append({'mechanism': 'no-record', 'detail': {}})
  else:
    judge_record(recs[0].log_records, expected, [], viol, c,
                 {'kind': 'whole-test', 'shape': shape})
  c['handler_counts_checked'] += 1
  if len(record_handlers()) != before:
    viol.append({'mechanism': 'record-handler-left-behind',
                 'detail': {'count': len(record_handlers())}})
  return {'sig': case, 'violations': viol, 'counters': c}


_POINTS = {}


class HandlersHook:
  """Pause point *inside* a statement: the 'openhtf' logger's `handlers`
  attribute becomes a property, and a read of it by thread LB can be held before
  the value is used (a pre-emption between the read and the write of
  `logger.handlers = logger.handlers + [h]`, which line events cannot split)."""
  lock = threading.Lock()
  armed = False
  target_hit = None
  hits = 0
  paused = threading.Event()
  resume = threading.Event()
  installed = False

  @classmethod
  def install(cls):
    if cls.installed:
      return
    lg = logging.getLogger('openhtf')
    lg.__dict__['_vf_handlers'] = lg.__dict__.pop('handlers')

    def get(self):
      value = self.__dict__['_vf_handlers']
      if cls.armed and threading.current_thread().name == 'LB':
        with cls.lock:
          cls.hits += 1
          fire = cls.hits == cls.target_hit
        if fire:
          cls.paused.set()
          cls.resume.wait(3.0)
      return value

    def set_(self, value):
      self.__dict__['_vf_handlers'] = value

    lg.__class__ = type('VfHookedLogger', (lg.__class__,),
                        {'handlers': property(get, set_)})
    cls.installed = True

  @classmethod
  def arm(cls, target_hit):
    cls.install()
    cls.hits = 0
    cls.target_hit = target_hit
    cls.paused.clear()
    cls.resume.clear()
    cls.armed = True

  @classmethod
  def disarm(cls):
    cls.armed = False
    cls.resume.set()

  @classmethod
  def run_action_at_pause(cls, action, wait_s=5.0, hold_s=0.2):
    out = {'reached': False, 'blocked': False}
    if not cls.paused.wait(wait_s):
      cls.resume.set()
      return out
    out['reached'] = True
    done = threading.Event()

    def run():
      try:
        action()
      finally:
        done.set()
    th = threading.Thread(target=run, name='vf-action', daemon=True)
    th.start()
    if not done.wait(hold_s):
      out['blocked'] = True
    cls.resume.set()
    out['_thread'] = th
    return out


def run_sched(case):
  """Thread LB is paused inside logs.py while it logs through run B, closes
  run B or starts a new run; meanwhile another run ends / starts / logs.
  After the release every run still open logs one more message (a handler lost
  in the overlap shows as a lost message), then all runs are closed and a
  framework message is emitted (a handler re-installed by the overlap shows as
  a left-behind handler / a finished record still growing)."""
  eng = _S['engine']
  viol, c = [], new_counters()
  action = case['action']
  op = case.get('op', 'log')

  def scenario(target):
    a, b = Run('runA'), Run('runB')
    runs = {'A': a, 'B': b}
    exp = {'A': [], 'B': [], 'C': [], 'D': []}

    def paused_op():
      if op == 'log':
        for _ in range(2):
          exp['B'].append(emit(b.logger.getChild('phase.p'), 'percent_args',
                               next(_S['ids'])))
      elif op == 'close':
        exp['B'].append(emit(b.logger, 'plain', next(_S['ids'])))
        b.close()
      else:   # start: a new run begins on this thread and logs at once
        runs['D'] = Run('runD')
        exp['D'].append(emit(runs['D'].logger, 'plain', next(_S['ids'])))

    def act():
      if action in ('end_a', 'end_a_end_c'):
        a.close()
      elif action == 'start_c':
        runs['C'] = Run('runC')
        exp['C'].append(emit(runs['C'].logger, 'plain', next(_S['ids'])))
      elif action == 'log_a':
        exp['A'].append(emit(a.logger, 'plain', next(_S['ids'])))

    if action == 'end_a_end_c':
      runs['C'] = Run('runC')
    attr = target is not None and target[0][1] == 'attr:openhtf.handlers:read'
    eng.arm(None if attr else target)
    eng.enabled = True
    if attr:
      HandlersHook.arm(target[1])
    elif target is None:
      HandlersHook.arm(None)       # discovery: count LB's reads
    info = {'reached': False, 'blocked': False}
    try:
      tb = threading.Thread(target=paused_op, name='LB')
      tb.start()
      if attr:
        r = HandlersHook.run_action_at_pause(act, wait_s=5, hold_s=0.2)
        info.update(reached=r['reached'], blocked=r['blocked'])
        if r.get('_thread'):
          r['_thread'].join(10)
      elif target is not None:
        r = eng.run_action_at_pause(act, wait_s=5, hold_s=0.2)
        info.update(reached=r['reached'], blocked=r['blocked'])
        if r.get('_thread'):
          r['_thread'].join(10)
      tb.join(10)
      if target is None:
        act()
    finally:
      eng.enabled = False
      eng.release()
      info['attr_reads'] = HandlersHook.hits
      HandlersHook.disarm()
    # every run still open must still capture
    for key, r in sorted(runs.items()):
      if r.open:
        exp[key].append(emit(r.logger.getChild('phase.late'), 'plain',
                             next(_S['ids'])))
    return runs, exp, info

  def close_all(runs):
    for r in runs.values():
      if r.open:
        r.close()

  pkey = (action, op)
  if pkey not in _POINTS:
    runs, _, dinfo = scenario(None)
    pts0 = eng.points(max_hits=2)
    # plus: LB held right after each of its reads of the logger's handler list
    pts0 += [(('LB', 'attr:openhtf.handlers:read', 0), h)
             for h in range(1, min(dinfo.get('attr_reads', 0), 6) + 1)]
    _POINTS[pkey] = pts0
    close_all(runs)
  pts = _POINTS[pkey]
  if case['idx'] >= len(pts):
    return {'sig': None, 'violations': [], 'counters': c, 'evaluations': 0,
            'sample': False}
  target = pts[case['idx']]
  runs, exp, info = scenario(target)
  ctx = {'action': action, 'paused_op': op,
         'point': [list(target[0]), target[1]], 'blocked': info['blocked']}
  c['schedules_paused'] += 1 if info['reached'] else 0
  c['messages_emitted'] += sum(len(v) for v in exp.values())
  for key, r in sorted(runs.items()):
    foreign = [e for k, v in exp.items() if k != key for e in v]
    judge_record(r.rec.log_records, exp[key], foreign, viol, c,
                 dict(ctx, view='run ' + key))
  close_all(runs)
  c['handler_counts_checked'] += 1
  left = record_handlers()
  if left:
    viol.append({'mechanism': 'record-handler-left-behind',
                 'detail': dict(ctx, count=len(left),
                                uids=[str(h.test_uid) for h in left])})
    htf_logger = logging.getLogger('openhtf')
    htf_logger.handlers = [h for h in htf_logger.handlers if h not in left]
  sizes = {k: len(r.rec.log_records) for k, r in runs.items()}
  logging.getLogger('openhtf.core.after').warning('after all runs ended')
  grown = [k for k, r in runs.items() if len(r.rec.log_records) != sizes[k]]
  if grown:
    viol.append({'mechanism': 'finished-record-still-growing',
                 'detail': dict(ctx, runs=grown)})
  return {'sig': ['sched', action, op, list(target[0]), target[1]],
          'violations': viol, 'counters': c}


def run_stress(case):
  """Two runs log from several threads while short-lived runs start and end."""
  import sys
  eng = _S['engine']
  viol, c = [], new_counters()
  rng = random.Random(case['seed'])
  a, b = Run('stressA'), Run('stressB')
  exp = {'A': [], 'B': []}
  lock = threading.Lock()
  stop = threading.Event()

  def worker(run, key, tid):
    lg = run.logger.getChild('phase.p%d' % tid)
    for i in range(case['msgs']):
      e = emit(lg, rng.choice(['plain', 'percent_args', 'mac_in_arg']),
               next(_S['ids']))
      with lock:
        exp[key].append(e)
      if i % 3 == 0:
        time.sleep(0)

  def churn():
    k = 0
    while not stop.is_set():
      r = Run('churn%d' % k)
      emit(r.logger, 'plain', next(_S['ids']))
      r.close()
      k += 1

  old = sys.getswitchinterval()
  sys.setswitchinterval(1e-5)
  eng.arm(None, yield_seed=case['seed'], yield_prob=0.3)
  eng.role_fn = lambda th: th.name if th.name.startswith(('LA', 'LB', 'LC')) else None
  eng.enabled = True
  try:
    ths = []
    for i in range(case['threads']):
      ths.append(threading.Thread(target=worker, args=(a, 'A', i), name='LA%d' % i))
      ths.append(threading.Thread(target=worker, args=(b, 'B', i), name='LB%d' % i))
    ch = threading.Thread(target=churn, name='LC')
    ch.start()
    for t in ths:
      t.start()
    for t in ths:
      t.join(30)
    stop.set()
    ch.join(30)
  finally:
    eng.enabled = False
    eng.role_fn = lambda th: th.name if th.name in ('LB', 'LA') else None
    sys.setswitchinterval(old)
  c['messages_emitted'] += len(exp['A']) + len(exp['B'])
  ctx = {'seed': case['seed']}
  judge_record(a.rec.log_records, exp['A'], exp['B'], viol, c, dict(ctx, view='A'))
  judge_record(b.rec.log_records, exp['B'], exp['A'], viol, c, dict(ctx, view='B'))
  a.close()
  b.close()
  c['handler_counts_checked'] += 1
  if record_handlers():
    viol.append({'mechanism': 'record-handler-left-behind',
                 'detail': dict(ctx, count=len(record_handlers()))})
    for h in record_handlers():
      logging.getLogger('openhtf').removeHandler(h)
  c['yields_injected'] = eng.yields
  return {'sig': case, 'violations': viol, 'counters': c}


def run_seq(case):
  viol, c = [], new_counters()
  H = pm.htf()
  base = len(record_handlers())
  for i in range(case['n']):
    if case['mode'] == 'layer':
      r = Run('seq%d' % i)
      e = emit(r.logger, 'plain', next(_S['ids']))
      c['messages_emitted'] += 1
      judge_record(r.rec.log_records, [e], [], viol, c, {'seq': i})
      r.close()
    else:
      def phase(test):
        test.logger.info('hello')
      t = H.Test(phase)
      t.execute()
      pm.prune_handlers()
    c['handler_counts_checked'] += 1
    if len(record_handlers()) != base:
      viol.append({'mechanism': 'record-handler-left-behind',
                   'detail': {'after_runs': i + 1,
                              'count': len(record_handlers())}})
      break
  return {'sig': case, 'violations': viol, 'counters': c}


CHILD_VERBOSITY = r'''
import json, logging, os, sys
RESULT = sys.argv[1]
sys.argv = ['c19-child'] + ['-' + 'v' * VERBOSITY] * (1 if VERBOSITY else 0)
sys.stdout = open(os.devnull, 'w')  # the console output is not what is judged
import openhtf as htf
from openhtf.util import logs

emitted = []

def say(logger, level, text):
  logger.log(level, text)
  emitted.append([level, text])

class P(htf.plugs.BasePlug):
  def hello(self):
    for lvl in (logging.DEBUG, 15, logging.INFO, logging.WARNING):
      say(self.logger, lvl, 'plug message at %d' % lvl)

@htf.plugs.plug(p=P)
def phase(test, p):
  for lvl in (logging.DEBUG, 15, logging.INFO, logging.WARNING, logging.ERROR):
    say(test.logger, lvl, 'phase message at %d' % lvl)
  p.hello()
  say(logging.getLogger('openhtf.core.vf_framework'), logging.DEBUG,
      'framework message at 10')

recs = []
t = htf.Test(phase)
t.add_output_callbacks(recs.append)
t.execute()
out = [[r.level, r.message] for r in recs[0].log_records]
with open(RESULT, 'w') as f:
  json.dump({'emitted': emitted, 'recorded': out}, f)
'''


def run_verbosity(case):
  """A whole run in a child process started with no -v, -v or -vv: whatever the
  console shows, every message logged through the run's loggers is in the
  record, at every level."""
  import json
  import subprocess
  import sys
  import tempfile
  from vf import harness
  viol, c = [], new_counters()
  d = tempfile.mkdtemp(prefix='vf-c19-')
  script = os.path.join(d, 'child.py')
  with open(script, 'w') as f:
    f.write(CHILD_VERBOSITY.replace('VERBOSITY', str(case['v'])))
  try:
    result = os.path.join(d, 'result.json')
    r = subprocess.run([sys.executable, script, result], env=harness.worker_env(),
                       capture_output=True, text=True, timeout=120)
    try:
      with open(result) as f:
        data = json.load(f)
    except (OSError, ValueError):
      raise RuntimeError('verbosity child failed: ' + r.stderr[-400:])
  finally:
    import shutil
    shutil.rmtree(d, ignore_errors=True)
  recorded = [tuple(x) for x in data['recorded']]
  c['messages_emitted'] += len(data['emitted'])
  c['records_judged'] += 1
  pos = -1
  for lvl, text in data['emitted']:
    c['messages_looked_up'] += 1
    n = recorded.count((lvl, text))
    if n != 1:
      viol.append({'mechanism': 'message-%s' % (
          'lost' if n == 0 else 'recorded-more-than-once'),
                   'detail': {'verbosity': case['v'], 'level': lvl, 'text': text,
                              'count': n}})
      break
    i = recorded.index((lvl, text))
    if i < pos:
      viol.append({'mechanism': 'emission-order-not-preserved',
                   'detail': {'verbosity': case['v'], 'text': text}})
      break
    pos = i
  return {'sig': case, 'violations': viol, 'counters': c}


_EXEC_POINTS = []


def run_exec_sched(case):
  """Whole Test run; the executor thread is held 150 ms at a line it reaches
  (first hit) while the main thread runs on.  A tap on the 'openhtf' logger
  records what the run's own framework threads emit; every such message must
  be in the run's record exactly once (e.g. the executor's last message must
  not be emitted after the record handler was removed)."""
  from vf import abortlab
  from vf.props import c04
  abortlab.lab()
  viol, c = [], new_counters()
  prog, cfg = c04.FAMILY[0]
  if not _EXEC_POINTS:
    d = abortlab.run(prog, cfg, target=None)
    firsts, lasts = [], []
    for key, n in sorted(d['seen'].items()):
      if key[0] == 'exec':
        firsts.append((key, 1))
        if n > 1:
          lasts.append((key, n))     # last hit
    # the quick tier takes the first 450 entries: every line, first hit
    _EXEC_POINTS.extend(firsts + lasts)
  if case['idx'] >= len(_EXEC_POINTS):
    return {'sig': None, 'violations': [], 'counters': c, 'evaluations': 0,
            'sample': False}
  target = _EXEC_POINTS[case['idx']]
  tap = []

  class Tap(logging.Handler):
    def emit(self, record):
      try:
        tap.append((threading.current_thread().name, record.getMessage()))
      except Exception:  # pylint: disable=broad-except
        pass

  h = Tap(level=logging.DEBUG)
  lg = logging.getLogger('openhtf')
  lg.addHandler(h)
  try:
    obs = abortlab.run(prog, cfg, target=target, action='hold')
    pm.settle()     # the tap stays until the run's executor thread is gone
  finally:
    lg.removeHandler(h)
  if not obs['info']['reached'] or not obs['recs'] or obs['hang']:
    return {'sig': None, 'violations': [], 'counters': {'pause_not_reached': 1}}
  rec = obs['recs'][0]
  c['schedules_paused'] += 1
  c['records_judged'] += 1
  recorded = {}
  for r in rec.log_records:
    recorded[r.message] = recorded.get(r.message, 0) + 1
  emitted = {}
  for th, msg in tap:
    emitted[msg] = emitted.get(msg, 0) + 1
  own = [(th, msg) for th, msg in tap if th.startswith('TestExecutorThread')
         or 'PhaseExecutorThread' in th]
  c['messages_emitted'] += len(own)
  for th, msg in own:
    c['messages_looked_up'] += 1
    if recorded.get(msg, 0) != emitted[msg]:
      viol.append({'mechanism': 'framework-message-%s' % (
          'lost' if recorded.get(msg, 0) < emitted[msg] else
          'recorded-more-than-once'),
                   'detail': {'thread': th, 'message': msg[:100],
                              'emitted': emitted[msg],
                              'recorded': recorded.get(msg, 0),
                              'executor_held_at': [list(target[0]), target[1]]}})
      break
  return {'sig': ['exec_sched', list(target[0]), target[1]], 'violations': viol,
          'counters': c}


def run_killed_logger(case):
  """A phase is killed (time-out) while the record handler is saving one of its
  messages (the message takes for ever to format).  Everything logged to the
  run afterwards - by the teardown phase, by a thread using the run's record
  logger, by the framework - still has to be captured exactly once."""
  htf = pm.htf()
  logs = _S['logs']
  vc = pm._H['vc']  # pylint: disable=protected-access
  viol, c = [], new_counters()
  st = {'uid': None, 'in_emit': 0}
  bodies = []
  helper_done = threading.Event()

  class NeverFormatted:

    def __str__(self):
      if any(h.lock._is_owned() for h in record_handlers()):  # pylint: disable=protected-access
        # formatting inside RecordHandler.emit(): stay here until killed
        st['in_emit'] += 1
        me = threading.current_thread()
        with vc.cv:
          vc.hung.add(me)        # the virtual clock jumps to the deadline
          vc.cv.notify_all()
        while True:
          time.sleep(0.0005)
      return 'text'

  @htf.PhaseOptions(timeout_s=10)
  def stuck(test):
    bodies.append(threading.current_thread())
    test.logger.info('before-kill')
    if case['where'] == 'phase_logger':
      test.logger.info('%s', NeverFormatted())
    else:
      logging.getLogger('openhtf.vf_framework_child').warning('%s', NeverFormatted())

  def wrap_up(test):
    test.logger.info('after-kill-1')
    test.logger.warning('after-kill-2')
    rl = [h for h in record_handlers()]
    uid = rl[-1].test_uid if rl else None

    def helper():
      logs.get_record_logger_for(uid).info('helper-after-kill')
      helper_done.set()
    th = threading.Thread(target=helper, name='vf-helper', daemon=True)
    th.start()
    helper_done.wait(3)
    logging.getLogger('openhtf.vf_framework_child').info('framework-after-kill')

  t = htf.Test(htf.PhaseGroup(main=[stuck], teardown=[wrap_up]))
  recs = []
  t.add_output_callbacks(recs.append)
  old_hook = threading.excepthook
  threading.excepthook = lambda a: None
  done = {}

  def runner():
    try:
      done['ret'] = t.execute()
    except BaseException as e:  # pylint: disable=broad-except
      done['exc'] = repr(e)

  th = threading.Thread(target=runner, name='vf-runner', daemon=True)
  try:
    th.start()
    th.join(30)
  finally:
    threading.excepthook = old_hook
    with vc.cv:
      for b in bodies:
        vc.hung.discard(b)
    if not th.is_alive():
      pm.settle()
      pm.prune_handlers()
  ctx = {'where': case['where'], 'killed_inside_emit': st['in_emit']}
  if th.is_alive() or not recs:
    viol.append({'mechanism': 'run-did-not-end-after-logger-was-killed',
                 'detail': dict(ctx, done=done)})
    return {'sig': ['killed_logger', case['where']], 'violations': viol, 'counters': c}
  c['records_judged'] += 1
  c['killed_logger_runs'] = 1 if st['in_emit'] else 0
  msgs = [r.message for r in recs[0].log_records]
  for want in ('before-kill', 'after-kill-1', 'after-kill-2', 'helper-after-kill',
               'framework-after-kill'):
    c['messages_emitted'] += 1
    c['messages_looked_up'] += 1
    n = msgs.count(want)
    if n != 1:
      viol.append({'mechanism': 'message-%s-after-a-logging-thread-was-killed' % (
          'lost' if n == 0 else 'recorded-more-than-once'),
                   'detail': dict(ctx, message=want, count=n, recorded=msgs[-8:])})
      break
  else:
    if msgs.index('after-kill-1') > msgs.index('after-kill-2'):
      viol.append({'mechanism': 'messages-out-of-order', 'detail': ctx})
  return {'sig': ['killed_logger', case['where']], 'violations': viol, 'counters': c}


def run_case(case):
  if case['k'] == 'killed_logger':
    return run_killed_logger(case)
  return {'shape': run_shape, 'test': run_test, 'sched': run_sched,
          'stress': run_stress, 'seq': run_seq,
          'exec_sched': run_exec_sched,
          'verbosity': run_verbosity}[case['k']](case)
