"""C02 — node execution follows docs/event_sequence.md exactly.

Monitor: every program is built from real openhtf objects whose bodies log
their invocations, executed, and the call log plus the phase / subtest /
branch / checkpoint records are compared with the reference interpreter
(vf/progmodel.Model, written from docs/event_sequence.md; doc-silent rules
r1-r12 are listed in DESIGN.md).
"""
import itertools
import json

from vf import progmodel as pm

PROPERTY = 'C02'
LEVEL = 'exploration'
RULE = ('programs = every node tree with <= N nodes over the reduced alphabets '
        '(full: 12 phase kinds = 6 results x {no diagnosis, D1}, 8 checkpoint kinds, '
        '2 branch conditions, N=3 quick / 4 thorough; small: 6 phase kinds, 2 checkpoints, '
        '1 condition, N=3 quick / 4 thorough; containers S/T/B/G count as nodes, empty '
        'containers included) plus '
        'seeded random trees up to depth 3 with the rich phase alphabet (repeats, '
        'measurements, several diagnosers, run_if, PhaseOptions, time-outs under the '
        'virtual clock); each is executed for real and compared with the reference '
        'interpreter on call log, phase/subtest/branch/checkpoint records, diagnoses and '
        'diagnoser call counts; distinct = distinct program; non-trivial = at least one '
        'body invocation or record was compared')
ASSUMPTIONS = [
    'default settings (the quantifier is over programs); settings are varied in C01/C05',
    'doc-silent rules r1-r12 of DESIGN.md are pinned to the unchanged tree',
    'time-outs are driven by the virtual clock (vf/vclock.py)',
]
REQUIRED_COUNTERS = ['programs_run', 'records_compared', 'body_calls_compared']
EXHAUSTIVE = {'quick': True, 'thorough': True}
PLAN = {
    'quick': {'workers': 16, 'budget_s': 60, 'sampled_per_worker': 400,
              'wall_limit_s': 900},
    'thorough': {'workers': 16, 'budget_s': 900, 'sampled_per_worker': 60000,
                 'wall_limit_s': 7200},
}
SPACES = {'quick': [('full', 3), ('small', 3)],
          'thorough': [('full', 4), ('small', 4)]}


def setup():
  pm.htf()


def enumerated(tier):
  for which, n in SPACES[tier]:
    for prog in pm.enum_programs(which, n):
      yield {'prog': prog, 'cfg': {}, 'space': which}
  for case in DIRECTED:
    yield case
  for case in nested_subtests():
    yield case


# Directed shapes named in the statement (kept tiny; the enumeration covers the
# rest): nested groups under failed subtests, teardown nesting, FAIL_SUBTEST.
def _p(pid, **beh):
  return ['P', pid, beh]


DIRECTED = [
    {'prog': [['T', 't', [['G', [_p('s')], [_p('m', r='U'), _p('m2')],
                          [_p('td1'), ['G', [_p('s2')], [_p('m3')], [_p('td2')]]]]]],
              _p('after')], 'cfg': {}},
    {'prog': [['T', 't', [_p('a', r='U'), ['G', [_p('s')], [_p('m')], [_p('td')]],
                          ['B', 'b', 'NOT_ANY', ['D1'], [_p('x')]],
                          ['C', 'c', 'last', 'S']]], _p('after')], 'cfg': {}},
    {'prog': [['G', [_p('s')], [['T', 't', [_p('u', r='U'), _p('v')]], _p('w', r='X')],
               [_p('td1', r='X'), _p('td2'), ['T', 't2', [_p('u2', r='U'), _p('v2')]]]],
              _p('never')], 'cfg': {}},
    {'prog': [['T', 'outer', [_p('f', r='U'), ['T', 'inner', [_p('i1'), _p('i2')]]]],
              _p('after')], 'cfg': {}},
    {'prog': [_p('d', ds=[[['D1', 0], ['D3', 0]]]),
              ['B', 'b1', 'ALL', ['D1', 'D3'], [_p('x1')]],
              ['B', 'b2', 'ANY', ['D2', 'D3'], [_p('x2')]],
              ['B', 'b3', 'NOT_ANY', ['D2'], [_p('x3')]],
              ['B', 'b4', 'NOT_ALL', ['D1', 'D3'], [_p('x4')]],
              ['B', 'b5', 'NOT_ALL', ['D1', 'D2'], [_p('x5')]],
              ['C', 'c1', ['ALL', ['D1', 'D2']], 'S'],
              ['C', 'c2', ['NOT_ANY', ['D1']], 'S'],
              ['C', 'c3', ['NOT_ALL', ['D1', 'D2']], 'S'], _p('never')], 'cfg': {}},
]


def nested_subtests():
  """A subtest nested in a subtest, phases of the inner one between a phase of
  the outer one and a checkpoint / later phase of the outer one."""
  for a, b, b2 in itertools.product(['C', 'F', 'U', 'X'], ['C', 'F', 'U'],
                                    ['C', 'F']):
    for kind, act in itertools.product(['last', 'all', 'sub'], ['U', 'S']):
      for where in ('after_inner', 'inside_inner', 'before_inner'):
        inner = [_p('b', r=b), _p('b2', r=b2)]
        cp = ['C', 'c', kind, act]
        if where == 'inside_inner':
          inner = [inner[0], cp, inner[1]]
          body = [_p('a', r=a), ['T', 'inner', inner], _p('d')]
        elif where == 'after_inner':
          body = [_p('a', r=a), ['T', 'inner', inner], cp, _p('d')]
        else:
          body = [_p('a', r=a), cp, ['T', 'inner', inner], _p('d')]
        yield {'prog': [['T', 'outer', body], _p('z')], 'cfg': {}}


def sampled(tier, rng):
  while True:
    yield {'prog': pm.gen_program(rng, depth=3, width=4, rich=True), 'cfg': {}}


def classify(real, model, keys):
  if 'crash' in keys and real.get('crash'):
    c = real['crash'][0]
    return 'executor-crash:%s@%s' % (c[0], c[1])
  for k in ('calls', 'phases', 'subtests', 'branches', 'checkpoints',
            'diagnoses', 'diag_calls', 'tdiag_calls', 'meas', 'outcome', 'ret',
            'crash'):
    if k in keys:
      return 'differs-from-event-sequence:' + k
  return 'differs-from-event-sequence'


def run_case(case):
  prog, cfg = case['prog'], case.get('cfg') or {}
  real = pm.run_real(prog, cfg)
  model = pm.run_model(prog, cfg)
  keys = pm.diff(real, model)
  viol = []
  if real.get('exc'):
    viol.append({'mechanism': 'execute-raised', 'detail': {'exc': real['exc']}})
  elif keys:
    d = {'keys': keys}
    for k in keys[:3]:
      d['real.' + k] = json.dumps(pm.norm(real.get(k)))[:300]
      d['model.' + k] = json.dumps(pm.norm(model.get(k)))[:300]
    viol.append({'mechanism': classify(real, model, keys), 'detail': d})
  nrec = (len(model['phases']) + len(model['subtests']) + len(model['branches'])
          + len(model['checkpoints']))
  feats = set()
  for n, path in pm.walk(prog):
    feats.add('%s@%s' % (n[0], path[-2]))
  return {'sig': prog if (nrec or model['calls']) else None,
          'violations': viol,
          'counters': {'programs_run': 1, 'records_compared': nrec,
                       'body_calls_compared': len(model['calls']),
                       'terminal_runs': 1 if model['outcome'] not in ('PASS',) else 0,
                       'node_positions': len(feats)}}
