"""C07 — built-in validators accept exactly the values inside the limits.

Monitor: every validator built from the limit pool is probed with the probe
pool and each verdict is compared with an exact (fractions.Fraction) oracle
written from the property statement, not from validators.py.
"""
import copy
import itertools
import math
from fractions import Fraction

PROPERTY = 'C07'
LEVEL = 'exploration'
RULE = ('one case = one validator specification (kind + limit tuple) probed '
        'with the whole probe pool (each bound, nextafter neighbours, +-0.0, '
        '+-inf, NaN, None, +-10**400, bools, strings); evaluations counts '
        'validator(value)/is_marginal(value)/constructor verdicts compared with '
        'the exact-rational oracle; a case is distinct by its specification and '
        'non-trivial when at least one probe was decided by the oracle')
ASSUMPTIONS = [
    'exceptions from a validator on a non-numeric probe count as "not accepted"',
    'within_percent: the declared minimum/maximum must lie within 4 ulp of the exact limits and then decide every probe exactly (only if they cannot be read are probes within 4 ulp of a computed limit "don\'t care")',
    'equals(str): literal + one trailing newline is "don\'t care" (statement)',
    'constructor rejection is demanded only when all limits involved are numbers',
]
REQUIRED_COUNTERS = ['probes', 'ctor_verdicts', 'marginal_verdicts',
                     'derived_compared']
EXHAUSTIVE = {'quick': True, 'thorough': True}
PLAN = {
    'quick': {'workers': 16, 'budget_s': 40, 'sampled_per_worker': 1500},
    'thorough': {'workers': 16, 'budget_s': 300, 'sampled_per_worker': 60000},
}

INF = float('inf')
NAN = float('nan')


def _v():
  from openhtf.util import validators
  from vf import harness
  harness.assert_root(validators)
  return validators


# ------------------------------------------------------------ exact oracle
def is_num(x):
  return isinstance(x, (int, float)) and not (isinstance(x, float) and
                                               math.isnan(x))


def ex(x):
  """Exact value: ('-inf'|'inf') or Fraction."""
  if isinstance(x, float) and math.isinf(x):
    return (1 if x > 0 else -1, Fraction(0))
  return (0, Fraction(x))


def le(a, b):
  return ex(a) <= ex(b)


def in_closed(lo, v, hi):
  return (lo is None or le(lo, v)) and (hi is None or le(v, hi))


def enc(x):
  """JSON-able encoding of a limit/probe value."""
  if isinstance(x, bool):
    return {'b': x}
  if isinstance(x, float):
    return {'f': x.hex() if not math.isnan(x) else 'nan'}
  if isinstance(x, int):
    return {'i': str(x)}
  if x is None:
    return None
  if isinstance(x, str):
    return {'s': x}
  if isinstance(x, (list, tuple)):
    return {'l': [enc(e) for e in x]}
  raise TypeError(x)


def dec(x):
  if x is None:
    return None
  if 'b' in x:
    return x['b']
  if 'f' in x:
    return NAN if x['f'] == 'nan' else float.fromhex(x['f'])
  if 'i' in x:
    return int(x['i'])
  if 's' in x:
    return x['s']
  if 'l' in x:
    return [dec(e) for e in x['l']]
  raise TypeError(x)


LIMITS = [-10, -1.5, -0.0, 0, 1, 2.5, 10, True, False, 2**53, 2**53 + 1, 1e16,
          1e308, -1e308, 5e-324, INF, -INF, 10**30]
SMALL_LIMITS = [-10, -1.5, 0, 1, 2.5, 10, True, 2**53 + 1, INF, -INF]


def probes_for(limits):
  out = [0.0, -0.0, 0, 1, -1, INF, -INF, NAN, None, 10**400, -10**400, True,
         False, 'abc', '5', 0.1, 1e-320]
  for l in limits:
    if l is None or not is_num(l):
      continue
    out.append(l)
    f = float(l) if abs(l) < 1e309 else None
    if f is not None and not math.isinf(f):
      out.append(math.nextafter(f, INF))
      out.append(math.nextafter(f, -INF))
      if isinstance(l, int) and not isinstance(l, bool):
        out.extend([l + 1, l - 1])
  return out


# ------------------------------------------------------------ case generators
def _marginal_choices(lo, hi):
  """Marginal limits: none, on the bound, strictly inside, outside."""
  def inside(a, b):
    if a is None or b is None or not is_num(a) or not is_num(b):
      return []
    if math.isinf(a) or math.isinf(b):
      return []
    mid = (Fraction(a) + Fraction(b)) / 2
    m = float(mid)
    return [m] if le(a, m) and le(m, b) else []
  mmins = [None]
  mmaxs = [None]
  if lo is not None:
    mmins += [lo] + inside(lo, hi if hi is not None else 100)
    if is_num(lo) and not math.isinf(lo):
      mmins.append(lo - 1 if abs(lo) < 1e15 else lo * 2 if lo < 0 else lo / 2)
  else:
    mmins.append(0)
  if hi is not None:
    mmaxs += [hi] + inside(lo if lo is not None else -100, hi)
    if is_num(hi) and not math.isinf(hi):
      mmaxs.append(hi + 1 if abs(hi) < 1e15 else hi * 2 if hi > 0 else hi / 2)
  else:
    mmaxs.append(0)
  return mmins, mmaxs


def enumerated(tier):
  lims = LIMITS if tier == 'thorough' else SMALL_LIMITS
  for lo, hi in itertools.product([None] + lims, repeat=2):
    mmins, mmaxs = _marginal_choices(lo, hi)
    for mmin, mmax in itertools.product(mmins, mmaxs):
      yield {'k': 'in_range', 'lim': [enc(lo), enc(hi), enc(mmin), enc(mmax)]}
    # crossed marginals (marginal minimum above marginal maximum)
    if lo is not None and hi is not None and is_num(lo) and is_num(hi):
      if not math.isinf(lo) and not math.isinf(hi) and le(lo, hi):
        a, b = float(Fraction(lo) * 3 / 4 + Fraction(hi) / 4), float(
            Fraction(lo) / 4 + Fraction(hi) * 3 / 4)
        yield {'k': 'in_range', 'lim': [enc(lo), enc(hi), enc(b), enc(a)]}
  # typed limits given as strings
  for t in ('int', 'float'):
    for lo, hi, mmin, mmax in [('3', '7', None, None), ('3', '7', '4', '6'),
                               ('-2', None, None, None), (None, '7', None, '5'),
                               ('3', '3', None, None), ('0', '10', '0', '10')]:
      if t == 'float':
        f = lambda s: None if s is None else s + '.5'
        lo, hi, mmin, mmax = f(lo), f(hi), f(mmin), f(mmax)
      yield {'k': 'in_range_typed', 't': t,
             'lim': [lo, hi, mmin, mmax]}
  # mixed declarations: one limit textual (a with_args placeholder or a string
  # needing the declared type), the others numbers; the pairs of numbers among
  # them are checked for consistency like in an all-numeric declaration
  for pos in range(4):
    for text in ('{later}', '4'):
      for nums in ((10, 0, 5, 6), (0, 10, 5, 6), (0, 10, -1, 6), (0, 10, 5, 11),
                   (0, 10, 7, 6), (5, 5, 5, 5)):
        lim = list(nums)
        lim[pos] = text
        yield {'k': 'in_range_mixed', 'lim': lim}
  # typed limits given as numbers which the declared type changes (int
  # truncates, 'milli' divides by 1000)
  for t, tup in [('int', (0.5, 10.7, None, None)), ('int', (0.5, 10.9, None, 8.9)),
                 ('int', (-3.9, 3.9, -2.5, 2.5)), ('int', (2.2, None, None, None)),
                 ('milli', (3200, 3400, None, None)),
                 ('milli', (3200, 3400, 3250, 3350)),
                 ('milli', (None, 500, None, 400)), ('float', (3, 7, 4, 6))]:
    yield {'k': 'in_range_typed', 't': t, 'lim': list(tup)}
  # equals / all_equals on numbers
  for v in lims:
    yield {'k': 'equals_num', 'v': enc(v)}
    yield {'k': 'all_equals_num', 'v': enc(v)}
  for lit in ['abc', 'a.c', 'a+', '', 'x\n', '^a$', 'a\\b', '[ab]', ' ', 'ünï',
              '5', 'a|b', '(a)', 'a{2}', '$', '.*']:
    yield {'k': 'equals_str', 'v': lit}
    yield {'k': 'all_equals_str', 'v': lit}
  for i in range(len(OBJ_POOL)):
    yield {'k': 'equals_obj', 'i': i}
    yield {'k': 'all_equals_obj', 'i': i}
  for i in range(len(REGEX_POOL)):
    yield {'k': 'regex', 'i': i}
  for e in [-100, -1.5, 0, 1, 2.5, 100, 1e10, 3, -7, 1e-3, 10**20]:
    for p in [0, 1, 5, 10, 50, 100, 150, 0.1, -1, -0.5]:
      for mp in [None, 0, p / 2 if p > 0 else 1, p, p + 1]:
        yield {'k': 'percent', 'e': enc(e), 'p': enc(p), 'mp': enc(mp)}
  small = [-1, 0, 2.5, 10, True]
  for lo, hi in itertools.product([None] + small, repeat=2):
    yield {'k': 'all_in_range', 'lim': [enc(lo), enc(hi), None, None]}
    if lo is not None and hi is not None and le(lo, hi):
      yield {'k': 'all_in_range', 'lim': [enc(lo), enc(hi), enc(lo), enc(hi)]}
      yield {'k': 'all_in_range', 'lim': [enc(lo), enc(hi), enc(lo - 1), None]}
      yield {'k': 'all_in_range', 'lim': [enc(lo), enc(hi), None, enc(hi + 1)]}
  yield {'k': 'all_in_range', 'lim': [enc(3), enc(1), None, None]}
  yield {'k': 'all_in_range', 'lim': [None, enc(1), enc(0), None]}
  yield {'k': 'all_in_range', 'lim': [enc(0), None, None, enc(1)]}
  yield {'k': 'all_in_range', 'lim': [enc(0), enc(10), enc(8), enc(2)]}
  for n in range(0, 5 if tier == 'quick' else 7):
    for pat in itertools.product([0, 1], repeat=n):
      yield {'k': 'pivot', 'pat': list(pat)}
  for kind in ('in_range', 'equals', 'within_percent', 'matches_regex',
               'all_in_range', 'all_equals', 'dimension_pivot_validate',
               'consistent_end_dimension_pivot_validate'):
    yield {'k': 'registry', 'name': kind}


def sampled(tier, rng):
  """Random float limit tuples and random float probes (beyond the pool)."""
  while True:
    scale = rng.choice([1e-300, 1e-5, 1, 1e5, 1e300])
    a = rng.uniform(-1, 1) * scale
    b = rng.uniform(-1, 1) * scale
    lo, hi = min(a, b), max(a, b)
    c = rng.uniform(0, 1)
    d = rng.uniform(c, 1)
    mmin = lo + (hi - lo) * c * rng.choice([0, 1])
    mmax = lo + (hi - lo) * d
    kind = rng.choice(['in_range', 'in_range', 'percent'])
    if kind == 'in_range':
      yield {'k': 'in_range', 'rand': rng.getrandbits(32),
             'lim': [enc(lo), enc(hi), enc(mmin if mmin <= mmax else None),
                     enc(mmax if rng.random() < .7 else None)]}
    else:
      p = rng.choice([rng.uniform(0, 200), rng.randint(0, 100)])
      yield {'k': 'percent', 'rand': rng.getrandbits(32), 'e': enc(a),
             'p': enc(p), 'mp': enc(rng.choice([None, p * rng.random()]))}


OBJ_POOL = [(1, 2), [1, 2], None, {'a': 1}, b'xy', frozenset([1])]
REGEX_POOL = [
    ('abc', lambda s: s.startswith('abc')),
    (r'\d+', lambda s: s[:1] in tuple('0123456789') and s[:1] != ''),
    ('a|b', lambda s: s[:1] in ('a', 'b') and s[:1] != ''),
    ('^x$', lambda s: s in ('x', 'x\n')),
    ('', lambda s: True),
    ('[A-Z]{2}-', lambda s: len(s) >= 3 and s[0] in 'ABCDEFGHIJKLMNOPQRSTUVWXYZ'
     and s[1] in 'ABCDEFGHIJKLMNOPQRSTUVWXYZ' and s[2] == '-'),
    ('ab*c', lambda s: s[:1] == 'a' and s[1:].lstrip('b')[:1] == 'c'),
]
STR_PROBES = ['abc', 'abcd', 'xabc', ' abc', 'ABC', 'ab', '', '123', '1a', 'a1',
              'a', 'b', 'ba', 'c', 'x', 'x\n', 'x\n\n', 'xx', 'AB-', 'AB-9',
              'aB-', 'ac', 'abbbc', 'abbd', 'bac', 'abc\n', '\nabc', 5, 123,
              None, 1.5, ['abc']]


# ------------------------------------------------------------ running a case
class Ctx:

  def __init__(self, case):
    self.case = case
    self.viol = []
    self.c = {'probes': 0, 'ctor_verdicts': 0, 'marginal_verdicts': 0,
              'derived_compared': 0, 'dont_care': 0, 'exceptions_observed': 0}

  def bad(self, mech, **detail):
    if len(self.viol) < 5:
      self.viol.append({'mechanism': mech, 'detail': detail})


def call(fn, *a):
  try:
    return ('ok', fn(*a))
  except Exception as e:  # pylint: disable=broad-except
    return ('exc', type(e).__name__)


def check_bool(ctx, name, validator, probe, expected):
  """expected: True / False / None (don't care); numeric-ness decides strictness."""
  ctx.c['probes'] += 1
  kind, got = call(validator, probe)
  numeric = isinstance(probe, (int, float)) and not isinstance(probe, str)
  if expected is None:
    ctx.c['dont_care'] += 1
    return kind, got
  if kind == 'exc':
    ctx.c['exceptions_observed'] += 1
    if expected is True or numeric and not (isinstance(probe, float) and math.isnan(probe)):
      ctx.bad('%s:raises:%s' % (name, got), probe=repr(probe),
              expected=expected)
    return kind, got
  if bool(got) != expected:
    ctx.bad('%s:%s' % (name, 'accepts-outside' if got else 'rejects-inside'),
            probe=repr(probe), expected=expected, got=repr(got))
  return kind, got


def ctor_expect(lo, hi, mmin, mmax):
  """'reject' / 'accept' / None for a numeric limit tuple."""
  vals = [x for x in (lo, hi, mmin, mmax) if x is not None]
  if not all(is_num(x) for x in vals):
    return None
  if lo is None and hi is None:
    return 'reject'
  if lo is not None and hi is not None and not le(lo, hi):
    return 'reject'
  if mmin is not None and lo is None:
    return 'reject'
  if mmax is not None and hi is None:
    return 'reject'
  if mmin is not None and not le(lo, mmin):
    return 'reject'
  if mmax is not None and not le(mmax, hi):
    return 'reject'
  if mmin is not None and mmax is not None and not le(mmin, mmax):
    return 'reject'
  # consistent chain lo <= mmin <= mmax <= hi for those present?
  chain = [x for x in (lo, mmin, mmax, hi) if x is not None]
  if all(le(a, b) for a, b in zip(chain, chain[1:])):
    return 'accept'
  return None


def milli(x):
  """A declared limit type that rescales (millivolt -> volt)."""
  return Fraction(x) / 1000 if not isinstance(x, float) else x / 1000.0


def run_in_range(ctx, V, cls_name, lims, build, probes, listy=False):
  lo, hi, mmin, mmax = lims
  exp = ctor_expect(lo, hi, mmin, mmax)
  kind, val = call(build)
  if exp is not None:
    ctx.c['ctor_verdicts'] += 1
    if exp == 'reject' and kind == 'ok':
      ctx.bad(cls_name + ':ctor-accepts-inconsistent', limits=repr(lims))
    if exp == 'accept' and kind == 'exc':
      ctx.bad(cls_name + ':ctor-rejects-consistent', limits=repr(lims), exc=val)
  if kind != 'ok':
    return None
  validator = val
  if exp != 'accept':
    return validator  # grey tuple: only the constructor verdict is specified
  for p in probes:
    if listy:
      continue
    if p is None or (isinstance(p, float) and math.isnan(p)) or isinstance(p, str):
      expected = False
    else:
      expected = in_closed(lo, p, hi)
    k, got = check_bool(ctx, cls_name, validator, p, expected)
    if expected is True and k == 'ok' and got:
      ctx.c['marginal_verdicts'] += 1
      want = ((mmin is not None and in_closed(lo, p, mmin)) or
              (mmax is not None and in_closed(mmax, p, hi)))
      mk, mg = call(validator.is_marginal, p)
      if mk == 'exc':
        ctx.bad('%s:is_marginal-raises:%s' % (cls_name, mg), probe=repr(p))
      elif bool(mg) != want:
        ctx.bad('%s:marginal-mismatch' % cls_name, probe=repr(p), want=want,
                got=repr(mg), limits=repr(lims))
  return validator


def compare_derived(ctx, name, base, derived, probes, how):
  ctx.c['derived_compared'] += 1
  if str(base) != str(derived):
    ctx.bad('%s:derived-%s-prints-differently' % (name, how), base=str(base),
            derived=str(derived))
  eq = call(lambda: base == derived)
  if eq != ('ok', True):
    ctx.bad('%s:derived-%s-not-equal' % (name, how), eq=repr(eq))
  for p in probes:
    a, b = call(base, p), call(derived, p)
    if a != b:
      ctx.bad('%s:derived-%s-decides-differently' % (name, how), probe=repr(p),
              base=repr(a), derived=repr(b))
      break
    if hasattr(base, 'is_marginal'):
      a, b = call(base.is_marginal, p), call(derived.is_marginal, p)
      if a != b:
        ctx.bad('%s:derived-%s-marginal-differently' % (name, how),
                probe=repr(p), base=repr(a), derived=repr(b))
        break


def run_case(case):
  V = _v()
  ctx = Ctx(case)
  k = case['k']
  if k == 'in_range':
    lims = [dec(x) for x in case['lim']]
    probes = probes_for(lims)
    if 'rand' in case:
      import random
      r = random.Random(case['rand'])
      lo, hi = lims[0], lims[1]
      for _ in range(40):
        probes.append(r.uniform(lo - abs(hi - lo), hi + abs(hi - lo))
                      if not math.isinf(hi - lo) else r.uniform(lo, hi))
        probes.extend(math.nextafter(x, r.choice([INF, -INF]))
                      for x in lims if x is not None)
    build = lambda: V.InRange(*lims)
    v = run_in_range(ctx, V, 'in_range', lims, build, probes)
    if v is not None:
      compare_derived(ctx, 'in_range', v, copy.deepcopy(v), probes, 'deepcopy')
      compare_derived(ctx, 'in_range', v, v.with_args(), probes, 'with_args')
      compare_derived(ctx, 'in_range', v, v.with_args(unused=1), probes,
                      'with_args')
      # template form: limits given as '{name}' and substituted
      if (all(x is None or (isinstance(x, (int, float)) and not isinstance(x, bool)
                            and not math.isinf(x)) for x in lims)
          and ctor_expect(*lims) == 'accept'):
        names = ['a', 'b', 'c', 'd']
        tmpl = ['{%s}' % n if x is not None else None
                for n, x in zip(names, lims)]
        kw = {n: x for n, x in zip(names, lims) if x is not None}
        allint = all(isinstance(x, int) for x in kw.values())
        conv = int if allint else float
        kb, base = call(lambda: V.InRange(*tmpl, type=conv))
        if kb == 'ok':
          kd, der = call(lambda: base.with_args(**kw))
          if kd != 'ok':
            ctx.bad('in_range:with_args-raises:%s' % der, limits=repr(lims))
          else:
            ref = V.InRange(*[None if x is None else conv(x) for x in lims])
            ctx.c['derived_compared'] += 1
            if str(der) != str(V.InRange(*[None if x is None else format(x)
                                          for x in lims])):
              ctx.bad('in_range:substituted-prints-differently', der=str(der))
            for p in probes:
              if isinstance(p, str):
                continue
              a, b = call(ref, p), call(der, p)
              if a != b:
                ctx.bad('in_range:substituted-decides-differently',
                        probe=repr(p), ref=repr(a), der=repr(b))
                break
  elif k == 'in_range_typed':
    t = {'int': int, 'float': float, 'milli': milli}[case['t']]
    raw = case['lim']
    lims = [None if x is None else t(x) for x in raw]
    probes = probes_for(lims)
    v = run_in_range(ctx, V, 'in_range_typed', lims,
                     lambda: V.InRange(*raw, type=t), probes)
    if v is not None:
      compare_derived(ctx, 'in_range_typed', v, copy.deepcopy(v), probes,
                      'deepcopy')
      compare_derived(ctx, 'in_range_typed', v, v.with_args(), probes,
                      'with_args')
      want = str(V.InRange(*raw))
      ctx.c['derived_compared'] += 1
      if str(v) != want:
        ctx.bad('in_range_typed:prints-differently', got=str(v), want=want)
  elif k == 'in_range_mixed':
    lo, hi, mmin, mmax = case['lim']
    num = lambda x: isinstance(x, (int, float)) and not isinstance(x, bool)
    bad_pair = ((num(lo) and num(hi) and lo > hi) or
                (num(lo) and num(mmin) and lo > mmin) or
                (num(mmax) and num(hi) and mmax > hi) or
                (num(mmin) and num(mmax) and mmin > mmax))
    ctx.c['ctor_verdicts'] += 1
    kind, v = call(lambda: V.InRange(lo, hi, mmin, mmax, type=int))
    if bad_pair and kind == 'ok':
      ctx.bad('in_range_mixed:ctor-accepts-inconsistent', limits=repr(case['lim']))
    if not bad_pair and kind != 'ok':
      ctx.bad('in_range_mixed:ctor-rejects-consistent', limits=repr(case['lim']),
              exc=v)
  elif k in ('equals_num', 'all_equals_num'):
    val = dec(case['v'])
    probes = probes_for([val])
    if k == 'equals_num':
      v = V.equals(val)
      for p in probes:
        if p is None or isinstance(p, str) or (isinstance(p, float) and math.isnan(p)):
          expected = False
        else:
          expected = ex(p) == ex(val)
        check_bool(ctx, 'equals_num', v, p, expected)
      compare_derived(ctx, 'equals_num', v, copy.deepcopy(v), probes, 'deepcopy')
    else:
      v = V.all_equals(val)
      nums = [p for p in probes if is_num(p)]
      for p in nums:
        for lst in ([p], [val, p], [p, val], []):
          expected = all(ex(x) == ex(val) for x in lst)
          check_bool(ctx, 'all_equals_num', v, lst, expected)
      check_bool(ctx, 'all_equals_num', v, [NAN], False)
      check_bool(ctx, 'all_equals_num', v, [val, None], False)
  elif k in ('equals_str', 'all_equals_str'):
    lit = case['v']
    variants = {lit, lit + '\n', lit + '\n\n', lit + 'x', 'x' + lit,
                lit.upper(), lit.lower(), lit[:-1], lit[1:], '', lit + lit,
                ' ' + lit, lit + ' ', lit.replace('.', 'b'),
                lit.replace('+', ''), lit.replace('a|b', 'a'), 'a', 'b', 'aa',
                'ab', 'ax', 'abc', 'ac', '\n' + lit, lit.strip('^$'), 'a\x08',
                lit.replace('\\', '')}
    def want(s):
      if s == lit:
        return True
      if s == lit + '\n':
        return None
      return False
    if k == 'equals_str':
      v = V.equals(lit)
      for s in sorted(variants):
        check_bool(ctx, 'equals_str', v, s, want(s))
      if lit == '5':
        check_bool(ctx, 'equals_str', v, 6, False)
        check_bool(ctx, 'equals_str', v, 55, False)
      check_bool(ctx, 'equals_str', v, None, False if lit != 'None' else None)
      compare_derived(ctx, 'equals_str', v, copy.deepcopy(v),
                      sorted(variants), 'deepcopy')
    else:
      v = V.all_equals(lit)
      for s in sorted(variants):
        w = want(s)
        check_bool(ctx, 'all_equals_str', v, [lit, s],
                   None if w is None else w)
        check_bool(ctx, 'all_equals_str', v, [s], None if w is None else w)
      check_bool(ctx, 'all_equals_str', v, [lit, lit, lit], True)
      check_bool(ctx, 'all_equals_str', v, [lit], True)
  elif k in ('equals_obj', 'all_equals_obj'):
    obj = OBJ_POOL[case['i']]
    if k == 'equals_obj':
      v = V.equals(obj)
      for j, p in enumerate(OBJ_POOL):
        check_bool(ctx, 'equals_obj', v, p, p == obj)
      check_bool(ctx, 'equals_obj', v, copy.deepcopy(obj), True)
      compare_derived(ctx, 'equals_obj', v, copy.deepcopy(v), OBJ_POOL,
                      'deepcopy')
      v2 = V.Equals('5', type=int)
      check_bool(ctx, 'equals_typed', v2, 5, True)
      check_bool(ctx, 'equals_typed', v2, 6, False)
      check_bool(ctx, 'equals_typed', v2, '5', False)
    else:
      v = V.all_equals(obj)
      for p in OBJ_POOL:
        check_bool(ctx, 'all_equals_obj', v, [obj, p], p == obj)
        check_bool(ctx, 'all_equals_obj', v, [p], p == obj)
      check_bool(ctx, 'all_equals_obj', v, [], True)
  elif k == 'regex':
    rx, pred = REGEX_POOL[case['i']]
    v = V.matches_regex(rx)
    for p in STR_PROBES:
      check_bool(ctx, 'matches_regex', v, str(p) if False else p,
                 bool(pred(str(p))))
    compare_derived(ctx, 'matches_regex', v, copy.deepcopy(v), STR_PROBES,
                    'deepcopy')
    if str(v) != "'x' matches /%s/" % rx:
      ctx.bad('matches_regex:prints-differently', got=str(v))
  elif k == 'percent':
    e, p, mp = dec(case['e']), dec(case['p']), dec(case['mp'])
    reject = p < 0 or (mp is not None and mp >= p)
    ctx.c['ctor_verdicts'] += 1
    kind, v = call(lambda: V.WithinPercent(e, p, mp))
    if reject and kind == 'ok':
      ctx.bad('within_percent:ctor-accepts-inconsistent', e=e, p=p, mp=mp)
    if not reject and kind != 'ok':
      ctx.bad('within_percent:ctor-rejects-consistent', e=e, p=p, mp=mp, exc=v)
    if kind == 'ok' and not reject:
      tol = abs(Fraction(e) * Fraction(p) / 100)
      lo, hi = Fraction(e) - tol, Fraction(e) + tol
      flo, fhi = float(lo), float(hi)
      eps = Fraction(4 * max(math.ulp(flo), math.ulp(fhi), math.ulp(float(e))))
      probes = [flo, fhi, float(e), 0.0, INF, -INF, NAN, None, 1, -1]
      for base in (flo, fhi):
        x = base
        for _ in range(8):
          x = math.nextafter(x, INF)
          probes.append(x)
        x = base
        for _ in range(8):
          x = math.nextafter(x, -INF)
          probes.append(x)
      probes += [float(e) + float(tol) / 2, float(e) - float(tol) / 2,
                 float(e) + 2 * float(tol) + 1, float(e) - 2 * float(tol) - 1]
      if 'rand' in case:
        import random
        r = random.Random(case['rand'])
        span = float(tol) * 2 + abs(float(e)) * 1e-9 + 1e-300
        probes += [float(e) + r.uniform(-span, span) for _ in range(40)]
      if mp:
        mt = float(abs(Fraction(e) * Fraction(mp) / 100))
        probes += [float(e) - mt, float(e) + mt,
                   math.nextafter(float(e) - mt, -INF),
                   math.nextafter(float(e) + mt, INF)]
      # the limits the validator itself declares (what it prints and what the
      # output formats publish): close to the exact ones, and decisive
      dk, dlim = call(lambda: (v.minimum, v.maximum))
      declared = None
      if dk == 'ok' and all(isinstance(x, (int, float)) and not isinstance(x, bool)
                            and math.isfinite(x) for x in dlim):
        declared = (Fraction(dlim[0]), Fraction(dlim[1]))
        if abs(declared[0] - lo) > eps or abs(declared[1] - hi) > eps:
          ctx.bad('within_percent:declared-limits-off', e=e, p=p,
                  declared=[repr(x) for x in dlim])
          declared = None
        else:
          for base in dlim:
            base = float(base)
            probes += [base, math.nextafter(base, INF), math.nextafter(base, -INF)]
      for pr in probes:
        if pr is None or (isinstance(pr, float) and math.isnan(pr)):
          expected = False
        elif isinstance(pr, float) and math.isinf(pr):
          expected = False
        elif declared is not None:
          expected = declared[0] <= Fraction(pr) <= declared[1]
        else:
          d = abs(Fraction(pr) - Fraction(e))
          expected = (True if d <= tol - eps else
                      False if d >= tol + eps else None)
        kk, got = check_bool(ctx, 'within_percent', v, pr, expected)
        mk, mg = call(v.is_marginal, pr)
        if mk == 'ok' and mg:
          ctx.c['marginal_verdicts'] += 1
          if kk == 'ok' and not got:
            ctx.bad('within_percent:marginal-but-rejected', probe=repr(pr),
                    e=e, p=p, mp=mp)
          if expected is False:
            ctx.bad('within_percent:marginal-outside-tolerance',
                    probe=repr(pr), e=e, p=p, mp=mp)
      compare_derived(ctx, 'within_percent', v, copy.deepcopy(v),
                      [x for x in probes if x is not None], 'deepcopy')
      if mp is None:
        f = V.within_percent(e, p)
        compare_derived(ctx, 'within_percent', v, f,
                        [x for x in probes if x is not None], 'factory')
  elif k == 'all_in_range':
    lims = [dec(x) for x in case['lim']]
    lo, hi, mmin, mmax = lims
    v = run_in_range(ctx, V, 'all_in_range', lims,
                     lambda: V.AllInRangeValidator(*lims), [], listy=True)
    if v is not None and ctor_expect(*lims) == 'accept':
      vals = [-2, -1, 0, 1, 2.5, 3, 10, 11, True, INF, -INF,
              math.nextafter(2.5, INF), 10**400]
      for n in (0, 1, 2):
        for lst in itertools.product(vals, repeat=n):
          lst = list(lst)
          expected = all(in_closed(lo, x, hi) for x in lst)
          kk, got = check_bool(ctx, 'all_in_range', v, lst, expected)
          if expected and kk == 'ok' and got:
            ctx.c['marginal_verdicts'] += 1
            want = any((mmin is not None and in_closed(lo, x, mmin)) or
                       (mmax is not None and in_closed(mmax, x, hi))
                       for x in lst)
            mk, mg = call(v.is_marginal, lst)
            if mk != 'ok' or bool(mg) != want:
              ctx.bad('all_in_range:marginal-mismatch', probe=repr(lst),
                      want=want, got=repr((mk, mg)), limits=repr(lims))
      check_bool(ctx, 'all_in_range', v, [NAN], False)
      check_bool(ctx, 'all_in_range', v, [1, NAN], False)
      check_bool(ctx, 'all_in_range', v, [None], False)
      compare_derived(ctx, 'all_in_range', v, copy.deepcopy(v),
                      [[0], [1, 11], []], 'deepcopy') if False else None
      d = copy.deepcopy(v)
      ctx.c['derived_compared'] += 1
      if str(d) != str(v) or any(call(d, l) != call(v, l)
                                 for l in ([0], [1, 11], [], [2.5, 10])):
        ctx.bad('all_in_range:derived-deepcopy-differs')
  elif k == 'pivot':
    pat = case['pat']
    sub = V.InRange(0, 10)
    rows = [(i, 'dim', 5 if ok else 50) for i, ok in enumerate(pat)]
    dp = V.dimension_pivot_validate(sub)
    ce = V.consistent_end_dimension_pivot_validate(sub)
    check_bool(ctx, 'dimension_pivot', dp, rows, all(pat))
    first = pat.index(1) if 1 in pat else None
    check_bool(ctx, 'consistent_end_pivot', ce, rows,
               first is not None and all(pat[first:]))
    for name, val in (('dimension_pivot', dp), ('consistent_end_pivot', ce)):
      d = copy.deepcopy(val)
      ctx.c['derived_compared'] += 1
      if str(d) != str(val) or call(d, rows) != call(val, rows):
        ctx.bad(name + ':derived-deepcopy-differs')
    if str(sub) not in str(dp) or str(sub) not in str(ce):
      ctx.bad('pivot:limits-not-printed', dp=str(dp), ce=str(ce))
    # rows that carry marginal / boundary values
    rows2 = [(0, 0), (1, 10), (2, math.nextafter(10, INF))]
    check_bool(ctx, 'dimension_pivot', dp, rows2[:2], True)
    check_bool(ctx, 'dimension_pivot', dp, rows2, False)
    # a coordinate explicitly set to None never passes a numeric range
    for j in range(len(rows) + 1):
      rows3 = rows[:j] + [(99, 'dim', None)] + rows[j:]
      check_bool(ctx, 'dimension_pivot', dp, rows3, False)
      pat3 = list(pat[:j]) + [0] + list(pat[j:])
      first3 = pat3.index(1) if 1 in pat3 else None
      check_bool(ctx, 'consistent_end_pivot', ce, rows3,
                 first3 is not None and all(pat3[first3:]))
  elif k == 'registry':
    name = case['name']
    from openhtf.core import measurements
    ctx.c['derived_compared'] += 1
    sub = V.InRange(0, 10)
    args = {'in_range': (0, 10), 'equals': (5,), 'within_percent': (10, 10),
            'matches_regex': ('ab',), 'all_in_range': (0, 10),
            'all_equals': (5,), 'dimension_pivot_validate': (sub,),
            'consistent_end_dimension_pivot_validate': (sub,)}[name]
    good = {'in_range': 10, 'equals': 5, 'within_percent': 11,
            'matches_regex': 'abc', 'all_in_range': [0, 10], 'all_equals': [5],
            'dimension_pivot_validate': [(1, 5)],
            'consistent_end_dimension_pivot_validate': [(1, 50), (2, 5)]}[name]
    bad = {'in_range': 10.5, 'equals': 6, 'within_percent': 11.5,
           'matches_regex': 'xab', 'all_in_range': [0, 11], 'all_equals': [5, 6],
           'dimension_pivot_validate': [(1, 5), (2, 50)],
           'consistent_end_dimension_pivot_validate': [(1, 5), (2, 50)]}[name]
    if not V.has_validator(name):
      ctx.bad('registry:missing', name=name)
    else:
      m = getattr(measurements.Measurement('m'), name)(*args)
      v = m.validators[0]
      check_bool(ctx, 'registry:' + name, v, good, True)
      check_bool(ctx, 'registry:' + name, v, bad, False)
      direct = V.create_validator(name, *args)
      if str(direct) != str(v):
        ctx.bad('registry:prints-differently', name=name)
  else:
    raise ValueError(k)
  nontrivial = ctx.c['probes'] - ctx.c['dont_care'] + ctx.c['ctor_verdicts']
  return {'sig': case if nontrivial else None,
          'evaluations': max(1, ctx.c['probes'] + ctx.c['ctor_verdicts'] +
                             ctx.c['derived_compared']),
          'violations': ctx.viol, 'counters': ctx.c}
