"""C11 — runs are isolated: descriptors are never mutated, derived phases are copies.

Monitors:
 (derive)  every derive/decorate operation on a richly declared source phase
           (or collection) x every modification of the derived object's public
           surface: a deep structural fingerprint of the source must not change,
           and the derived object must not be the source;
 (runs)    generated programs executed 2-3 times on one Test object: the
           fingerprint of the declared tree/options is unchanged by execute()
           and every run's record (modulo time stamps and uids) equals the
           first; every run starts from UNSET measurements, an empty state dict
           and an empty diagnoses store;
 (pair)    two tests with distinct markers executed concurrently in one process
           under yield injection: no record or in-phase view contains a marker
           of the other test.
"""
import enum
import itertools
import logging
import random
import sys
import threading
import time
import types

from vf import progmodel as pm

PROPERTY = 'C11'
LEVEL = 'exploration'
RULE = ('(derive) all pairs (derive operation, modification) over 24 derive operations '
        '(with_args, with_plugs matching / non-matching, PhaseOptions, measures, diagnose, plug, '
        'wrap_or_copy, load_code_info, nesting into PhaseSequence / Subtest / BranchSequence / '
        'PhaseGroup / Test, collection-level with_args / with_plugs / load_code_info / '
        'apply_to_all_phases / PhaseGroup.with_context / wrap) and 14 modifications (options '
        'attributes, list/dict containers, builder methods of measurement entries, running the '
        'derived or the source phase), enumerated completely; (runs) directed and seeded E1 '
        'programs x settings executed 2-3 times (nested mutable metadata updated in place by a '
        'phase; a plug constructor failing in the first run only), optionally preceded by a diagnosis and a '
        'measurement with a conditional validator keyed on it; (pair) seeded pairs of concurrent tests under '
        'yield injection; distinct = distinct case; non-trivial = a fingerprint or record '
        'comparison was made')
ASSUMPTIONS = [
    'caches (_cached* fields) are not part of the fingerprint',
    'functions, classes and enum members are fingerprinted by identity',
]
REQUIRED_COUNTERS = ['derive_pairs', 'fingerprints_compared', 'reruns_compared',
                     'concurrent_pairs', 'marker_checks', 'monitor_share_runs']
EXHAUSTIVE = {'quick': True, 'thorough': True}
PLAN = {
    'quick': {'workers': 16, 'budget_s': 50, 'sampled_per_worker': 60,
              'wall_limit_s': 900},
    'thorough': {'workers': 16, 'budget_s': 600, 'sampled_per_worker': 2500,
                 'wall_limit_s': 7200},
}
_S = {}


def setup():
  pm.htf()


# ------------------------------------------------------------------ fingerprint
def fingerprint(obj, _seen=None, _depth=0):
  import attr
  if _seen is None:
    _seen = {}
  if obj is None or isinstance(obj, (bool, int, float, str, bytes)):
    return repr(obj)
  if isinstance(obj, enum.Enum):
    return 'enum:%s.%s' % (type(obj).__name__, obj.name)
  if isinstance(obj, (types.FunctionType, types.BuiltinFunctionType, type,
                      types.MethodType, types.ModuleType)):
    return 'callable:%s@%x' % (getattr(obj, '__qualname__', repr(obj)), id(obj))
  if id(obj) in _seen:
    return 'ref:%d' % _seen[id(obj)]
  _seen[id(obj)] = len(_seen)
  if _depth > 12:
    return 'deep:%s' % type(obj).__name__
  if isinstance(obj, (list, tuple)):
    return [type(obj).__name__] + [fingerprint(x, _seen, _depth + 1) for x in obj]
  if isinstance(obj, dict):
    return {'dict': sorted((repr(k), fingerprint(v, _seen, _depth + 1))
                           for k, v in obj.items())}
  if isinstance(obj, (set, frozenset)):
    return {'set': sorted(repr(x) for x in obj)}
  if type(obj).__module__.startswith(('threading', '_thread', 're', 'logging',
                                      'functools', 'weakref')):
    if type(obj).__name__ == 'partial':
      return {'partial': [fingerprint(obj.func, _seen, _depth + 1),
                          fingerprint(obj.args, _seen, _depth + 1),
                          fingerprint(obj.keywords, _seen, _depth + 1)]}
    return 'opaque:%s' % type(obj).__name__
  fields = {}
  if attr.has(type(obj)):
    for f in attr.fields(type(obj)):
      if f.name.startswith('_cached'):
        continue
      try:
        fields[f.name] = fingerprint(getattr(obj, f.name), _seen, _depth + 1)
      except Exception as e:  # pylint: disable=broad-except
        fields[f.name] = 'unreadable:%s' % type(e).__name__
  else:
    names = []
    for klass in type(obj).__mro__:
      names.extend(getattr(klass, '__slots__', ()) or ())
    d = getattr(obj, '__dict__', None)
    if d:
      names.extend(d.keys())
    for n in sorted(set(names)):
      if n.startswith('_cached') or n in ('__weakref__', '__dict__'):
        continue
      try:
        fields[n] = fingerprint(getattr(obj, n), _seen, _depth + 1)
      except Exception:  # pylint: disable=broad-except
        pass
  return {'obj:' + type(obj).__name__: fields}


def first_diff(a, b, path=''):
  if type(a) is not type(b):
    return '%s: %r vs %r' % (path, str(a)[:60], str(b)[:60])
  if isinstance(a, dict):
    for k in sorted(set(a) | set(b), key=repr):
      if k not in a or k not in b:
        return '%s.%s: only on one side' % (path, k)
      d = first_diff(a[k], b[k], '%s.%s' % (path, k))
      if d:
        return d
    return None
  if isinstance(a, list):
    if len(a) != len(b):
      return '%s: length %d vs %d' % (path, len(a), len(b))
    for i, (x, y) in enumerate(zip(a, b)):
      d = first_diff(x, y, '%s[%d]' % (path, i))
      if d:
        return d
    return None
  return None if a == b else '%s: %r vs %r' % (path, str(a)[:60], str(b)[:60])


# ------------------------------------------------------------------ derive
class DR(enum.Enum):
  pass


def make_source():
  H = pm.htf()
  from openhtf.core import base_plugs

  class BasePlugA(H.plugs.BasePlug):
    auto_placeholder = True

    def tearDown(self):
      pass

  class SubPlugA(BasePlugA):
    pass

  class OtherPlug(H.plugs.BasePlug):
    pass

  class R1(H.DiagResultEnum):
    X = 'c11_x'

  class R2(H.DiagResultEnum):
    Y = 'c11_y'

  @H.PhaseDiagnoser(R1)
  def d1(phase_record):
    return None

  @H.PhaseDiagnoser(R2)
  def d2(phase_record):
    return None

  def body(test, p, k=0):
    test.measurements.m1 = 5
    test.measurements.m2[0] = 1
    test.logger.info('ran with k=%s', k)

  body.__name__ = 'source_phase'
  src = H.PhaseOptions(timeout_s=5, repeat_limit=2)(body)
  src = H.plugs.plug(p=BasePlugA)(src)
  src = H.measures(H.Measurement('m1').in_range(0, 10).doc('first {k}'),
                   H.Measurement('m2').with_dimensions('x'))(src)
  src = H.diagnose(d1)(src)
  src = src.with_args(k=1)

  def other(test):
    pass

  return {'src': src, 'other': other, 'SubPlugA': SubPlugA, 'OtherPlug': OtherPlug,
          'BasePlugA': BasePlugA, 'd2': d2, 'R1': R1}


def derive_ops(ctx):
  H = pm.htf()
  pd = pm._H['pd']  # pylint: disable=protected-access
  src, other = ctx['src'], ctx['other']
  cond = H.DiagnosisCondition.on_any(ctx['R1'].X)
  ident = lambda p: p
  ops = {
      'with_args': lambda: src.with_args(k=2, unknown=3),
      'with_args_empty': lambda: src.with_args(),
      'with_plugs_matching': lambda: src.with_plugs(p=ctx['SubPlugA']),
      'with_plugs_non_matching': lambda: src.with_plugs(zzz=ctx['SubPlugA']),
      'with_plugs_empty': lambda: src.with_plugs(),
      'PhaseOptions': lambda: H.PhaseOptions(timeout_s=9, name='renamed')(src),
      'PhaseOptions_empty': lambda: H.PhaseOptions()(src),
      'measures': lambda: H.measures(H.Measurement('extra'))(src),
      'diagnose': lambda: H.diagnose(ctx['d2'])(src),
      'plug': lambda: H.plugs.plug(q=ctx['OtherPlug'])(src),
      'wrap_or_copy': lambda: pd.PhaseDescriptor.wrap_or_copy(src),
      'wrap_or_copy_options': lambda: pd.PhaseDescriptor.wrap_or_copy(
          src, timeout_s=1),
      'load_code_info': lambda: src.load_code_info(),
      'apply_to_all_phases_identity': lambda: H.PhaseSequence(src).apply_to_all_phases(ident).nodes[0],
      'PhaseSequence': lambda: H.PhaseSequence(src, other).nodes[0],
      'Subtest': lambda: H.Subtest('st', src).nodes[0],
      'BranchSequence': lambda: H.BranchSequence(cond, src).nodes[0],
      'PhaseGroup_main': lambda: H.PhaseGroup(main=[src]).main.nodes[0],
      'PhaseGroup_teardown': lambda: H.PhaseGroup(setup=[other], teardown=[src]).teardown.nodes[0],
      'PhaseGroup_with_context': lambda: H.PhaseGroup.with_context([src], [other])(other).setup.nodes[0],
      'PhaseGroup_wrap': lambda: H.PhaseGroup(setup=[src]).wrap(other).setup.nodes[0],
      'Test': lambda: H.Test(src).descriptor.phase_sequence.nodes[0],
      'sequence_with_args': lambda: H.PhaseSequence(src).with_args(k=7).nodes[0],
      'sequence_with_plugs': lambda: H.PhaseSequence(src).with_plugs(p=ctx['SubPlugA']).nodes[0],
      'sequence_load_code_info': lambda: H.PhaseSequence(src).load_code_info().nodes[0],
      'group_with_args': lambda: H.PhaseGroup(main=[src]).with_args(k=8).main.nodes[0],
      # a collection derived with *no* overrides (e.g. **station_overrides == {})
      # the *collection* is the source here: returns (source collection, the
      # phase of the derived collection that the modification is applied to)
      'sequence_with_args_empty': lambda: (
          lambda seq: (seq, seq.with_args().nodes[0]))(H.PhaseSequence(src)),
      'subtest_with_args_empty': lambda: (
          lambda st: (st, st.with_args().nodes[0]))(H.Subtest('st', src)),
      'group_with_args_empty': lambda: (
          lambda g: (g, g.with_args().setup.nodes[0]))(H.PhaseGroup(setup=[src])),
      'sequence_with_plugs_empty': lambda: (
          lambda seq: (seq, seq.with_plugs().nodes[0]))(H.PhaseSequence(src)),
      'sequence_with_args_kw': lambda: (
          lambda seq: (seq, seq.with_args(k=9).nodes[0]))(H.PhaseSequence(src)),
      'nested_sequence_copy': lambda: H.PhaseSequence(H.PhaseSequence(src)).nodes[0].nodes[0],
  }
  return ops


def modify_ops(ctx):
  H = pm.htf()

  def run(phase):
    t = H.Test(phase)
    t.execute()
    pm.prune_handlers()

  mods = {
      'options.timeout_s': lambda d: setattr(d.options, 'timeout_s', 77),
      'options.name': lambda d: setattr(d.options, 'name', 'changed'),
      'options.update': lambda d: d.options.update(repeat_limit=9, force_repeat=True),
      'measurements.append': lambda d: d.measurements.append(H.Measurement('added')),
      'measurements.pop': lambda d: d.measurements.pop(),
      'plugs.clear': lambda d: d.plugs.clear(),
      'diagnosers.append': lambda d: d.diagnosers.append(ctx['d2']),
      'extra_kwargs.set': lambda d: d.extra_kwargs.__setitem__('k', 99),
      'entry:measurement.in_range': lambda d: d.measurements[0].in_range(1, 2),
      'entry:measurement.with_units': lambda d: d.measurements[0].with_units('V'),
      'entry:measurement.doc': lambda d: d.measurements[0].doc('changed doc'),
      'entry:plug.update_kwargs': lambda d: setattr(d.plugs[0], 'update_kwargs', False),
      'run_derived': lambda d: run(H.PhaseOptions(name='run_d')(d).with_plugs(
          p=ctx['SubPlugA']) if any(getattr(p.cls, 'auto_placeholder', False) and
                                    p.cls.__name__ == 'BasePlugA'
                                    for p in d.plugs) else d),
      'none': lambda d: None,
  }
  return mods


DERIVES = ['with_args', 'with_args_empty', 'with_plugs_matching',
           'with_plugs_non_matching', 'with_plugs_empty', 'PhaseOptions',
           'PhaseOptions_empty', 'measures', 'diagnose', 'plug', 'wrap_or_copy',
           'wrap_or_copy_options', 'load_code_info',
           'apply_to_all_phases_identity', 'PhaseSequence', 'Subtest',
           'BranchSequence', 'PhaseGroup_main', 'PhaseGroup_teardown',
           'PhaseGroup_with_context', 'PhaseGroup_wrap', 'Test',
           'sequence_with_args', 'sequence_with_plugs',
           'sequence_load_code_info', 'group_with_args', 'nested_sequence_copy',
           'sequence_with_args_empty', 'subtest_with_args_empty',
           'group_with_args_empty', 'sequence_with_plugs_empty',
           'sequence_with_args_kw']
MODS = ['options.timeout_s', 'options.name', 'options.update',
        'measurements.append', 'measurements.pop', 'plugs.clear',
        'diagnosers.append', 'extra_kwargs.set', 'entry:measurement.in_range',
        'entry:measurement.with_units', 'entry:measurement.doc',
        'entry:plug.update_kwargs', 'run_derived', 'none']


def enumerated(tier):
  for d in DERIVES:
    for m in MODS:
      yield {'k': 'derive', 'derive': d, 'mod': m}
  for prog, cfg in RUN_PROGS:
    yield {'k': 'runs', 'prog': prog, 'cfg': cfg, 'n': 3}
    yield {'k': 'runs', 'prog': prog, 'cfg': cfg, 'n': 3, 'cond': True}
  for prog, cfg in ALT_START_PROGS:
    yield {'k': 'runs', 'prog': prog, 'cfg': cfg, 'n': 4, 'alt_start': True}
  yield {'k': 'pair', 'seed': None}
  yield {'k': 'pair', 'seed': 1}
  # one @monitors decorator object wraps two phases, one of them derived with
  # with_args(); what the monitor of one phase is given must not depend on
  # which phase ran before, in this run, an earlier run or another test
  for order in ('plain_first', 'boosted_first'):
    for other in (False, True):
      yield {'k': 'monshare', 'order': order, 'other_test': other}


def _p(pid, **beh):
  return ['P', pid, beh]


RUN_PROGS = [
    ([_p('a', m='pass', ds=[[['D1', 0]]]), _p('b', m='fail'),
      ['B', 'br', 'ANY', ['D1'], [_p('c', m='marginal')]]], {}),
    ([_p('a', r=['R', 'C'], m='unset'), ['T', 't', [_p('u', r='U'), _p('v')]]], {}),
    ([['G', [_p('s')], [_p('m', r='X', m='pass')], [_p('t')]]], {'tdiag': 'fail'}),
    ([_p('a', r='T'), _p('b')], {}),
    ([_p('a', plugs=[0], m='pass'), _p('b', plugs=[0, 1])], {'start': _p('st', m='pass')}),
    ([_p('a', opts={'force_repeat': True, 'repeat_limit': 2}, m='fail')], {'sof': 'opt'}),
    # a plug constructor that fails in the first run only (equipment absent)
    ([_p('a', plugs=[0], m='pass'), _p('b', plugs=[0, 1])],
     {'plugs': {'0': 'ctor_raise_once'}}),
    ([_p('a', plugs=[1])], {'start': _p('st', plugs=[0]),
                            'plugs': {'0': 'ctor_raise_once'}}),
]
# programs whose start trigger needs a plug no test phase uses; the trigger is
# used in every other run only
ALT_START_PROGS = [
    ([_p('a', plugs=[1]), _p('b', plugs=[1, 2])], {'start': _p('st', plugs=[0])}),
    ([_p('a')], {'start': _p('st', plugs=[0, 1], m='pass')}),
]


def sampled(tier, rng):
  while True:
    r = rng.random()
    if r < .6:
      yield {'k': 'runs', 'prog': pm.gen_program(rng, depth=2, width=3),
             'cfg': pm.gen_cfg(rng), 'n': 2, 'cond': rng.random() < .5}
    else:
      yield {'k': 'pair', 'seed': rng.getrandbits(32)}


def new_counters():
  return {'derive_pairs': 0, 'fingerprints_compared': 0, 'reruns_compared': 0,
          'concurrent_pairs': 0, 'marker_checks': 0}


def run_derive(case):
  viol, c = [], new_counters()
  ctx = make_source()
  src = ctx['src']
  before = fingerprint(src)
  c['derive_pairs'] = 1
  dname, mname = case['derive'], case['mod']
  try:
    derived = derive_ops(ctx)[dname]()
  except Exception as e:  # pylint: disable=broad-except
    return {'sig': case, 'violations': [{
        'mechanism': 'derive-operation-raised:%s' % type(e).__name__,
        'detail': {'derive': dname, 'error': str(e)[:120]}}], 'counters': c}
  if isinstance(derived, tuple):
    # the operation was applied to a collection: that collection is the source
    src, derived = derived
    before = fingerprint(src)
    if any(n is derived for n, _ in [(x, 0) for x in src.all_phases()]):
      viol.append({'mechanism': 'derived-object-is-the-source:' + dname,
                   'detail': {'derive': dname}})
  c['fingerprints_compared'] += 1
  d0 = first_diff(before, fingerprint(src))
  if d0:
    viol.append({'mechanism': 'source-changed-by-deriving:' + dname,
                 'detail': {'diff': d0}})
  if derived is src:
    viol.append({'mechanism': 'derived-object-is-the-source:' + dname,
                 'detail': {'derive': dname}})
  try:
    modify_ops(ctx)[mname](derived)
    mod_exc = None
  except Exception as e:  # pylint: disable=broad-except
    mod_exc = '%s: %s' % (type(e).__name__, str(e)[:100])
  c['fingerprints_compared'] += 1
  d1 = first_diff(before, fingerprint(src))
  if d1 and not d0:
    kind = ('source-changed-through-shared-list-entry'
            if mname.startswith('entry:') and derived is not src else
            'source-changed-by-modifying-derived')
    if derived is src:
      kind = 'source-changed-because-derived-is-source'
    viol.append({'mechanism': '%s:%s' % (kind, dname) if kind !=
                 'source-changed-through-shared-list-entry' else kind,
                 'detail': {'derive': dname, 'mod': mname, 'diff': d1}})
  if mname == 'run_derived' and mod_exc:
    viol.append({'mechanism': 'running-derived-phase-raised',
                 'detail': {'derive': dname, 'error': mod_exc}})
  return {'sig': case, 'violations': viol, 'counters': c}


# ------------------------------------------------------------------ runs
def scrub(obs):
  keep = {k: obs.get(k) for k in ('outcome', 'phases', 'subtests', 'branches',
                                  'checkpoints', 'meas', 'diagnoses', 'details',
                                  'calls', 'ret', 'tdiag_calls', 'diag_calls')}
  return pm.norm(keep)


def run_runs(case):
  H = pm.htf()
  CONF = pm._H['CONF']  # pylint: disable=protected-access
  viol, c = [], new_counters()
  prog, cfg = case['prog'], case['cfg']
  b = pm.Built(prog, cfg)
  seen_at_start = []

  def probe(test):
    # what a fresh run must look like when its first phase starts
    seen_at_start.append({
        'state': dict(test.state),
        'diag': [r.name for r in pm._H['R'] if test.diagnoses_store.has_diagnosis_result(r)],  # pylint: disable=protected-access
        'prev_meas': test.get_measurement('m_a') is not None,
        'phases': len(test.test_record.phases),
        'logs': sum(1 for l in test.test_record.log_records
                    if 'marker-from-probe' in l.message),
        'metadata': 'leak' in test.test_record.metadata,
        'nested_metadata': (len(test.test_record.metadata['vf_nested']['hist']) +
                            test.test_record.metadata['vf_nested']['count']['n']),
    })
    test.state['leak'] = 'from-an-earlier-run'
    test.test_record.metadata['leak'] = 'from-an-earlier-run'
    # in-place updates of nested values the Test was declared with
    test.test_record.metadata['vf_nested']['hist'].append('from-an-earlier-run')
    test.test_record.metadata['vf_nested']['count']['n'] += 1
    test.logger.info('marker-from-probe')

  head = [probe]
  if case.get('cond'):
    # a diagnosis made early in the run and, after it, a measurement whose
    # conditional validator is keyed on it: what execute() attaches for this
    # run must not end up in the declared measurement
    class CondRes(H.DiagResultEnum):
      SEEN = 'vf_c11_seen'

    @H.PhaseDiagnoser(CondRes, name='vf_cond_diag')
    def cond_diag(phase_record):
      return H.Diagnosis(CondRes.SEEN, 'seen')

    def vf_diag(test):
      pass

    @H.measures(H.Measurement('vf_cond').validate_on(
        {CondRes.SEEN: H.util.validators.in_range(0, 1)}))
    def vf_cond(test):
      test.measurements.vf_cond = 1

    # the same in a phase that is only *recorded as skipped* (its subtest has
    # failed): building its record must not touch the declared measurement
    def vf_fail_sub(test):
      return H.PhaseResult.FAIL_SUBTEST

    @H.measures(H.Measurement('vf_cond_skipped').validate_on(
        {CondRes.SEEN: H.util.validators.in_range(0, 1)}))
    def vf_cond_skipped(test):
      test.measurements.vf_cond_skipped = 1

    head += [H.diagnose(cond_diag)(vf_diag), vf_cond,
             H.Subtest('vf_failed_sub', vf_fail_sub, vf_cond_skipped)]
  t = H.Test(*(head + b.nodes), vf_nested={'hist': [], 'count': {'n': 0}})
  plug_loggers = {cls: cls.logger for cls in b.plug_classes.values()}
  if cfg.get('sof') == 'opt':
    t.configure(stop_on_first_failure=True)
  recs = []
  t.add_output_callbacks(recs.append)
  conf = {}
  if cfg.get('sof') == 'conf':
    conf['stop_on_first_failure'] = True
  if cfg.get('allow_unset'):
    conf['allow_unset_measurements'] = True
  fp0 = fingerprint([t.descriptor.phase_sequence, t._test_options,  # pylint: disable=protected-access
                     b.start])
  plug_types0 = set(t.descriptor.plug_types)
  first = None
  for i in range(case['n']):
    b.ctr.clear()
    b.diag_calls.clear()
    del b.log.events[:]
    del recs[:]

    # alt_start: the start trigger is used in every other run only
    use_start = b.start if not (case.get('alt_start') and i % 2) else None

    @CONF.save_and_restore(**conf)
    def go():
      return t.execute(test_start=use_start)
    try:
      ret = go()
    except Exception as e:  # pylint: disable=broad-except
      viol.append({'mechanism': 'execute-raised:%s' % type(e).__name__,
                   'detail': {'run': i, 'error': str(e)[:120]}})
      break
    pm.prune_handlers()
    if set(t.descriptor.plug_types) != plug_types0:
      viol.append({'mechanism': 'declared-plug-types-changed-by-execute',
                   'detail': {'run': i, 'now': sorted(
                       x.__name__ for x in t.descriptor.plug_types)}})
      break
    if case.get('alt_start') and use_start is None and cfg.get('start'):
      prog_plugs = {pm.plug_index(x) for n, _ in pm.walk(prog) if n[0] == 'P'
                    for x in n[2].get('plugs') or []}
      start_only = {pm.plug_index(x) for x in cfg['start'][2].get('plugs') or []
                    } - prog_plugs
      made = sorted({e[3] for e in b.log.events if e[2] == 'plug_ctor'} & start_only)
      if made:
        viol.append({'mechanism': 'plug-of-absent-trigger-constructed',
                     'detail': {'run': i, 'plugs': made}})
        break
      continue       # runs without the trigger are not compared with the first
    c['fingerprints_compared'] += 1
    d = first_diff(fp0, fingerprint([t.descriptor.phase_sequence,
                                     t._test_options, b.start]))  # pylint: disable=protected-access
    if d:
      viol.append({'mechanism': 'declared-objects-mutated-by-execute',
                   'detail': {'run': i, 'diff': d}})
      break
    if t.descriptor.metadata.get('vf_nested') != {'hist': [], 'count': {'n': 0}}:
      viol.append({'mechanism': 'declared-metadata-mutated-by-execute',
                   'detail': {'run': i,
                              'now': repr(t.descriptor.metadata.get('vf_nested'))[:120]}})
      break
    changed = [cls.__name__ for cls, lg in plug_loggers.items()
               if cls.logger is not lg]
    if changed:
      viol.append({'mechanism': 'plug-class-changed-by-execute',
                   'detail': {'run': i, 'plugs': changed}})
      break
    if not recs:
      viol.append({'mechanism': 'no-record', 'detail': {'run': i}})
      break
    obs = pm.observe_record(recs[0])
    obs['calls'] = [e[3] for e in b.log.events if e[2] == 'start']
    obs['ret'] = ret
    obs['tdiag_calls'] = sum(1 for e in b.log.events if e[2] == 'tdiag')
    obs['diag_calls'] = {'%s/%d' % k: v for k, v in sorted(b.diag_calls.items())}
    obs = scrub(obs)
    once = 'ctor_raise_once' in (cfg.get('plugs') or {}).values()
    if once and i == 0:
      continue      # the transient fault belongs to the first run only
    if first is None:
      first = obs
    else:
      c['reruns_compared'] += 1
      for k in first:
        if first[k] != obs[k]:
          viol.append({'mechanism': 'later-run-differs-from-first:' + k,
                       'detail': {'run': i, 'first': repr(first[k])[:200],
                                  'later': repr(obs[k])[:200]}})
          break
  for i, s in enumerate(seen_at_start):
    c['marker_checks'] += 1
    if s['state'] or s['diag'] or s['prev_meas'] or s['metadata'] or \
        s['nested_metadata'] or s['phases'] > (
        1 if cfg.get('start') else 0) or s['logs']:
      viol.append({'mechanism': 'run-did-not-start-pristine',
                   'detail': {'run': i, 'seen': s}})
      break
  return {'sig': case, 'violations': viol[:4], 'counters': c}


# ------------------------------------------------------------------ pair
def run_pair(case):
  H = pm.htf()
  from vf import pause
  from openhtf.core import (measurements, phase_executor, test_executor,
                            test_state)
  from openhtf.util import logs
  viol, c = [], new_counters()
  c['concurrent_pairs'] = 1
  barrier = threading.Barrier(2)

  def sync():
    try:
      barrier.wait(2)
    except threading.BrokenBarrierError:
      pass

  def make(tag):
    class Res(H.DiagResultEnum):
      MINE = 'res_' + tag
    Res.__name__ = 'Res' + tag

    class Plug(H.plugs.BasePlug):
      def __init__(self):
        self.who = tag
    Plug.__name__ = 'Plug' + tag

    @H.PhaseDiagnoser(Res, name='diag_' + tag)
    def diag(phase_record):
      return H.Diagnosis(Res.MINE, 'from ' + tag)

    views = []

    @H.plugs.plug(p=Plug)
    @H.measures(H.Measurement('value'), H.Measurement('dim').with_dimensions('i'))
    def one(test, p):
      sync()
      test.state['owner'] = tag
      test.measurements.value = 'val-' + tag
      sync()
      for i in range(3):
        test.measurements.dim[i] = '%s-%d' % (tag, i)
      test.attach('att', ('attachment-' + tag).encode())
      test.logger.info('log line of %s', tag)
      test.dut_id = 'dut-' + tag
      sync()
      views.append(('state', dict(test.state)))
      views.append(('plug', p.who))

    def two(test):
      sync()
      views.append(('state2', dict(test.state)))
      m = test.get_measurement('value')
      views.append(('meas', m.value if m else None))
      a = test.get_attachment('att')
      views.append(('att', a.data if a else None))
      views.append(('dut', test.dut_id))
      sync()

    t = H.Test(H.diagnose(diag)(one), two)
    t.configure(name='test-' + tag)
    recs = []
    t.add_output_callbacks(recs.append)
    return t, recs, views

  ta, ra, va = make('AAA')
  tb, rb, vb = make('BBB')
  eng = None
  if case['seed'] is not None:
    eng = _S.get('engine')
    if eng is None:
      eng = pause.Engine([m.__file__ for m in (test_state, test_executor,
                                               phase_executor, measurements,
                                               logs)],
                         lambda th: th.name if th.name.startswith(
                             ('TestExecutor', '<Phase', 'PAIR')) else None)
      eng.install()
      _S['engine'] = eng
    eng.arm(None, yield_seed=case['seed'], yield_prob=0.2)
    eng.enabled = True
    old = sys.getswitchinterval()
    sys.setswitchinterval(1e-5)
  errors = []

  def runner(t):
    try:
      t.execute()
    except Exception as e:  # pylint: disable=broad-except
      errors.append('%s: %s' % (type(e).__name__, str(e)[:100]))

  try:
    th = [threading.Thread(target=runner, args=(t,), name='PAIR%d' % i)
          for i, t in enumerate((ta, tb))]
    for x in th:
      x.start()
    for x in th:
      x.join(60)
  finally:
    if eng is not None:
      eng.enabled = False
      sys.setswitchinterval(old)
    pm.prune_handlers()
  if errors:
    viol.append({'mechanism': 'concurrent-execute-raised',
                 'detail': {'errors': errors}})
  for mine, other, recs, views in (('AAA', 'BBB', ra, va), ('BBB', 'AAA', rb, vb)):
    if not recs:
      viol.append({'mechanism': 'no-record', 'detail': {'test': mine}})
      continue
    rec = recs[0]
    from vf import render
    rendered = render.test_rec(rec)
    # framework loggers are shared by design (C19): only this run's record
    # loggers are judged for foreign content
    rendered['log_records'] = [l for l in rendered['log_records']
                               if l['logger_name'].startswith(
                                   'openhtf.test_record.')]
    text = repr(render.norm(rendered))
    c['marker_checks'] += 1
    if other in text.replace('Res' + other, '').replace('Plug' + other, ''):
      where = [k for k, v in rendered.items() if other in repr(v)]
      viol.append({'mechanism': 'record-contains-the-other-test:' + ','.join(where),
                   'detail': {'test': mine}})
    if rec.outcome.name != 'PASS':
      viol.append({'mechanism': 'concurrent-run-outcome-%s' % rec.outcome.name,
                   'detail': {'test': mine,
                              'phases': [(p.name, p.outcome.name) for p in rec.phases]}})
    for kind, v in views:
      c['marker_checks'] += 1
      if other in repr(v):
        viol.append({'mechanism': 'in-phase-view-contains-the-other-test:' + kind,
                     'detail': {'test': mine, 'view': repr(v)[:100]}})
      if kind == 'meas' and v != 'val-' + mine:
        viol.append({'mechanism': 'own-measurement-not-visible',
                     'detail': {'test': mine, 'got': repr(v)}})
    vals = [m for p in rec.phases for m in p.measurements.values()]
    want_dim = [(i, '%s-%d' % (mine, i)) for i in range(3)]
    got_dim = [tuple(r) for m in vals if m.name == 'dim'
               for r in m.measured_value.value]
    if got_dim != want_dim:
      viol.append({'mechanism': 'own-dimensioned-values-differ',
                   'detail': {'test': mine, 'got': got_dim}})
  return {'sig': case, 'violations': viol[:4], 'counters': c}


def run_monshare(case):
  import time
  H = pm.htf()
  from openhtf.core import monitors
  viol = []
  c = {'monitor_share_runs': 0, 'reruns_compared': 0}

  def read_level(test, **kwargs):
    return kwargs.get('gain', 1)

  def soak(test, gain=1):
    m = test.measurements['level']
    t_end = time.monotonic() + 5
    while not m.is_value_set and time.monotonic() < t_end:
      time.sleep(0.001)

  watch = monitors.monitors('level', read_level, poll_interval_ms=2)
  plain = H.PhaseOptions(name='plain')(watch(soak))
  boosted = H.PhaseOptions(name='boosted')(
      watch(H.PhaseDescriptor.wrap_or_copy(soak).with_args(gain=5)))
  nodes = [plain, boosted] if case['order'] == 'plain_first' else [boosted, plain]
  want = {'plain': [1], 'boosted': [5]}

  def run(t):
    recs = []
    t.add_output_callbacks(recs.append)
    t.execute()
    pm.settle()
    return recs[-1] if recs else None

  def sampled(rec, name):
    ph = [p for p in rec.phases if p.name == name]
    if not ph:
      return None
    return sorted({row[-1] for row in ph[0].measurements['level'].measured_value.value})

  t = H.Test(*nodes)
  old_hook = threading.excepthook
  threading.excepthook = lambda a: None
  try:
    runs = [('run-1', run(t), ('plain', 'boosted')), ('run-2', run(t), ('plain', 'boosted'))]
    if case['other_test']:
      runs.append(('other-test', run(H.Test(plain)), ('plain',)))
  finally:
    threading.excepthook = old_hook
    pm.prune_handlers()
  for label, rec, names in runs:
    c['monitor_share_runs'] += 1
    if rec is None:
      viol.append({'mechanism': 'no-record', 'detail': {'run': label}})
      continue
    for name in names:
      got = sampled(rec, name)
      c['reruns_compared'] += 1
      if got != want[name]:
        viol.append({'mechanism': 'monitor-of-one-phase-given-another-phases-arguments',
                     'detail': {'run': label, 'phase': name, 'sampled': got,
                                'want': want[name], 'order': case['order']}})
  return {'sig': ['monshare', case['order'], case['other_test']], 'violations': viol[:4],
          'counters': c}


def run_case(case):
  return {'derive': run_derive, 'runs': run_runs, 'pair': run_pair,
          'monshare': run_monshare}[case['k']](case)
