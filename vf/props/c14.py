"""C14 — ADB streams: per-stream in-order exactly-once delivery, acks, flow control.

Workload: a reactive fake ADB device (vf/fakeadb.py) serves 1-3 streams opened
concurrently by host threads; every byte the device writes carries a unique
(stream, message) id; each stream has a reader thread and a writer thread.
Schedules: (sched) one host thread is held at a chosen reached line of
adb_protocol.py / adb_message.py while all others run on; (stress) seeded yield
injection; (device) all interleavings of the device's messages over the
streams for a fixed small script.  Monitor: per-stream byte logs, device-side
message log (acks, chunk sizes, outstanding writes), and a logical witness for
lost wake-ups (a blocked call ended by its time-out although everything it was
waiting for had been sent by the device).
"""
import itertools
import os
import random
import sys
import threading
import time

PROPERTY = 'C14'
LEVEL = 'exploration'
RULE = ('one case = (number of streams 1-3, device script per stream: 1-4 WRTE payloads of '
        '0-150 unique bytes then CLSE, host payload 1-400 bytes with maxdata 64, device '
        'interleaving, schedule): sched = one host thread role (opener/reader R<i>, writer '
        'W<i>) held 150 ms at a (function, line, hit) reached in a discovery run while the '
        'other threads proceed; stress = seeded yield injection with switch interval 10 us; '
        'device = every merge order of the device messages of two streams for a small script; '
        'close = a thread calling stream.close() is held at each line of its path while a '
        'reader thread takes the device\'s own CLSE for that stream off the wire (exactly one '
        'CLSE from the host); '
        'fault = the device withholds the OKAY of host WRTE chunk 0-2 (never / until the '
        'retries returned / for half the write time-out) while the host retries 1-3 writes, '
        'optionally with a second writer thread and a reader thread on the same stream; '
        'flood = 10-300 acknowledged device messages for a stream nobody reads yet while another stream pumps the connection (five modes); '
        'distinct = distinct (scenario, schedule); non-trivial = all streams were opened and '
        'at least one device WRTE was delivered and judged')
ASSUMPTIONS = [
    'the device closes a stream only after it received all host bytes of that stream',
    'call time-outs are 6 s; a call that ends by time-out although the device had sent all it waited for is a lost wake-up / deadlock witness',
    'preemption bound 1 (one held thread per schedule) plus seeded stress',
    'fault cases judge only the device-side count of un-OKAYed WRTEs, chunk sizes and calls that never return; which exception a refused retry raises is not judged',
]
REQUIRED_COUNTERS = ['scenarios_run', 'streams_judged', 'device_wrte_judged',
                     'acks_judged', 'host_chunks_judged', 'schedules_held',
                     'fault_runs', 'outstanding_checked', 'writes_refused_or_failed',
                     'close_races', 'slow_device_writes', 'slow_writes_timed_out',
                     'flood_runs']
EXHAUSTIVE = {'quick': False, 'thorough': False}
PLAN = {
    'quick': {'workers': 16, 'budget_s': 60, 'sampled_per_worker': 40,
              'wall_limit_s': 900, 'held_per_scenario': 60},
    'thorough': {'workers': 16, 'budget_s': 900, 'sampled_per_worker': 1500,
                 'wall_limit_s': 7200, 'held_per_scenario': None},
}
MAXDATA = 64
TIMEOUT_MS = 6000
_S = {}


def setup():
  from vf import usbstub, harness, pause
  usbstub.install()
  from openhtf.plugs.usb import adb_message, adb_protocol, usb_exceptions
  harness.assert_root(adb_protocol)
  eng = pause.Engine([adb_protocol.__file__, adb_message.__file__],
                     lambda th: th.name if th.name[:1] in ('R', 'W') and
                     th.name[1:].isdigit() else None)
  eng.install()
  eng.enabled = False
  _S.update(ap=adb_protocol, exc=usb_exceptions, engine=eng)


def teardown():
  _S['engine'].uninstall()


SCENARIOS = [
    {'streams': 2, 'seed': 1},
    {'streams': 3, 'seed': 2},
    {'streams': 1, 'seed': 3},
    {'streams': 2, 'seed': 4, 'nowrite': True},
]


def enumerated(tier):
  per = PLAN[tier]['held_per_scenario']
  for si in range(len(SCENARIOS)):
    if per is None:
      for idx in range(1500):
        yield {'k': 'sched', 'scenario': si, 'idx': idx}
    else:
      for j in range(per):
        yield {'k': 'sched', 'scenario': si, 'pick': j}
  # device-side interleavings of two streams' messages (small script)
  a = ['A0', 'A1', 'Ac']
  b = ['B0', 'B1', 'Bc']
  for order in _merges(a, b):
    yield {'k': 'device', 'order': order}
  # a slow but alive device and a write of several chunks
  for chunks in (1, 2, 3, 4, 6):
    for frac in (0.1, 0.4, 0.6, 0.9):
      yield {'k': 'slowdev', 'chunks': chunks, 'frac': frac}
  # a local close() racing with the device's CLSE for the same stream
  for idx in range(80):
    yield {'k': 'close', 'idx': idx}
  # a chatty stream nobody reads yet, while another stream's reader (or the
  # writer waiting for its OKAY) pumps the connection
  for n in (10, 64, 65, 80, 300):
    for mode in ('read_a_then_b', 'two_readers', 'write_a_then_read_b',
                 'b_answers_and_closes', 'a_write_answered_and_closed'):
      yield {'k': 'flood', 'n': n, 'mode': mode}
  # the device withholds one OKAY; the host retries (flow control under faults)
  n = 0
  for withhold in (0, 1, 2):
    for release in ('never', 'after-retries', 'timer'):
      for retries in (1, 2):
        for second_writer in (False, True):
          for reader in (False, True):
            n += 1
            yield {'k': 'fault', 'withhold': withhold, 'release': release,
                   'retries': retries, 'second_writer': second_writer,
                   'reader': reader, 'timeout_ms': 250, 'yield': False,
                   'seed': n}


def _merges(a, b):
  if not a:
    yield list(b)
    return
  if not b:
    yield list(a)
    return
  for rest in _merges(a[1:], b):
    yield [a[0]] + rest
  for rest in _merges(a, b[1:]):
    yield [b[0]] + rest


def sampled(tier, rng):
  while True:
    if rng.random() < .25:
      yield {'k': 'fault', 'withhold': rng.randint(0, 2),
             'release': rng.choice(['never', 'after-retries', 'timer']),
             'retries': rng.randint(1, 3), 'second_writer': rng.random() < .5,
             'reader': rng.random() < .5, 'timeout_ms': rng.choice([60, 250]),
             'yield': True, 'seed': rng.getrandbits(32)}
      continue
    yield {'k': 'stress', 'streams': rng.randint(1, 3),
           'seed': rng.getrandbits(32), 'nowrite': rng.random() < .2}


# ------------------------------------------------------------------ scenario
class Device:
  """Reactive fake device on top of FakeAdbDevice."""

  def __init__(self, scripts, expect_host_bytes, order=None):
    from vf import fakeadb
    self.t = fakeadb.FakeAdbDevice(_S['exc'], block=True)
    self.scripts = scripts                # dest -> [payload, ...]
    self.expect = expect_host_bytes       # dest -> number of host bytes or 0
    self.lock = threading.Lock()
    self.streams = {}                     # remote id -> dict
    self.by_local = {}
    self.next_remote = 100
    self.problems = []
    self.order = order                    # explicit device message order
    self.pending_order = []
    self.withhold = {}                    # dest -> index of the host WRTE whose OKAY is withheld
    self.withheld = []                    # stream dicts with an OKAY owed
    self.max_outstanding = 0
    self.t.on_host_message = self.on_host
    self.t.feed('CNXN', 0x01000000, MAXDATA, 'device:SER:banner')

  def release_withheld(self):
    """The device finally acknowledges the WRTE it sat on."""
    with self.lock:
      owed, self.withheld = self.withheld, []
      for st in owed:
        st['outstanding'] -= 1
    for st in owed:
      self.t.feed('OKAY', st['remote'], st['local'], '')
    return len(owed)

  def on_host(self, msg):
    seq, th, cmd, a0, a1, data = msg
    feeds = []
    with self.lock:
      if cmd == 'OPEN':
        dest = data.rstrip('\0')
        self.next_remote += 1
        st = {'dest': dest, 'local': a0, 'remote': self.next_remote,
              'sent': list(self.scripts.get(dest, [])), 'acks': 0, 'got': [],
              'outstanding': 0, 'closed_by_host': 0, 'clse_sent': False,
              'chunks': []}
        self.streams[st['remote']] = st
        self.by_local[a0] = st
        feeds.append(('OKAY', st['remote'], a0, ''))
        if self.order is None:
          for p in st['sent']:
            feeds.append(('WRTE', st['remote'], a0, p))
          if not self.expect.get(dest):
            feeds.append(('CLSE', st['remote'], a0, ''))
            st['clse_sent'] = True
        else:
          feeds.extend(self._ordered_feeds())
      elif cmd == 'WRTE':
        st = self.streams.get(a1)
        if st is None:
          self.problems.append(('WRTE for unknown remote id', a1))
        else:
          if st['outstanding']:
            self.problems.append(('second WRTE before OKAY', st['dest']))
          st['outstanding'] += 1
          self.max_outstanding = max(self.max_outstanding, st['outstanding'])
          st['got'].append(data)
          st['chunks'].append(len(data))
          if self.withhold.get(st['dest']) == len(st['chunks']) - 1:
            self.withheld.append(st)
            for f in feeds:
              self.t.feed(*f)
            return
          feeds.append(('OKAY', st['remote'], st['local'], ''))
          st['outstanding'] -= 1
          if (self.order is None and not st['clse_sent'] and
              sum(len(x) for x in st['got']) >= self.expect.get(st['dest'], 0)):
            feeds.append(('CLSE', st['remote'], st['local'], ''))
            st['clse_sent'] = True
      elif cmd == 'OKAY':
        st = self.streams.get(a1)
        if st is None or st['local'] != a0:
          self.problems.append(('OKAY with wrong ids', a0, a1))
        else:
          st['acks'] += 1
      elif cmd == 'CLSE':
        st = self.streams.get(a1)
        if st is not None:
          st['closed_by_host'] += 1
    for f in feeds:
      self.t.feed(*f)

  def _ordered_feeds(self):
    """Device messages in an explicit order once both streams are open."""
    if len(self.streams) < 2:
      return []
    by_dest = {s['dest']: s for s in self.streams.values()}
    out = []
    for tag in self.order:
      st = by_dest['svc:%d' % (0 if tag[0] == 'A' else 1)]
      if tag[1] == 'c':
        out.append(('CLSE', st['remote'], st['local'], ''))
        st['clse_sent'] = True
      else:
        out.append(('WRTE', st['remote'], st['local'], st['sent'][int(tag[1])]))
    return out


def make_scripts(nstreams, seed):
  rng = random.Random(seed)
  scripts, payloads = {}, {}
  for s in range(nstreams):
    dest = 'svc:%d' % s
    scripts[dest] = ['%d.%d:' % (s, j) + 'x' * rng.randint(0, 150)
                     for j in range(rng.randint(1, 4))]
    payloads[dest] = ''.join(chr(65 + (i + s) % 26)
                             for i in range(rng.randint(1, 400)))
  return scripts, payloads


def run_scenario(nstreams, seed, target=None, yield_seed=None, nowrite=False,
                 order=None):
  ap, exc, eng = _S['ap'], _S['exc'], _S['engine']
  if order is not None:
    scripts = {'svc:0': ['0.0:aaaa', '0.1:bb'], 'svc:1': ['1.0:c', '1.1:dddddd']}
    payloads = {'svc:0': '', 'svc:1': ''}
    nstreams = 2
    nowrite = True
  else:
    scripts, payloads = make_scripts(nstreams, seed)
  expect = {d: (0 if nowrite else len(p)) for d, p in payloads.items()}
  dev = Device(scripts, expect, order=order)
  conn = ap.AdbConnection.connect(dev.t, timeout_ms=TIMEOUT_MS)
  res = {}
  barrier = threading.Barrier(nstreams)

  def worker(s):
    dest = 'svc:%d' % s
    r = {'open': None, 'read': None, 'data': '', 'write': None}
    res[s] = r
    try:
      barrier.wait(5)
    except threading.BrokenBarrierError:
      pass
    t0 = time.monotonic()
    try:
      st = conn.open_stream(dest, timeout_ms=TIMEOUT_MS)
    except Exception as e:  # pylint: disable=broad-except
      r['open'] = 'exc:%s:%s' % (type(e).__name__, str(e)[:80])
      return
    if st is None:
      r['open'] = 'none'
      return
    r['open'] = 'ok'
    wt = None
    if not nowrite:
      def w():
        try:
          st.write(payloads[dest], timeout_ms=TIMEOUT_MS)
          r['write'] = 'ok'
        except Exception as e:  # pylint: disable=broad-except
          r['write'] = 'exc:%s:%s' % (type(e).__name__, str(e)[:80])
      wt = threading.Thread(target=w, name='W%d' % s)
      wt.start()
    out = []
    try:
      for d in st.read_until_close(timeout_ms=TIMEOUT_MS):
        out.append(d)
      r['read'] = 'closed'
    except Exception as e:  # pylint: disable=broad-except
      r['read'] = 'exc:%s:%s' % (type(e).__name__, str(e)[:80])
    r['data'] = ''.join(out)
    if wt:
      wt.join(30)
      if wt.is_alive():
        r['write'] = 'hung'
    r['wall'] = time.monotonic() - t0

  eng.arm(target, yield_seed=yield_seed,
          yield_prob=0.3 if yield_seed is not None else 0.0)
  eng.enabled = True
  info = {'reached': False}
  old = sys.getswitchinterval()
  if yield_seed is not None:
    sys.setswitchinterval(1e-5)
  try:
    ths = [threading.Thread(target=worker, args=(s,), name='R%d' % s)
           for s in range(nstreams)]
    for t in ths:
      t.start()
    if target is not None:
      a = eng.run_action_at_pause(lambda: time.sleep(0.15), wait_s=4,
                                  hold_s=0.2)
      info['reached'] = a['reached']
    for t in ths:
      t.join(40)
    info['hung'] = [t.name for t in ths if t.is_alive()]
  finally:
    eng.release()
    eng.enabled = False
    sys.setswitchinterval(old)
  info['seen'] = dict(eng.seen)
  info['yields'] = eng.yields
  try:
    conn.close()
  except Exception:  # pylint: disable=broad-except
    pass
  return dev, scripts, payloads, res, info, nowrite


def judge(dev, scripts, payloads, res, info, nowrite, ctx):
  viol = []
  c = {'scenarios_run': 1, 'streams_judged': 0, 'device_wrte_judged': 0,
       'acks_judged': 0, 'host_chunks_judged': 0}

  def bad(mech, **d):
    if len(viol) < 6:
      viol.append({'mechanism': mech, 'detail': dict(ctx, **d)})

  if info.get('hung'):
    bad('host-thread-never-returned', threads=info['hung'])
  for p in dev.problems:
    bad('device-saw:' + p[0].replace(' ', '-'), problem=p)
  if dev.t.framing_errors:
    bad('bad-framing', errors=dev.t.framing_errors[:2])
  by_dest = {s['dest']: s for s in dev.streams.values()}
  unread = dev.t.unread()
  for s, r in sorted(res.items()):
    dest = 'svc:%d' % s
    c['streams_judged'] += 1
    st = by_dest.get(dest)
    want = ''.join(scripts[dest])
    if r['open'] != 'ok':
      bad('open-failed:' + str(r['open']).split(':')[1] if ':' in str(r['open'])
          else 'open-failed', stream=s, result=r['open'])
      continue
    if st is None:
      bad('device-never-saw-OPEN', stream=s)
      continue
    c['device_wrte_judged'] += len(st['sent'])
    if r['read'] != 'closed':
      kind = r['read'].split(':')[1] if r['read'] else 'none'
      # logical witness: everything the reader waited for had been sent
      left = [m for m in unread if m[2] == st['local']]
      bad('read-ended-by-%s-with-data-%s' % (
          kind, 'unread-in-transport' if left else 'already-delivered'),
          stream=s, result=r['read'], got=len(r['data']), want=len(want),
          unread_for_stream=len(left))
    elif r['data'] != want:
      what = ('lost' if len(r['data']) < len(want) else
              'duplicated-or-foreign' if len(r['data']) > len(want) else
              'reordered-or-foreign')
      bad('stream-bytes-' + what, stream=s, got=r['data'][:60], want=want[:60])
    c['acks_judged'] += 1
    if st['acks'] != len(st['sent']):
      bad('acks-differ-from-device-writes', stream=s, acks=st['acks'],
          writes=len(st['sent']))
    if not nowrite:
      c['host_chunks_judged'] += len(st['chunks'])
      if r['write'] != 'ok':
        bad('write-ended-by-' + (r['write'] or 'none').split(':')[1 if ':' in (r['write'] or '') else 0],
            stream=s, result=r['write'])
      elif ''.join(st['got']) != payloads[dest]:
        bad('host-bytes-differ-at-device', stream=s)
      if any(n > MAXDATA for n in st['chunks']):
        bad('host-chunk-larger-than-maxdata', stream=s, chunks=st['chunks'][:8])
    if st['closed_by_host'] != 1:
      bad('host-CLSE-count-%d' % st['closed_by_host'], stream=s)
  return viol, c


_POINTS = {}


def run_sched(case):
  si = case['scenario']
  sc = SCENARIOS[si]
  if si not in _POINTS:
    _, _, _, _, info, _ = run_scenario(sc['streams'], sc['seed'],
                                       nowrite=sc.get('nowrite', False))
    pts = []
    for key, n in sorted(info['seen'].items()):
      for h in range(1, min(n, 3) + 1):
        pts.append((key, h))
    _POINTS[si] = pts
  pts = _POINTS[si]
  if 'pick' in case:
    rng = random.Random('%s/%s/%s' % (si, case['pick'],
                                      os.environ.get('VERIF_SEED', '0')))
    target = pts[rng.randrange(len(pts))]
  else:
    if case['idx'] >= len(pts):
      return {'sig': None, 'violations': [], 'counters': {}, 'evaluations': 0,
              'sample': False}
    target = pts[case['idx']]
  out = run_scenario(sc['streams'], sc['seed'], target=target,
                     nowrite=sc.get('nowrite', False))
  ctx = {'scenario': si, 'held': [list(target[0]), target[1]]}
  viol, c = judge(*out, ctx)
  c['schedules_held'] = 1 if out[4]['reached'] else 0
  c['pause_not_reached'] = 0 if out[4]['reached'] else 1
  return {'sig': ['sched', si, list(target[0]), target[1]], 'violations': viol,
          'counters': c}


def run_stress(case):
  out = run_scenario(case['streams'], case['seed'], yield_seed=case['seed'],
                     nowrite=case.get('nowrite', False))
  viol, c = judge(*out, {'stress_seed': case['seed'], 'streams': case['streams']})
  c['stress_runs'] = 1
  c['yields_injected'] = out[4]['yields']
  return {'sig': case, 'violations': viol, 'counters': c}


def run_device(case):
  out = run_scenario(2, 0, order=case['order'])
  viol, c = judge(*out, {'device_order': case['order']})
  c['device_orders'] = 1
  return {'sig': case, 'violations': viol, 'counters': c}


def run_fault(case):
  """The device sits on the OKAY of one host WRTE; the host retries.

  Flow control says a stream never has two unacknowledged WRTEs outstanding,
  whatever the host code does after a write failed or timed out.  The device
  counts un-OKAYed WRTEs per stream; verdicts come only from that count (and
  from a call never returning), not from which exception a retry gets.
  """
  ap, exc, eng = _S['ap'], _S['exc'], _S['engine']
  rng = random.Random(case['seed'])
  dest = 'svc:0'
  first = 'F' * rng.choice([1, 10, MAXDATA, MAXDATA + 1, 3 * MAXDATA])
  nchunks = -(-len(first) // MAXDATA)
  dev = Device({dest: []}, {dest: 10 ** 9})
  dev.withhold[dest] = case['withhold'] % nchunks
  conn = ap.AdbConnection.connect(dev.t, timeout_ms=TIMEOUT_MS)
  st = conn.open_stream(dest, timeout_ms=TIMEOUT_MS)
  results = []
  done = threading.Event()

  def attempt(tag, data, timeout_ms):
    try:
      st.write(data, timeout_ms=timeout_ms)
      results.append((tag, 'ok'))
    except Exception as e:  # pylint: disable=broad-except
      results.append((tag, type(e).__name__))

  def host():
    attempt('first', first, case['timeout_ms'])
    for i in range(case['retries']):
      attempt('retry%d' % i, 'R%d' % i + 'r' * rng.randint(0, 2 * MAXDATA),
              case['timeout_ms'])
    if case['release'] == 'after-retries':
      dev.release_withheld()
      attempt('after-release', 'L' * 5, 1500)
      attempt('after-release2', 'M' * 5, 1500)
    done.set()

  ths = [threading.Thread(target=host, name='W0')]
  if case['second_writer']:
    def other():
      for i in range(case['retries'] + 1):
        attempt('other%d' % i, 'O%d' % i + 'o' * rng.randint(0, MAXDATA),
                case['timeout_ms'])
    ths.append(threading.Thread(target=other, name='W1'))
  if case['reader']:
    def reader():
      while not done.is_set():
        try:
          st.read(1, timeout_ms=100)
        except Exception:  # pylint: disable=broad-except
          if st.is_closed():
            return
    ths.append(threading.Thread(target=reader, name='R0'))
  eng.arm(None, yield_seed=case['seed'] if case['yield'] else None,
          yield_prob=0.3 if case['yield'] else 0.0)
  eng.enabled = True
  old = sys.getswitchinterval()
  if case['yield']:
    sys.setswitchinterval(1e-5)
  timer = None
  try:
    if case['release'] == 'timer':
      timer = threading.Timer(case['timeout_ms'] / 2000.0, dev.release_withheld)
      timer.start()
    for t in ths:
      t.start()
    for t in ths:
      t.join(40)
    hung = [t.name for t in ths if t.is_alive()]
  finally:
    eng.release()
    eng.enabled = False
    sys.setswitchinterval(old)
    if timer:
      timer.cancel()
    done.set()
  try:
    conn.close()
  except Exception:  # pylint: disable=broad-except
    pass
  viol = []
  ctx = {k: case[k] for k in ('withhold', 'retries', 'release', 'second_writer',
                               'reader', 'timeout_ms')}
  ctx['results'] = results[:8]
  if hung:
    viol.append({'mechanism': 'host-thread-never-returned',
                 'detail': dict(ctx, threads=hung)})
  for p in dev.problems:
    viol.append({'mechanism': 'device-saw:' + p[0].replace(' ', '-'),
                 'detail': dict(ctx, problem=p)})
  sd = next(iter(dev.streams.values()))
  if any(n > MAXDATA for n in sd['chunks']):
    viol.append({'mechanism': 'host-chunk-larger-than-maxdata', 'detail': ctx})
  c = {'fault_runs': 1, 'host_wrte_seen_by_device': len(sd['chunks']),
       'withheld_okay_runs': 1 if len(sd['chunks']) > dev.withhold[dest] else 0,
       'writes_refused_or_failed': sum(1 for r in results if r[1] != 'ok'),
       'writes_ok': sum(1 for r in results if r[1] == 'ok')}
  c['outstanding_checked'] = len(sd['chunks'])
  return {'sig': case, 'violations': viol[:4], 'counters': c}


def run_slowdev(case):
  """A device that is slow but alive: it acknowledges every WRTE, each after
  0.6 x the write's time-out (logical time: the clock that openhtf.util.timeouts
  reads is advanced by the device).  A host write of several chunks has then
  used up its time-out before the last chunk: it must raise, not report
  success long after its time-out."""
  import time as real_time
  from openhtf.util import timeouts
  ap = _S['ap']
  T = 2.0

  class Clock:
    offset = 0.0

    def time(self):
      return real_time.time() + self.offset

    def __getattr__(self, name):
      return getattr(real_time, name)

  clock = Clock()
  nchunks = case['chunks']
  data = 'x' * (MAXDATA * (nchunks - 1) + 1)
  dev = Device({'svc:0': []}, {'svc:0': 10 ** 9})
  conn = ap.AdbConnection.connect(dev.t, timeout_ms=TIMEOUT_MS)
  st = conn.open_stream('svc:0', timeout_ms=TIMEOUT_MS)
  real_on_host = dev.t.on_host_message

  def slow_on_host(msg):
    if msg[2] == 'WRTE':
      clock.offset += case['frac'] * T      # the device takes its time
    real_on_host(msg)

  dev.t.on_host_message = slow_on_host
  old = timeouts.time
  timeouts.time = clock
  t0 = clock.time()
  try:
    try:
      st.write(data, timeout_ms=int(T * 1000))
      result = 'ok'
    except Exception as e:  # pylint: disable=broad-except
      result = type(e).__name__
    elapsed = clock.time() - t0
  finally:
    timeouts.time = old
  try:
    conn.close()
  except Exception:  # pylint: disable=broad-except
    pass
  sd = next(iter(dev.streams.values()))
  viol = []
  ctx = {'chunks': nchunks, 'ack_delay_fraction': case['frac'], 'result': result,
         'logical_elapsed_s': round(elapsed, 3), 'timeout_s': T,
         'chunks_seen_by_device': len(sd['chunks'])}
  if result == 'ok' and elapsed > 1.5 * T:
    viol.append({'mechanism': 'write-succeeded-long-after-its-timeout',
                 'detail': ctx})
  if result == 'ok' and ''.join(sd['got']) != data:
    viol.append({'mechanism': 'host-bytes-differ-at-device', 'detail': ctx})
  for p in dev.problems:
    viol.append({'mechanism': 'device-saw:' + p[0].replace(' ', '-'),
                 'detail': dict(ctx, problem=p)})
  c = {'slow_device_writes': 1, 'scenarios_run': 1,
       'slow_writes_timed_out': 0 if result == 'ok' else 1}
  return {'sig': case, 'violations': viol, 'counters': c}


_CLOSE_POINTS = []


def run_close(case):
  """A local close() races with the device's own CLSE for the same stream: one
  thread (W0) calls stream.close() and is held at a line of its path while a
  reader thread (R0) takes the device's CLSE off the wire.  The device must see
  exactly one CLSE from the host for that stream."""
  ap, exc, eng = _S['ap'], _S['exc'], _S['engine']

  def scenario(target):
    dev = Device({'svc:0': ['0.0:hello']}, {'svc:0': 10 ** 9})
    conn = ap.AdbConnection.connect(dev.t, timeout_ms=TIMEOUT_MS)
    st = conn.open_stream('svc:0', timeout_ms=TIMEOUT_MS)
    got, errs = [], []

    def reader():
      try:
        for d in st.read_until_close(timeout_ms=1500):
          got.append(d)
      except Exception as e:  # pylint: disable=broad-except
        errs.append(('R0', type(e).__name__))

    def closer():
      try:
        st.close(timeout_ms=1500)
      except Exception as e:  # pylint: disable=broad-except
        errs.append(('W0', type(e).__name__))

    sd = next(iter(dev.streams.values()))
    eng.arm(target)
    eng.enabled = True
    info = {'reached': False}
    try:
      tw = threading.Thread(target=closer, name='W0')
      tr = threading.Thread(target=reader, name='R0')
      tw.start()
      if target is not None:
        def device_closes_and_reader_reads():
          dev.t.feed('CLSE', sd['remote'], sd['local'], '')
          tr.start()
          tr.join(5)
        a = eng.run_action_at_pause(device_closes_and_reader_reads, wait_s=4,
                                    hold_s=0.3)
        info['reached'] = a['reached']
        if a.get('_thread'):
          a['_thread'].join(6)
      tw.join(6)
      if not tr.ident:
        dev.t.feed('CLSE', sd['remote'], sd['local'], '')
        tr.start()
      tr.join(6)
      info['hung'] = [t.name for t in (tw, tr) if t.is_alive()]
    finally:
      eng.release()
      eng.enabled = False
    info['seen'] = dict(eng.seen)
    try:
      conn.close()
    except Exception:  # pylint: disable=broad-except
      pass
    return dev, sd, got, errs, info

  if not _CLOSE_POINTS:
    _, _, _, _, info = scenario(None)
    for key, n in sorted(info['seen'].items()):
      if key[0] == 'W0':
        for h in range(1, min(n, 2) + 1):
          _CLOSE_POINTS.append((key, h))
  if case['idx'] >= len(_CLOSE_POINTS):
    return {'sig': None, 'violations': [], 'counters': {}, 'evaluations': 0,
            'sample': False}
  target = _CLOSE_POINTS[case['idx']]
  dev, sd, got, errs, info = scenario(target)
  viol = []
  ctx = {'closer_held_at': [list(target[0]), target[1]], 'errors': errs[:3]}
  if info.get('hung'):
    viol.append({'mechanism': 'host-thread-never-returned',
                 'detail': dict(ctx, threads=info['hung'])})
  if sd['closed_by_host'] != 1:
    viol.append({'mechanism': 'host-CLSE-count-%d' % sd['closed_by_host'],
                 'detail': dict(ctx, scenario='close-race')})
  for p in dev.problems:
    viol.append({'mechanism': 'device-saw:' + p[0].replace(' ', '-'),
                 'detail': dict(ctx, problem=p)})
  c = {'close_races': 1 if info['reached'] else 0,
       'pause_not_reached': 0 if info['reached'] else 1, 'scenarios_run': 1}
  return {'sig': ['close', list(target[0]), target[1]], 'violations': viol[:4],
          'counters': c}


def run_flood(case):
  """The device writes n messages to stream B (one outstanding at a time, each
  acknowledged by the host) before it serves stream A; whoever pumps the
  connection for A has to park B's messages.  Every call returns, A gets its
  bytes and B's reader later gets all n messages in order."""
  from vf import fakeadb
  ap, exc = _S['ap'], _S['exc']
  n, mode = case['n'], case['mode']
  dev = fakeadb.FakeAdbDevice(exc, block=True)
  dev.feed('CNXN', 0x01000000, MAXDATA, 'device:SER:banner')
  conn = ap.AdbConnection.connect(dev, timeout_ms=TIMEOUT_MS)
  state = {'opens': 0, 'sent_b': 0, 'go': False, 'a': None, 'b': None}
  b_msgs = ['b%04d;' % i for i in range(n)]

  def next_b():
    i = state['sent_b']
    if i < n:
      state['sent_b'] += 1
      dev.feed('WRTE', 201, state['b'], b_msgs[i])
    elif i == n:
      state['sent_b'] += 1
      if mode == 'b_answers_and_closes':
        dev.feed('CLSE', 201, state['b'])
      if mode == 'write_a_then_read_b':
        dev.feed('OKAY', 200, state['a'])
      elif mode == 'a_write_answered_and_closed':
        # the service prints its answer and exits instead of acknowledging
        dev.feed('WRTE', 200, state['a'], 'done-a')
        dev.feed('CLSE', 200, state['a'])
      else:
        dev.feed('WRTE', 200, state['a'], 'done-a')

  def on_host(msg):
    _, _, cmd, a0, a1, _ = msg
    if cmd == 'OPEN':
      state['opens'] += 1
      key = 'a' if state['opens'] == 1 else 'b'
      state[key] = a0
      dev.feed('OKAY', 200 if key == 'a' else 201, a0)
    elif cmd == 'OKAY' and a0 == state['b'] and state['go']:
      next_b()
    elif cmd == 'WRTE' and a0 == state['a']:
      state['go'] = True
      next_b()

  dev.on_host_message = on_host
  sa = conn.open_stream('svc:a', timeout_ms=TIMEOUT_MS)
  sb = conn.open_stream('svc:b', timeout_ms=TIMEOUT_MS)
  res = {}

  def drain_b():
    got = []
    try:
      while len(''.join(got)) < len(''.join(b_msgs)):
        got.append(sb.read(timeout_ms=TIMEOUT_MS))
      res['b'] = ''.join(got)
      if mode == 'b_answers_and_closes':
        try:
          sb.read(timeout_ms=TIMEOUT_MS)
          res['b_end'] = 'data'
        except Exception as e:  # pylint: disable=broad-except
          res['b_end'] = type(e).__name__
    except Exception as e:  # pylint: disable=broad-except
      res['b'] = ''.join(got)
      res['b_exc'] = type(e).__name__

  def serve_a():
    try:
      if mode == 'write_a_then_read_b':
        sa.write('ping', timeout_ms=TIMEOUT_MS)
        res['a'] = 'written'
      elif mode == 'a_write_answered_and_closed':
        try:
          sa.write('ping', timeout_ms=TIMEOUT_MS)
          res['a_write'] = 'ok'
        except exc.AdbStreamClosedError:
          res['a_write'] = 'closed'
        res['a'] = sa.read(timeout_ms=TIMEOUT_MS)
      else:
        res['a'] = sa.read(timeout_ms=TIMEOUT_MS)
    except Exception as e:  # pylint: disable=broad-except
      res['a_exc'] = type(e).__name__

  def host():
    if mode not in ('write_a_then_read_b', 'a_write_answered_and_closed'):
      state['go'] = True
      next_b()
    serve_a()
    if mode != 'two_readers':
      drain_b()

  ths = [threading.Thread(target=host, name='W0')]
  if mode == 'two_readers':
    ths.append(threading.Thread(target=drain_b, name='R1'))
  for t in ths:
    t.start()
  for t in ths:
    t.join(40)
  hung = [t.name for t in ths if t.is_alive()]
  dev.close()
  viol = []
  ctx = {'n': n, 'mode': mode}
  if hung:
    viol.append({'mechanism': 'host-thread-never-returned',
                 'detail': dict(ctx, threads=hung, parked_for_b=state['sent_b'])})
  else:
    want_a = 'written' if mode == 'write_a_then_read_b' else 'done-a'
    if res.get('a') != want_a:
      viol.append({'mechanism': 'stream-bytes-differ',
                   'detail': dict(ctx, stream='a', got=repr(res.get('a'))[:60],
                                  exc=res.get('a_exc'))})
    if res.get('b') != ''.join(b_msgs) or res.get('b_exc'):
      viol.append({'mechanism': 'stream-bytes-differ',
                   'detail': dict(ctx, stream='b', got_len=len(res.get('b') or ''),
                                  want_len=len(''.join(b_msgs)), exc=res.get('b_exc'))})
    if mode == 'b_answers_and_closes' and res.get('b_end') != 'AdbStreamClosedError':
      viol.append({'mechanism': 'read-after-drain-does-not-report-closed',
                   'detail': dict(ctx, got=res.get('b_end'))})
  okays = sum(1 for m in dev.host_msgs if m[2] == 'OKAY' and m[3] == state['b'])
  if not hung and okays != n:
    viol.append({'mechanism': 'device-wrte-ack-count-differs',
                 'detail': dict(ctx, okays=okays)})
  c = {'flood_runs': 1, 'flood_messages_parked': n, 'acks_judged': okays}
  return {'sig': case, 'violations': viol[:4], 'counters': c}


def run_case(case):
  return {'sched': run_sched, 'flood': run_flood, 'stress': run_stress, 'device': run_device,
          'fault': run_fault, 'close': run_close,
          'slowdev': run_slowdev}[case['k']](case)
