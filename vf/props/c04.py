"""C04 — operator abort: run ends ABORTED, nothing new starts, no deadlock.

Workload: a family of programs with test_start, groups, repeats, subtests and
cooperative (killable) slow bodies, run under the pause-point engine
(vf/abortlab.py).  Actions at the pause point:
  abort    a controller thread calls Test.abort_from_sig_int() to completion
  sigint   a real SIGINT is sent to the process while execute() runs on the
           main thread (the installed handler is wrapped so that its call and
           return are events)
  inline   the SIGINT handler is invoked on the main thread at a line of
           Test.execute (KeyboardInterrupt is raised at that very line)
  double   a second abort at a second point (sampled) or once a teardown body
           has started
plus seeded yield-injection runs with an abort after a random body event.
Monitor: trace predicates over the event log and the final record.
"""
import ast
import inspect
import os
import random

from vf import grouporacle
from vf import progmodel as pm

PROPERTY = 'C04'
LEVEL = 'exploration'
RULE = ('one case = (program of the family (thirteen programs; one has a main body blocked in a C '
        'wait with cancel_timeout_s = 50 ms and teardown phases that use the test API), mode in {abort, sigint, inline, double, stress}, '
        'pause point (thread role, function, line, hit) taken from a discovery run of that '
        'program, or a seed); every line reached by any family program (first and second hit) is the '
        'pause point of one simple abort, and every line reached by the aborting thread is '
        'held 150 ms once (mode aabort: abort after the start / end of the slow main phase) '
        'while the framework threads run on; beyond that quick samples points per program '
        'and mode, thorough enumerates '
        'every reached point (hits <= 3) for abort and inline and samples sigint/double; '
        'distinct = distinct (program, mode, point/seed); non-trivial = the abort action was '
        'performed while the test was running and the run was judged')
ASSUMPTIONS = [
    'bodies are cooperative (pure-Python loops), so a kill request has an observable effect',
    'outcome must be ABORTED only if the abort returned before plug tearDown began',
    'main-thread pause points are taken inside Test.execute only (an abort before an executor exists is not "a running test")',
    'preemption bound 1 (one pause point per abort), bound 2 sampled for double aborts',
]
REQUIRED_COUNTERS = ['schedules_run', 'aborts_performed', 'runs_judged',
                     'aborted_outcomes', 'sigint_real', 'inline_handler_runs',
                     'double_aborts', 'mode_aabort']
EXHAUSTIVE = {'quick': False, 'thorough': False}
PLAN = {
    'quick': {'workers': 16, 'budget_s': 80, 'sampled_per_worker': 0,
              'wall_limit_s': 1500, 'case_limit_s': 120,
              'per': {'abort': 16, 'sigint': 5, 'inline': 10, 'double': 8,
                      'stress': 4}},
    'thorough': {'workers': 16, 'budget_s': 1500, 'sampled_per_worker': 0,
                 'wall_limit_s': 10000, 'case_limit_s': 120,
                 'per': {'abort': None, 'sigint': 150, 'inline': None,
                         'double': 150, 'stress': 150}},
}


def _p(pid, **beh):
  return ['P', pid, beh]


def _s(pid, t=0.01, **beh):
  return ['P', pid, dict(beh, slow=t)]


START = _s('start', 0.005, plugs=[0])
FAMILY = [
    # 0: test_start + group + trailing phase
    ([_p('a', plugs=[0]), ['G', [_p('s')], [_s('m1', 0.02, noarg=True), _p('m2', noarg=True)],
                            [_p('t1'), _s('t2', 0.005)]], _p('z')],
     {'start': START}),
    # 1: nested groups
    ([['G', [_s('s', 0.005, plugs=[0])],
       [['G', [_p('s2', noarg=True)], [_s('m2', 0.02, noarg=True)], [_p('t2a')]], _p('m1b')],
       [_p('t1a'), _p('t1b')]]], {}),
    # 2: subtest with FAIL_SUBTEST inside a group
    ([['T', 'st', [_p('u1', plugs=[0]),
                   ['G', [_p('s')], [_s('m', 0.02, r='U'), _p('m2')], [_p('t1')]],
                   _p('u2')]], _p('z')], {}),
    # 3: repeats (force_repeat, REPEAT result)
    ([_s('r1', 0.005, r=['R', 'R', 'C'], plugs=[0]),
      ['G', [_p('s')],
       [_s('m', 0.01, opts={'force_repeat': True, 'repeat_limit': 3})],
       [_s('t1', 0.01), _p('t2')]], _p('z')], {}),
    # 4: two groups in a row, measurement + diagnoser
    ([['G', [_p('s1', plugs=[0]), _s('s2', 0.01)], [_p('m', m='pass', ds=[[['D1', 0]]])],
       [_p('t1')]],
      ['G', [_p('s3')], [_s('m3', 0.01)], [_p('t3')]]], {'start': START}),
    # 5: failing main and failing teardown
    ([['G', [_p('s', plugs=[0])], [_s('m', 0.02, r='X')],
       [_p('t1', r='X'), _p('t2')]], _p('z')], {}),
    # 6: branch taken, group inside
    ([_p('d', ds=[[['D1', 0]]], plugs=[0]),
      ['B', 'br', 'ANY', ['D1'], [['G', [_p('s')], [_s('m', 0.02)], [_p('t1')]]]],
      _p('z')], {}),
    # 7: plain sequence of slow phases with run_if and test diagnoser
    ([_s('a', 0.01, plugs=[0]), _p('b', run_if=False), _s('c', 0.01, noarg=True),
      _p('d', noarg=True)],
     {'tdiag': 'pass', 'start': START}),
    # 8: body that runs until it is killed
    ([_p('a', plugs=[0]), ['G', [_p('s')], [_p('m', r='H')], [_p('t1')]], _p('z')],
     {}),
    # 10: main body blocked in a C wait (a kill request has no effect, stop()
    # gives up after cancel_timeout_s) and teardown phases that use the test API
    ([_p('a', plugs=[0]), ['G', [_p('s')], [_p('m', r='HU')],
                            [_p('t1', m='pass'), _s('t2', 0.005, m='pass')]], _p('z')],
     {'cancel_timeout_s': 0.05}),
    # the same with cancel_timeout_s = 0 ("kill, do not wait")
    ([['G', [_p('s', plugs=[0])], [_p('m', r='HU')], [_p('t1', m='pass')]], _p('z')],
     {'cancel_timeout_s': 0}),
    # slow bodies with phase diagnosers attached (an aborted invocation is not
    # diagnosed)
    ([_s('a', 0.02, ds=[[['D1', 0]]], plugs=[0]),
      ['G', [_s('s', 0.01, ds=[[['D1', 0]]])], [_s('m', 0.02, ds=[[['D2', 1]]])],
       [_s('t1', 0.01, ds=[[['D1', 0]]])]], _p('z')], {}),
    # 9: long teardown (for second aborts)
    ([['G', [_p('s', plugs=[0])], [_s('m', 0.01, noarg=True)],
       [_s('t1', 0.03, noarg=True), _s('t2', 0.03), _p('t3')]], _p('z')], {}),
]
MODES = ['abort', 'sigint', 'inline', 'double', 'stress']   # + 'aabort', see enumerated()


def setup():
  pm.htf()
  from vf import abortlab
  abortlab.lab()


def enumerated(tier):
  per = PLAN[tier]['per']
  for fi in range(len(FAMILY)):
    for mode in MODES:
      n = per[mode]
      if n is None:
        for idx in range(3000):
          yield {'family': fi, 'mode': mode, 'idx': idx}
      else:
        for j in range(n):
          yield {'family': fi, 'mode': mode, 'pick': j}


  # every line any family program reaches (first hit) is the pause point of at
  # least one simple abort, and every line the aborting thread reaches is held
  # once while the framework threads run on
  for j in range(1400):
    yield {'family': None, 'mode': 'abort', 'cover': j}
  for fi in ((0, 5, 8) if tier == 'quick' else range(len(FAMILY))):
    for when in (('start',) if tier == 'quick' else ('start', 'end')):
      for idx in range(60 if tier == 'quick' else 400):
        yield {'family': fi, 'mode': 'aabort', 'when': when, 'idx': idx}


def sampled(tier, rng):
  return iter(())


_POINTS = {}
_REGIONS = {}


def execute_regions():
  """Line ranges of Test.execute by region (computed from the source)."""
  if _REGIONS:
    return _REGIONS
  from openhtf.core import test_descriptor
  fn = test_descriptor.Test.execute
  src, first = inspect.getsourcelines(fn)
  tree = ast.parse('class X:\n' + ''.join(src)) if src[0].startswith(' ') else \
      ast.parse(''.join(src))
  f = [n for n in ast.walk(tree) if isinstance(n, ast.FunctionDef)][0]
  off = first - f.lineno
  reg = {}
  with_node = [n for n in f.body if isinstance(n, ast.With)][0]
  try_node = [n for n in f.body if isinstance(n, ast.Try)][0]
  start_line = None
  for n in ast.walk(with_node):
    if (isinstance(n, ast.Call) and isinstance(n.func, ast.Attribute)
        and n.func.attr == 'start'):
      start_line = n.lineno + off
  registered_line = None
  for n in ast.walk(with_node):
    if isinstance(n, ast.Subscript) and isinstance(n.value, ast.Attribute) \
        and n.value.attr == 'TEST_INSTANCES':
      registered_line = n.lineno + off
  inner_try = [n for n in try_node.finalbody if isinstance(n, ast.Try)][0]
  _REGIONS.update(
      with_first=with_node.lineno + off, with_last=with_node.end_lineno + off,
      start_line=start_line, registered_line=registered_line,
      try_first=try_node.lineno + off,
      body_first=try_node.body[0].lineno + off,
      body_last=try_node.body[-1].end_lineno + off,
      handlers_last=try_node.handlers[-1].end_lineno + off,
      final_first=try_node.finalbody[0].lineno + off,
      inner_final_first=inner_try.finalbody[0].lineno + off,
      final_last=try_node.end_lineno + off)
  return _REGIONS


def region_of(line, hit=1):
  r = execute_regions()
  if line < r['with_first']:
    return 'before-lock'
  if line == r['with_first'] and hit >= 2:
    return 'executor-start'   # leaving the with block: registered, lock held
  if line <= r['with_last']:
    if r['start_line'] and line == r['start_line']:
      return 'executor-start'
    if r['registered_line'] and line > r['registered_line']:
      return 'registered-before-start'
    return 'in-lock-unregistered'
  if line < r['body_first']:
    return 'gap-before-try'
  if line <= r['body_last']:
    return 'wait'
  if line <= r['handlers_last']:
    return 'except-block'
  if line < r['inner_final_first']:
    return 'finalization'
  return 'cleanup'


def discover(fi):
  from vf import abortlab
  if fi not in _POINTS:
    prog, cfg = FAMILY[fi]
    if any(n[0] == 'P' and n[2].get('r') == 'H' for n, _ in pm.walk(prog)):
      # the hanging body only ends by an abort: discover with one
      obs = abortlab.run(prog, cfg, target=None, abort_after_event=('hang', 'm'))
    elif any(n[0] == 'P' and n[2].get('r') == 'HU' for n, _ in pm.walk(prog)):
      obs = abortlab.run(prog, cfg, target=None,
                         abort_after_event=('hang_unkillable', 'm'))
    else:
      obs = abortlab.run(prog, cfg, target=None)
    by_role = {'exec': [], 'phase': [], 'main': []}
    for key, n in sorted(obs['seen'].items()):
      if key[0] not in by_role:
        continue
      if key[0] == 'main' and not key[1].startswith('Test.execute'):
        continue
      for h in range(1, min(n, 3) + 1):
        by_role[key[0]].append((key, h))
    _POINTS[fi] = by_role
  return _POINTS[fi]


_COVER = []
_APOINTS = {}


def cover_list():
  if not _COVER:
    where = {}
    for fi in range(len(FAMILY)):
      by_role = discover(fi)
      for role in ('exec', 'phase', 'main'):
        for key, h in by_role[role]:
          if h <= 2:
            where.setdefault((key, h), []).append(fi)
    _COVER.extend(sorted(where.items()))
  return _COVER


def slow_pid(prog, cfg):
  for n, _ in pm.walk(prog):
    if n[0] == 'P' and (n[2].get('slow') or n[2].get('r') in ('H', 'HU')) and \
        n[1] not in ('start',):
      return n[1]
  return None


def pick_point(case, pts, salt):
  if 'pick' in case:
    rng = random.Random('%s/%s/%s/%s' % (case['family'], salt, case['pick'],
                                         os.environ.get('VERIF_SEED', '0')))
    return pts[rng.randrange(len(pts))] if pts else None
  return pts[case['idx']] if case['idx'] < len(pts) else None


def run_case(case):
  if case['mode'] == 'sigint' and not case.get('_in_child'):
    return run_in_child(case)
  return run_case_inner(case)


def run_in_child(case):
  """Real signals are process-wide and a self-deadlocked main thread cannot be
  abandoned: every real-SIGINT schedule runs in its own child process."""
  import json
  import os
  import subprocess
  import sys
  from vf import harness
  child_case = dict(case, _in_child=True)
  try:
    p = subprocess.run(
        [sys.executable, '-X', 'dev', '-W', 'ignore', '-m', 'vf.props.c04',
         json.dumps(child_case)],
        cwd=harness.VERIF, env=harness.worker_env(), capture_output=True,
        text=True, timeout=90)
    line = [l for l in p.stdout.splitlines() if l.startswith('RESULT ')]
    if not line:
      raise RuntimeError('child gave no result: rc=%s %s' % (
          p.returncode, (p.stderr or '')[-600:]))
    return json.loads(line[-1][7:])
  except subprocess.TimeoutExpired:
    raise RuntimeError('real-SIGINT child did not finish in 90 s')


def _child_main():
  import json
  import os
  import sys
  import threading
  import time
  from vf import abortlab
  case = json.loads(sys.argv[1])
  sys.argv = ['verif-c04-child']
  from vf import worker
  worker.normal_sigint()
  setup()
  started = time.monotonic()

  def watchdog():
    # a main thread that deadlocked inside the signal handler never returns
    while time.monotonic() - started < 20:
      time.sleep(0.5)

    def main_chain():
      fr = sys._current_frames().get(threading.main_thread().ident)  # pylint: disable=protected-access
      out = []
      while fr is not None:
        out.append((fr.f_code.co_name, fr.f_lineno))
        fr = fr.f_back
      return out

    c1 = main_chain()
    time.sleep(1.5)
    c2 = main_chain()
    if c1 != c2 or not c2 or c2[0][0] not in (
        'wait', 'acquire', 'abort_from_sig_int', '_wait_for_tstate_lock',
        'join', '__enter__'):
      # still making progress: a slow machine, not a verdict
      print('RESULT ' + json.dumps({
          'sig': None, 'violations': [], 'evaluations': 0,
          'counters': {'harness_errors': 1, 'sigint_child_slow': 1}}),
            flush=True)
      os._exit(0)
    frames = sys._current_frames()  # pylint: disable=protected-access
    main = frames.get(threading.main_thread().ident)
    chain = []
    f = main
    exec_line = None
    in_handler = False
    while f is not None:
      chain.append([f.f_code.co_name, f.f_lineno])
      if f.f_code.co_name == 'handle_sig_int':
        in_handler = True
      if (f.f_code.co_name == 'execute' and
          f.f_code.co_filename.endswith('test_descriptor.py')):
        exec_line = f.f_lineno
      f = f.f_back
    region = region_of(exec_line) if exec_line else 'unknown'
    mech = ('sigint-handler-outside-wait:' + region
            if in_handler and region != 'wait'
            else 'execute-did-not-return:deadlock')
    res = {'sig': [case['family'], 'sigint', 'hang', region],
           'violations': [{'mechanism': mech, 'detail': {
               'anomalies': ['execute-did-not-return:deadlock'],
               'main_thread': chain[:10], 'case': case,
               'events': [list(e[2:5]) for e in
                          list(abortlab.CURRENT['log'].events)][:60],
               'threads': abortlab.stacks(),
               'info': dict(abortlab.CURRENT.get('info') or {}),
               'engine': {'fired': abortlab.lab()['engine'].fired,
                          'target': repr(abortlab.lab()['engine'].target)}}}],
           'counters': {'schedules_run': 1, 'mode_sigint': 1, 'sigint_real': 1,
                        'aborts_performed': 1, 'runs_judged': 1,
                        'sigint_child_hangs': 1}}
    print('RESULT ' + json.dumps(res, default=repr), flush=True)
    os._exit(0)

  threading.Thread(target=watchdog, daemon=True).start()
  try:
    res = run_case_inner(case)
  except KeyboardInterrupt:
    # the Python-level handler of a SIGINT ran only after execute() had
    # returned and the lab had moved on (no test registered: default handler,
    # raised in harness code): the schedule was not realized, nothing to judge
    res = {'sig': None, 'violations': [], 'evaluations': 0, 'sample': False,
           'counters': {'sigint_handled_after_execute_returned': 1}}
  print('RESULT ' + json.dumps(res, default=repr), flush=True)
  os._exit(0)


def run_case_inner(case):
  from vf import abortlab
  fi, mode = case['family'], case['mode']
  skip = {'sig': None, 'violations': [], 'counters': {}, 'evaluations': 0,
          'sample': False}
  cover_target = None
  if 'cover' in case:
    cl = cover_list()
    if case['cover'] >= len(cl):
      return skip
    cover_target, fams = cl[case['cover']]
    fi = fams[(case['cover'] + int(os.environ.get('VERIF_SEED', '0'))) % len(fams)]
  prog, cfg = FAMILY[fi]
  by_role = discover(fi)
  allpts = by_role['exec'] + by_role['phase'] + by_role['main']
  ctx = {'family': fi, 'mode': mode}
  region = None
  if mode == 'abort':
    target = cover_target or pick_point(case, allpts, 'abort')
    if target is None:
      return skip
    obs = abortlab.run(prog, cfg, target=target, action='abort')
  elif mode == 'aabort':
    # the aborting thread itself is held at a line of its own path
    hang_body = any(n[0] == 'P' and n[2].get('r') == 'H' for n, _ in pm.walk(prog))
    hu_body = any(n[0] == 'P' and n[2].get('r') == 'HU' for n, _ in pm.walk(prog))
    ev = ('hang' if hang_body else 'hang_unkillable' if hu_body else case['when'],
          slow_pid(prog, cfg))
    akey = (fi, ev)
    if akey not in _APOINTS:
      d = abortlab.run(prog, cfg, abort_after_event=ev, abort_in_thread=True)
      pts = [(k, h) for k, n in sorted(d['seen'].items()) if k[0] == 'abort'
             for h in range(1, min(n, 3) + 1)]
      pts.sort(key=lambda p: (p[1], p[0]))
      _APOINTS[akey] = pts
    pts = _APOINTS[akey]
    if case['idx'] >= len(pts):
      return skip
    target = pts[case['idx']]
    ctx['abort_after'] = list(ev)
    obs = abortlab.run(prog, cfg, target=target, abort_after_event=ev,
                       abort_in_thread=True)
  elif mode == 'sigint':
    target = pick_point(case, by_role['exec'] + by_role['phase'], 'sigint')
    if target is None:
      return skip
    obs = abortlab.run(prog, cfg, target=target, action='abort',
                       real_sigint=True)
    if obs['info'].get('sigint_after_execute_returned'):
      # the signal was handled only after execute() had returned (CPython ran
      # the handler late): not an abort of a running test, nothing to judge
      return dict(skip, counters={'sigint_handled_after_execute_returned': 1})
  elif mode == 'inline':
    target = pick_point(case, by_role['main'], 'inline')
    if target is None:
      return skip
    region = region_of(target[0][2], target[1])
    obs = abortlab.run(prog, cfg, target=target, action='abort', inline=True,
                       join_s=8.0 if region == 'executor-start' else 25.0)
  elif mode == 'double':
    target = pick_point(case, by_role['exec'] + by_role['phase'], 'double')
    if target is None:
      return skip
    rng = random.Random('%s/second/%s' % (fi, case.get('pick', case.get('idx'))))
    if rng.random() < .5:
      second = 'after_teardown_start'
    else:
      pts2 = by_role['exec'] + by_role['phase']
      second = (pts2[rng.randrange(len(pts2))][0], 1)
    ctx['second'] = second if isinstance(second, str) else [list(second[0]), 1]
    obs = abortlab.run(prog, cfg, target=target, action='abort', second=second)
  else:  # stress: yield injection + abort after a random body event
    seed = case.get('pick', case.get('idx', 0))
    if 'idx' in case and case['idx'] >= 200:
      return skip
    rng = random.Random('%s/stress/%s' % (fi, seed))
    phases = [n[1] for n, _ in pm.walk(prog) if n[0] == 'P'
              and n[2].get('run_if') is not False]
    pid = rng.choice(phases)
    target = (('stress', pid, rng.choice(['start', 'end'])), seed)
    obs = abortlab.run(prog, cfg, target=None,
                       abort_after_event=(target[0][2], pid),
                       yield_seed=seed, yield_prob=0.25)
  ctx['point'] = [list(target[0]), target[1]]
  if target[0][0] == 'main' and region is None:
    region = region_of(target[0][2], target[1])
  if region:
    ctx['region'] = region
  # An abort that completes before the test is registered / has an executor is
  # not an abort of a running test: only return and post-state are judged.
  not_running = False
  if mode == 'inline' and region in ('before-lock', 'in-lock-unregistered'):
    not_running = True
  if mode == 'abort' and target[0][0] == 'main' and (
      region == 'before-lock' or
      target[0][2] == execute_regions()['with_first']):
    not_running = True
  if mode == 'sigint':
    lines = obs['info'].get('sigint_lines') or []
    if lines:
      region = region_of(lines[0])
      ctx['region'] = region
      ctx['sigint_line'] = lines[0]
      if region in ('before-lock', 'in-lock-unregistered'):
        not_running = True
  viol, c = judge(prog, cfg, obs, ctx, mode, not_running)
  if mode in ('inline', 'sigint') and region not in ('wait', 'except-block', None):
    # the handler ran on the main thread while execute() was not inside
    # _executor.wait(): every anomaly of such a run is keyed by the region
    if viol:
      viol = [{'mechanism': 'sigint-handler-outside-wait:' + region,
               'detail': {'anomalies': [v['mechanism'] for v in viol],
                          'first': viol[0]['detail']}}]
  c['schedules_run'] = 1
  c['mode_' + mode] = 1
  return {'sig': [fi, mode, list(target[0]), target[1]]
          if c.get('aborts_performed') else None,
          'violations': viol, 'counters': c}


def judge(prog, cfg, obs, ctx, mode, not_running=False):
  from vf import abortlab
  ev = obs['events']
  viol = []
  c = {'aborts_performed': 0, 'runs_judged': 0, 'aborted_outcomes': 0,
       'sigint_real': 0, 'inline_handler_runs': 0, 'double_aborts': 0,
       'pause_not_reached': 0, 'action_blocked': 0}

  def bad(mech, **d):
    if len(viol) < 6:
      viol.append({'mechanism': mech, 'detail': dict(
          ctx, **d, events=[list(e[2:5]) for e in ev][:60])})

  def seq_of(kind):
    for e in ev:
      if e[2] == kind:
        return e[0]
    return None

  a1c, a1r = seq_of('abort_call'), seq_of('abort_ret')
  a2c, a2r = seq_of('abort2_call'), seq_of('abort2_ret')
  if not obs['info'].get('reached'):
    c['pause_not_reached'] = 1
  if obs['info'].get('blocked'):
    c['action_blocked'] = 1
  # (1) execute() returns ----------------------------------------------------
  if obs['hang']:
    if obs['hang']['same_stacks']:
      bad('execute-did-not-return:deadlock', stacks=obs['hang']['stacks'])
    else:
      bad('execute-did-not-return:still-busy', stacks=obs['hang']['stacks'])
    return viol, c
  res = obs['result']
  if 'exc' in res:
    bad('execute-raised:' + res['exc'].split(':')[0], exc=res['exc'])
  post = obs.get('post') or {}
  if post.get('executor_set'):
    bad('test-still-holds-executor-after-execute')
  if post.get('registered'):
    bad('test-still-registered-for-sigint-after-execute')
  if a1c is None:
    return viol, c          # the abort never happened (point not reached)
  c['aborts_performed'] = 1
  if not_running:
    c['aborts_before_test_was_running'] = 1
    return viol, c
  c['runs_judged'] = 1
  if mode == 'sigint':
    c['sigint_real'] = 1
  if mode == 'inline':
    c['inline_handler_runs'] = 1
  if a2r is not None:
    c['double_aborts'] = 1
  tds = abortlab.teardown_phase_ids(prog)
  starts = [e for e in ev if e[2] == 'start']
  # (2) nothing but teardown starts after the abort call has returned ---------
  if a1r is not None:
    late = [e[3] for e in starts if e[0] > a1r and e[3] not in tds]
    if late:
      bad('phase-started-after-abort-returned', phases=late[:4])
  # (8) after a second abort nothing starts at all ---------------------------
  if a2r is not None:
    late2 = [e[3] for e in starts if e[0] > a2r]
    if late2:
      bad('phase-started-after-second-abort-returned', phases=late2[:4])
  # (5) callbacks exactly once with a finalized record ------------------------
  cbs = [e for e in ev if e[2] == 'callback']
  if len(cbs) != 1:
    bad('callbacks-not-exactly-once', count=len(cbs))
  elif cbs[0][3] is None:
    bad('callback-got-unfinalized-record')
  # (7) nothing starts after finalization -------------------------------------
  if cbs:
    after = [e[3] for e in starts if e[0] > cbs[0][0]]
    if after:
      bad('phase-started-after-record-was-finalized', phases=after[:4])
    late_td = [e for e in ev if e[2] == 'plug_td' and e[0] > cbs[0][0]]
    if late_td:
      bad('plug-teardown-after-output-callback')
  # (6) no two bodies of the test at once --------------------------------------
  open_body = None
  for e in ev:
    if e[2] == 'start':
      if open_body is not None:
        bad('two-phase-bodies-at-once', first=open_body, second=e[3])
        break
      open_body = e[3]
    elif e[2] == 'end' and open_body == e[3]:
      open_body = None
    elif e[2] == 'hang_unkillable' and open_body == e[3]:
      open_body = None    # blocked in C for good: abandoned, not "running"
  # (9) a running cooperative body was asked to terminate ---------------------
  hangs = [e for e in ev if e[2] == 'hang' and e[0] < a1c]
  cleanup = seq_of('cleanup_abort')
  for h in hangs:
    killed = any(e[2] == 'raised' and e[3] == h[3] and e[4] == h[4] and
                 e[5] == 'ThreadTerminationError' and
                 (cleanup is None or e[0] < cleanup) for e in ev)
    if not killed and h[3] not in tds:
      bad('running-body-not-asked-to-terminate', phase=h[3])
  # (11) an invocation that was killed is recorded as killed and not diagnosed ----
  for e in ev:
    if e[2] == 'raised' and e[5] == 'ThreadTerminationError':
      pid, inv = e[3], e[4]
      if (pid, inv) in {(h[3], h[4]) for h in ev if h[2] == 'hang_unkillable'}:
        continue
      later_diag = [d for d in ev if d[2] == 'diag' and d[3] == pid and d[0] > e[0]]
      c['killed_invocations_judged'] = c.get('killed_invocations_judged', 0) + 1
      if later_diag and not any(x[2] == 'start' and x[3] == pid and x[0] > e[0]
                                for x in ev):
        bad('diagnoser-ran-for-a-killed-invocation', phase=pid)
  # (10) what a body that ran to completion did is what its record says ---------
  behs = {n[1]: n[2] for n, _ in pm.walk(prog) if n[0] == 'P'}
  recs_by_name = {}
  for p in obs.get('phases') or []:
    recs_by_name.setdefault(p[0], []).append(p)
  meas = dict((name, dict(ms)) for name, ms in (obs.get('meas') or []))
  for pid, beh in behs.items():
    if beh.get('r', 'C') not in ('C', None) or pid not in recs_by_name:
      continue
    first_start = [e[0] for e in ev if e[2] == 'start' and e[3] == pid][:1]
    if a1r is None or a2c is not None or not first_start or first_start[0] < a1r:
      continue   # only bodies begun after the (single) abort had returned:
                 # nothing is allowed to kill those
    ends = [e for e in ev if e[2] == 'end' and e[3] == pid]
    raised = [e for e in ev if e[2] == 'raised' and e[3] == pid]
    odd = [e[5] for e in raised if e[5] != 'ThreadTerminationError']
    if odd:
      bad('phase-body-raised-unexpectedly:' + odd[0], phase=pid)
    elif ends and not raised and len(recs_by_name[pid]) == 1:
      c['completed_bodies_judged'] = c.get('completed_bodies_judged', 0) + 1
      rec = recs_by_name[pid][0]
      if beh.get('m') == 'pass' and meas.get(pid, {}).get('m_' + pid) != 'PASS':
        bad('measurement-of-completed-body-not-recorded', phase=pid,
            got=meas.get(pid))
      elif rec[1] != 'PASS' and beh.get('m') in (None, 'pass') and not beh.get('ds'):
        bad('completed-body-not-recorded-PASS', phase=pid, record=rec[:3])
  # (3) teardown of entered groups + plug tearDown ----------------------------
  if obs.get('phases') is not None and cbs:
    o2 = dict(obs)
    o2['second_abort'] = a2c is not None
    if a2c is None:
      v, gc = grouporacle.judge(prog, o2)
      for x in v:
        x['detail'].update(ctx)
        x['detail']['events'] = [list(e[2:5]) for e in ev][:60]
      viol.extend(v)
      c['groups_judged'] = gc['groups_judged']
      c['groups_entered'] = gc['groups_entered']
  ctors = {}
  for e in ev:
    if e[2] == 'plug_ctor':
      ctors[e[4]] = ctors.get(e[4], 0) + 1
  tdn = {}
  for e in ev:
    if e[2] == 'plug_td':
      tdn[e[4]] = tdn.get(e[4], 0) + 1
  for iid in ctors:
    if tdn.get(iid, 0) != 1:
      bad('plug-teardown-count-%d' % tdn.get(iid, 0))
  # (4) outcome ---------------------------------------------------------------
  first_td = seq_of('plug_td')
  outcome = obs.get('outcome')
  if cbs and a1r is not None and first_td is not None and a1r < first_td:
    if outcome != 'ABORTED':
      bad('outcome-not-ABORTED:' + str(outcome))
  if outcome == 'ABORTED':
    c['aborted_outcomes'] = 1
  if cbs and outcome == 'PASS' and a1r is not None and first_td is not None \
      and a1r < first_td:
    bad('aborted-run-ended-PASS')
  if 'ret' in res and res['ret'] is True and outcome != 'PASS':
    bad('return-value-differs-from-outcome', ret=res['ret'], outcome=outcome)
  if obs['crash']:
    bad('framework-thread-crashed:%s@%s' % tuple(obs['crash'][0][:2]),
        crash=obs['crash'][:2])
  return viol, c


if __name__ == '__main__':
  _child_main()
