"""C20 — configuration: flag > loaded > default, consistent views, exact restore.

Monitor: every operation sequence is applied to a fresh real _Configuration and
to a reference dictionary model; after every operation every read API is
queried for every key of the universe and compared (value or exception class).
"""
import argparse
import io
import itertools
import json
import logging
import threading

PROPERTY = 'C20'
LEVEL = 'exploration'
RULE = ('one case = one sequence of configuration operations (declare +- default, '
        'redeclare, load/load_from_dict/load_from_file with _override and '
        '_allow_undeclared, flag values, reset, save_and_restore plain / with values, called at once '
        'or decorated now and called later (twice), '
        '/ raising (also KeyboardInterrupt / SystemExit) / nested, attribute assignment) on a fresh _Configuration; two threads on one '
        'configuration object, the first held at each line of declare / load / reset while the second operates on the same key; after '
        'each operation `in`, item, attribute, holder.value, holder.default and '
        '_asdict() are compared with the dictionary model for every key of the '
        'universe; distinct = distinct operation sequence, non-trivial = at least '
        'one operation changed the model state')
ASSUMPTIONS = [
    'keys are valid lower-case names that do not collide with _Configuration method names',
    'undeclared keys loaded with _allow_undeclared may appear in _asdict(); only declared keys are compared there',
    'flag values are injected through load_flag_values(Namespace(config_value=[...]))',
]
REQUIRED_COUNTERS = ['reads_compared', 'ops_applied', 'state_changes']
EXHAUSTIVE = {'quick': True, 'thorough': True}
PLAN = {
    'quick': {'workers': 16, 'budget_s': 40, 'sampled_per_worker': 300},
    'thorough': {'workers': 16, 'budget_s': 400, 'sampled_per_worker': 4000},
}

KEYS = ['alpha', 'beta', 'gamma', 'delta']
NOT_SET = '<not-set>'

# The reduced alphabet for exhaustive enumeration.
ALPHABET = [
    ['declare', 'alpha', NOT_SET],
    ['declare', 'alpha', 1],
    ['declare', 'beta', None],
    ['declare', 'gamma', 'dflt'],
    ['load', {'alpha': 2}, True, False],
    ['load', {'alpha': 3}, False, False],
    ['load', {'beta': [4]}, True, False],
    ['load', {'gamma': 5, 'alpha': 55}, True, False],
    ['load', {'gamma': 6}, True, True],
    ['load_kwargs', {'beta': 'kw'}, False, True],
    ['flag', ['alpha=9']],
    ['flag', ['gamma=text', 'alpha=10']],
    ['reset'],
    ['snr', {}, [['load', {'alpha': 7}, True, False]], False],
    ['snr', {'alpha': 8}, [], False],
    ['snr', {'alpha': 8, 'beta': 'b'}, [['load', {'beta': 0}, True, False]], True],
    ['snr', {'alpha': 8}, [['load', {'gamma': 15}, True, False]], 'kbi'],
    ['snr', {}, [['load', {'alpha': 16}, True, False]], 'exit'],
    # decoration and call separated: the wrapper is made now and called later
    # (possibly twice), with loads in between
    ['snr_dec', 0, {}],
    ['snr_dec', 1, {'alpha': 8}],
    ['snr_call', 0, [['load', {'alpha': 7}, True, False]], False],
    ['snr_call', 0, [], True],
    ['snr_call', 1, [['load', {'gamma': 14}, True, False]], False],
    ['setattr', 'alpha', 1],
    ['file', '{"alpha": 11, "gamma": 12}', True, False],
    ['file', 'alpha: 13\nbeta: {x: 1}\n', False, False],
    ['file', '{not yaml: [', True, False],
    ['file', '- 1\n- 2\n', True, False],
]
PREFIX = [['declare', 'alpha', 1], ['declare', 'beta', None],
          ['declare', 'gamma', 'dflt']]
VALUES = [0, 1, -1, 2.5, 'txt', '', None, True, False, [1, 2], {'k': 'v'},
          'alpha']


def enumerated(tier):
  n = 3 if tier == 'quick' else 4
  for length in range(1, n + 1):
    for seq in itertools.product(range(len(ALPHABET)), repeat=length):
      yield {'seq': list(seq)}
  # the same sequences on a configuration whose keys are already declared
  declaring = {i for i, op in enumerate(ALPHABET) if op[0] == 'declare'}
  for length in range(1, n + 1):
    for seq in itertools.product(range(len(ALPHABET)), repeat=length):
      if not declaring.intersection(seq):
        yield {'seq': list(seq), 'pre': True}
  for a_op, b_op in (('declare', 'declare'), ('declare', 'load'), ('load', 'declare'),
                     ('load', 'load'), ('reset', 'load'), ('load', 'reset')):
    for idx in range(60):
      yield {'race': 1, 'a': a_op, 'b': b_op, 'idx': idx}
  yield {'e2e': 1}
  yield {'e2e': 2}
  yield {'invalid_keys': 1}


def _rand_op(rng, depth=0):
  k = rng.choice(['declare', 'declare', 'load', 'load', 'load', 'load_kwargs',
                  'flag', 'reset', 'snr', 'setattr', 'file'])
  key = lambda: rng.choice(KEYS)
  val = lambda: rng.choice(VALUES)
  if k == 'declare':
    return ['declare', key(), rng.choice([NOT_SET, NOT_SET, val()])]
  if k in ('load', 'load_kwargs'):
    d = {key(): val() for _ in range(rng.randint(0, 3))}
    return [k, d, rng.random() < .6, rng.random() < .3]
  if k == 'flag':
    return ['flag', ['%s=%s' % (key(), rng.choice(['1', 'x', '2.5', 'true',
                                                    '[1, 2]', 'a=b', '']))
                     for _ in range(rng.randint(1, 2))]]
  if k == 'reset':
    return ['reset']
  if k == 'snr':
    inner = ([_rand_op(rng, depth + 1) for _ in range(rng.randint(0, 3))]
             if depth < 2 else [])
    return ['snr', {key(): val() for _ in range(rng.randint(0, 2))}, inner,
            rng.choice([False, False, False, True, True, 'kbi', 'exit'])]
  if k == 'setattr':
    return ['setattr', key(), val()]
  d = {key(): rng.choice([1, 'two', [3], None, 2.5])
       for _ in range(rng.randint(0, 3))}
  text = rng.choice([json.dumps(d), '\n'.join('%s: %s' % (a, json.dumps(b))
                                              for a, b in d.items()) or '{}',
                     '{broken', '[1]', '"str"', ''])
  return ['file', text, rng.random() < .6, rng.random() < .3]


def sampled(tier, rng):
  while True:
    yield {'ops': [_rand_op(rng) for _ in range(rng.randint(5, 30))]}


# ------------------------------------------------------------------ the model
class ModelError(Exception):

  def __init__(self, name):
    super().__init__(name)
    self.name = name


class Model:
  """Reference dictionary model written from the property statement."""

  def __init__(self):
    self.decl = {}     # key -> default or NOT_SET
    self.loaded = {}
    self.flags = {}
    self.wrappers = {}   # slot -> values given at decoration time

  def snapshot(self):
    return (dict(self.decl), dict(self.loaded), dict(self.flags))

  def read(self, key):
    if key not in self.decl:
      raise ModelError('UndeclaredKeyError')
    if key in self.flags:
      return self.flags[key]
    if key in self.loaded:
      return self.loaded[key]
    default = self.decl[key]
    if not (isinstance(default, str) and default == NOT_SET):
      return default
    raise ModelError('UnsetKeyError')

  def has(self, key):
    try:
      self.read(key)
      return True
    except ModelError:
      return False

  def load(self, d, override, allow_undeclared):
    for k, v in d.items():
      if k not in self.decl and not allow_undeclared:
        continue
      if k in self.loaded and not override:
        continue
      self.loaded[k] = v

  def apply(self, op):
    """Returns the expected exception name or None."""
    import yaml
    kind = op[0]
    if kind == 'declare':
      _, key, default = op
      if key in self.decl:
        return 'KeyAlreadyDeclaredError'
      self.decl[key] = default
      return None
    if kind in ('load', 'load_kwargs'):
      self.load(op[1], op[2], op[3])
      return None
    if kind == 'flag':
      for kv in op[1]:
        k, v = kv.split('=', 1)
        self.flags.setdefault(k, yaml.safe_load(v))
      return None
    if kind == 'reset':
      self.loaded = {}
      return None
    if kind == 'snr':
      _, values, inner, raises = op
      saved = dict(self.loaded)
      self.load(values, True, False)
      for sub in inner:
        self.apply(sub)
      self.loaded = saved
      return raised_name(raises)
    if kind == 'snr_dec':
      self.wrappers[op[1]] = dict(op[2])
      return None
    if kind == 'snr_call':
      _, slot, inner, raises = op
      if slot not in self.wrappers:
        return None
      saved = dict(self.loaded)
      self.load(self.wrappers[slot], True, False)
      for sub in inner:
        self.apply(sub)
      self.loaded = saved
      return raised_name(raises)
    if kind == 'setattr':
      return 'AttributeError'
    if kind == 'file':
      _, text, override, allow = op
      try:
        parsed = yaml.safe_load(text)
      except yaml.YAMLError:
        return 'ConfigurationInvalidError'
      if not isinstance(parsed, dict):
        return 'ConfigurationInvalidError'
      self.load(parsed, override, allow)
      return None
    raise ValueError(op)


class Boom(Exception):
  pass


def raise_kind(raises):
  """What a wrapped body ends with: an Exception, or a BaseException that is
  not one (Ctrl-C, sys.exit / a killed phase thread)."""
  if raises == 'kbi':
    raise KeyboardInterrupt('body interrupted')
  if raises == 'exit':
    raise SystemExit('body exits')
  raise Boom()


def raised_name(raises):
  return {True: 'Boom', 'kbi': 'KeyboardInterrupt', 'exit': 'SystemExit'}.get(
      raises) if raises else None


def apply_real(conf, holders, op):
  kind = op[0]
  if kind == 'declare':
    _, key, default = op
    if isinstance(default, str) and default == NOT_SET:
      h = conf.declare(key, 'desc of ' + key)
    else:
      h = conf.declare(key, default_value=default)
    holders[key] = h
  elif kind == 'load':
    conf.load_from_dict(dict(op[1]), _override=op[2], _allow_undeclared=op[3])
  elif kind == 'load_kwargs':
    conf.load(_override=op[2], _allow_undeclared=op[3], **op[1])
  elif kind == 'flag':
    conf.load_flag_values(argparse.Namespace(config_value=list(op[1])))
  elif kind == 'reset':
    conf.reset()
  elif kind == 'snr':
    _, values, inner, raises = op

    def body():
      for sub in inner:
        try:
          apply_real(conf, holders, sub)
        except BaseException:  # pylint: disable=broad-except
          pass  # inner failures are compared by the state reads afterwards
      if raises:
        raise_kind(raises)
      return 'ret'

    if values:
      wrapped = conf.save_and_restore(**values)(body)
    else:
      wrapped = conf.save_and_restore(body)
    r = wrapped()
    if r != 'ret':
      raise AssertionError('save_and_restore lost the return value')
  elif kind == 'snr_dec':
    _, slot, values = op
    cell = holders.setdefault('_snr_cells', {}).setdefault(slot, {})

    def body(_cell=cell):
      for sub in _cell.get('inner', []):
        try:
          apply_real(conf, holders, sub)
        except BaseException:  # pylint: disable=broad-except
          pass
      if _cell.get('raises'):
        raise_kind(_cell['raises'])
      return 'ret'

    if values:
      cell['wrapped'] = conf.save_and_restore(**values)(body)
    else:
      cell['wrapped'] = conf.save_and_restore(body)
  elif kind == 'snr_call':
    _, slot, inner, raises = op
    cell = holders.get('_snr_cells', {}).get(slot)
    if cell is not None:
      cell['inner'], cell['raises'] = inner, raises
      if cell['wrapped']() != 'ret':
        raise AssertionError('save_and_restore lost the return value')
  elif kind == 'setattr':
    setattr(conf, op[1], op[2])
  elif kind == 'file':
    conf.load_from_file(io.StringIO(op[1]), _override=op[2],
                        _allow_undeclared=op[3])
  else:
    raise ValueError(op)


def _same(a, b):
  return type(a) is type(b) and a == b


def compare_reads(conf, holders, model, viol, counters, after):
  snap = None
  for key in KEYS:
    # expected
    try:
      want = ('ok', model.read(key))
    except ModelError as e:
      want = ('exc', e.name)
    reads = {}
    try:
      reads['item'] = ('ok', conf[key])
    except Exception as e:  # pylint: disable=broad-except
      reads['item'] = ('exc', type(e).__name__)
    try:
      reads['attr'] = ('ok', getattr(conf, key))
    except Exception as e:  # pylint: disable=broad-except
      reads['attr'] = ('exc', type(e).__name__)
    if key in holders:
      try:
        reads['holder'] = ('ok', holders[key].value)
      except Exception as e:  # pylint: disable=broad-except
        reads['holder'] = ('exc', type(e).__name__)
      d = model.decl[key]
      want_default = (('exc', 'DefaultNotDefinedError')
                      if isinstance(d, str) and d == NOT_SET else ('ok', d))
      try:
        got_default = ('ok', holders[key].default)
      except Exception as e:  # pylint: disable=broad-except
        got_default = ('exc', type(e).__name__)
      counters['reads_compared'] += 1
      if got_default[0] != want_default[0] or not _same(got_default[1],
                                                        want_default[1]):
        viol.append({'mechanism': 'holder-default-differs',
                     'detail': {'key': key, 'want': repr(want_default),
                                'got': repr(got_default), 'after': after}})
    for api, got in reads.items():
      counters['reads_compared'] += 1
      if got[0] != want[0] or not _same(got[1], want[1]):
        viol.append({'mechanism': 'read-%s-differs:%s' % (
            api, want[1] if want[0] == 'exc' else 'value'),
                     'detail': {'key': key, 'want': repr(want),
                                'got': repr(got), 'after': after}})
    counters['reads_compared'] += 1
    got_in = key in conf
    if got_in != model.has(key):
      viol.append({'mechanism': 'contains-differs',
                   'detail': {'key': key, 'want': model.has(key),
                              'got': got_in, 'after': after}})
    if snap is None:
      snap = conf._asdict()  # pylint: disable=protected-access
    if key in model.decl:
      counters['reads_compared'] += 1
      if model.has(key):
        if key not in snap or not _same(snap[key], model.read(key)):
          viol.append({'mechanism': 'asdict-differs',
                       'detail': {'key': key, 'want': repr(want),
                                  'got': repr(snap.get(key, '<absent>')),
                                  'after': after}})
      elif key in snap:
        viol.append({'mechanism': 'asdict-has-unset-key',
                     'detail': {'key': key, 'got': repr(snap[key]),
                                'after': after}})
    else:
      # an undeclared key must not be *readable*; flags never inject it
      if key in snap and key not in model.loaded:
        viol.append({'mechanism': 'asdict-injects-undeclared',
                     'detail': {'key': key, 'got': repr(snap[key]),
                                'after': after}})


_CONFIGURATION = None


_ENGINE = {}
_RACE_POINTS = {}


def setup():
  global _CONFIGURATION
  from openhtf.util import configuration
  from vf import harness, pause
  harness.assert_root(configuration)
  _CONFIGURATION = configuration
  eng = pause.Engine([configuration.__file__],
                     lambda th: 'A' if th.name == 'vf-conf-A' else None)
  eng.install()
  eng.enabled = False
  _ENGINE['e'] = eng


def teardown():
  _ENGINE['e'].uninstall()


def run_race(case):
  """Two threads use one configuration object: thread A is held at each line of
  an operation (declare / load / reset) while thread B performs another one on
  the same key.  A key is declared once (the loser gets KeyAlreadyDeclaredError)
  and all views of it agree afterwards."""
  eng = _ENGINE['e']
  a_op, b_op = case['a'], case['b']

  def do(conf, op, holders, out, tag):
    try:
      if op == 'declare':
        holders[tag] = conf.declare('alpha', default_value=tag)
      elif op == 'load':
        conf.load(alpha='loaded-by-' + tag, _allow_undeclared=True)
      elif op == 'reset':
        conf.reset()
      out[tag] = 'ok'
    except BaseException as e:  # pylint: disable=broad-except
      out[tag] = type(e).__name__

  def scenario(target):
    conf = _CONFIGURATION._Configuration()  # pylint: disable=protected-access
    if a_op != 'declare' and b_op != 'declare':
      conf.declare('alpha', default_value='dflt')
    holders, out, info = {}, {}, {'reached': False}
    eng.arm(target)
    eng.enabled = True
    try:
      ta = threading.Thread(target=do, args=(conf, a_op, holders, out, 'A'),
                            name='vf-conf-A')
      ta.start()
      if target is not None:
        r = eng.run_action_at_pause(lambda: do(conf, b_op, holders, out, 'B'),
                                    wait_s=3, hold_s=0.15)
        info['reached'] = r['reached']
        if r.get('_thread'):
          r['_thread'].join(5)
      ta.join(5)
      if 'B' not in out:
        do(conf, b_op, holders, out, 'B')
    finally:
      eng.release()
      eng.enabled = False
    info['seen'] = dict(eng.seen)
    return conf, holders, out, info

  key = (a_op, b_op)
  if key not in _RACE_POINTS:
    _, _, _, info = scenario(None)
    _RACE_POINTS[key] = [(k, h) for k, n in sorted(info['seen'].items())
                         for h in range(1, min(n, 2) + 1)]
  pts = _RACE_POINTS[key]
  if case['idx'] >= len(pts):
    return {'sig': None, 'violations': [], 'counters': {}, 'evaluations': 0,
            'sample': False}
  target = pts[case['idx']]
  conf, holders, out, info = scenario(target)
  viol = []
  ctx = {'a': a_op, 'b': b_op, 'a_held_at': [list(target[0]), target[1]],
         'results': out}
  c = {'reads_compared': 0, 'ops_applied': 2, 'state_changes': 1,
       'op_exceptions_expected': 0, 'races_run': 1 if info['reached'] else 0}
  if a_op == 'declare' and b_op == 'declare':
    oks = [t for t in ('A', 'B') if out.get(t) == 'ok']
    if len(oks) != 1 or sorted(out.values()) != ['KeyAlreadyDeclaredError', 'ok']:
      viol.append({'mechanism': 'key-declared-twice' if len(oks) == 2 else
                   'racing-declare-results-differ', 'detail': ctx})
  elif any(v != 'ok' for v in out.values()):
    viol.append({'mechanism': 'racing-op-raised:%s' % sorted(
        v for v in out.values() if v != 'ok')[0], 'detail': ctx})
  # all views of the key agree
  try:
    views = {'item': conf['alpha'], 'attr': conf.alpha, 'asdict': conf._asdict()['alpha']}  # pylint: disable=protected-access
    for tag, h in holders.items():
      views['holder-' + tag] = h.value
    c['reads_compared'] = len(views)
    if len({repr(v) for v in views.values()}) != 1:
      viol.append({'mechanism': 'views-disagree-after-race',
                   'detail': dict(ctx, views={k: repr(v) for k, v in views.items()})})
    for tag, h in holders.items():
      if out.get(tag) == 'ok' and h.default != tag:
        viol.append({'mechanism': 'holder-default-differs', 'detail': ctx})
  except Exception as e:  # pylint: disable=broad-except
    viol.append({'mechanism': 'read-after-race-raised:' + type(e).__name__,
                 'detail': ctx})
  return {'sig': ['race', a_op, b_op, list(target[0]), target[1]],
          'violations': viol[:3], 'counters': c}
  logging.getLogger('openhtf').setLevel(logging.CRITICAL + 10)
  logging.getLogger('openhtf').propagate = False


def run_ops(ops, case):
  conf = _CONFIGURATION._Configuration()  # pylint: disable=protected-access
  model = Model()
  holders = {}
  viol = []
  counters = {'reads_compared': 0, 'ops_applied': 0, 'state_changes': 0,
              'op_exceptions_expected': 0}
  for i, op in enumerate(ops):
    before = model.snapshot()
    want_exc = model.apply(op)
    try:
      apply_real(conf, holders, op)
      got_exc = None
    except BaseException as e:  # pylint: disable=broad-except
      got_exc = type(e).__name__
    counters['ops_applied'] += 1
    if want_exc:
      counters['op_exceptions_expected'] += 1
    if model.snapshot() != before:
      counters['state_changes'] += 1
    if got_exc != want_exc:
      viol.append({'mechanism': 'op-%s-exception-differs' % op[0],
                   'detail': {'op': op, 'want': want_exc, 'got': got_exc,
                              'index': i}})
    compare_reads(conf, holders, model, viol, counters, after=[i, op[0]])
    if viol:
      break
  return {'sig': case if counters['state_changes'] else None,
          'violations': viol[:4], 'counters': counters,
          'evaluations': 1}


def run_e2e(which):
  """The _asdict() snapshot stored in test metadata agrees with item reads."""
  import openhtf as htf
  from openhtf.util import configuration
  conf = configuration.CONF
  viol = []
  counters = {'reads_compared': 0, 'ops_applied': 1, 'state_changes': 1}
  recs = []
  name = 'verif_e2e_key_%d' % which
  if name not in conf._declarations:  # pylint: disable=protected-access
    conf.declare(name, default_value='d%d' % which)
  if 'verif_e2e_unset' not in conf._declarations:  # pylint: disable=protected-access
    conf.declare('verif_e2e_unset')

  def phase(test):
    del test

  @conf.save_and_restore(**({name: 'loaded'} if which == 2 else {}))
  def go():
    t = htf.Test(phase)
    t.add_output_callbacks(recs.append)
    import contextlib
    with contextlib.redirect_stdout(io.StringIO()):
      t.execute()
    return {k: (conf[k] if k in conf else '<unset>')
            for k in conf._declarations}  # pylint: disable=protected-access
  live = go()
  snap = recs[0].metadata['config']
  for k, v in live.items():
    counters['reads_compared'] += 1
    if isinstance(v, str) and v == '<unset>':
      if k in snap:
        viol.append({'mechanism': 'metadata-config-has-unset-key',
                     'detail': {'key': k}})
    elif k not in snap or snap[k] != v:
      viol.append({'mechanism': 'metadata-config-differs',
                   'detail': {'key': k, 'want': repr(v),
                              'got': repr(snap.get(k, '<absent>'))}})
  want = 'loaded' if which == 2 else 'd%d' % which
  if snap.get(name) != want:
    viol.append({'mechanism': 'metadata-config-differs',
                 'detail': {'key': name, 'want': want,
                            'got': repr(snap.get(name))}})
  if conf[name] != 'd%d' % which:
    viol.append({'mechanism': 'save_and_restore-leaks',
                 'detail': {'key': name, 'got': repr(conf[name])}})
  return {'sig': {'e2e': which}, 'violations': viol, 'counters': counters}


def run_invalid_keys():
  conf = _CONFIGURATION._Configuration()  # pylint: disable=protected-access
  viol = []
  counters = {'reads_compared': 0, 'ops_applied': 0, 'state_changes': 1}
  for bad in ['Upper', '_under', '1digit', '']:
    counters['ops_applied'] += 1
    try:
      conf.declare(bad)
      viol.append({'mechanism': 'declare-accepts-invalid-key',
                   'detail': {'key': bad}})
    except _CONFIGURATION.InvalidKeyError:
      pass
    except Exception as e:  # pylint: disable=broad-except
      viol.append({'mechanism': 'declare-invalid-key-wrong-exception',
                   'detail': {'key': bad, 'exc': type(e).__name__}})
    counters['reads_compared'] += 1
    if bad in conf:
      viol.append({'mechanism': 'contains-differs', 'detail': {'key': bad}})
  return {'sig': {'invalid': 1}, 'violations': viol, 'counters': counters}


def run_case(case):
  if 'race' in case:
    return run_race(case)
  if 'e2e' in case:
    return run_e2e(case['e2e'])
  if 'invalid_keys' in case:
    return run_invalid_keys()
  ops = case['ops'] if 'ops' in case else [ALPHABET[i] for i in case['seq']]
  if case.get('pre'):
    ops = PREFIX + ops
  return run_ops(ops, case)
