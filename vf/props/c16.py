"""C16 — fastboot command/response state machine and exact image transfer.

Monitor: a scripted fake bootloader records every packet; returns, exceptions
and callback calls of the real FastbootCommands are compared with a protocol
automaton written from the property statement.
"""
import io
import itertools
import os
import tempfile

PROPERTY = 'C16'
LEVEL = 'exploration'
RULE = ('one case = (command method, arguments, device response sequence over '
        '{INFO (with text or bare), OKAY (with text or bare), DATA(size ok), DATA(other size), FAIL, garbage}) or (download '
        'source kind, image size around multiples of the chunk size, response '
        'sequence, progress-callback behaviour); packets received by the fake '
        'bootloader, return value, exception class/text, INFO callbacks and progress '
        'calls are compared with the automaton; distinct = distinct case, '
        'non-trivial = at least one packet was received by the fake bootloader')
ASSUMPTIONS = [
    'driven through FastbootCommands/FastbootProtocol (FastbootDevice retry wrapper not claimed)',
    'erase() is not required to return the OKAY payload (its docstring promises nothing)',
    'responses are str, at most 64 bytes, one per usb.read',
]
REQUIRED_COUNTERS = ['commands_run', 'packets_checked', 'downloads_run',
                     'image_bytes_checked']
EXHAUSTIVE = {'quick': True, 'thorough': True}
PLAN = {
    'quick': {'workers': 16, 'budget_s': 40, 'sampled_per_worker': 300},
    'thorough': {'workers': 16, 'budget_s': 300, 'sampled_per_worker': 20000},
}

SYMS = ['INFO', 'OKAY', 'DATAok', 'DATAother', 'FAIL', 'garb', 'DATAokU']
NSYM = 6     # the response automaton is enumerated over the first six
CHUNK = 1024
COMMANDS = [
    ['flash', ['boot']], ['erase', ['cache']], ['get_var', ['version']],
    ['oem', ['poweroff']], ['oem', ['bootconfig read']], ['continue_', []],
    ['reboot', []], ['reboot', ['recovery']], ['reboot_bootloader', []],
    # commands longer than a USB packet: still one write each
    ['oem', ['set-config ' + 'k=v;' * 30]], ['get_var', ['x' * 100]],
    ['flash', ['partition_' + 'p' * 70]],
]
SIZES = [0, 1, CHUNK - 1, CHUNK, CHUNK + 1, 2 * CHUNK - 1, 2 * CHUNK,
         2 * CHUNK + 1, 3 * CHUNK + 5]

_M = {}


def setup():
  from vf import usbstub, harness
  usbstub.install()
  from openhtf.plugs.usb import fastboot_protocol, usb_exceptions
  harness.assert_root(fastboot_protocol)
  fastboot_protocol.FASTBOOT_DOWNLOAD_CHUNK_SIZE_KB = 1
  _M.update(fp=fastboot_protocol, exc=usb_exceptions)
  _M['tmp'] = tempfile.mkdtemp(prefix='vf-c16-')


def teardown():
  import shutil
  shutil.rmtree(_M['tmp'], ignore_errors=True)


class DeviceSilent(Exception):
  """The scripted bootloader has nothing more to say (transport time-out)."""


class FakeBootloader:

  def __init__(self, responses):
    self.responses = list(responses)
    self.packets = []
    self.reads = []
    self.events = []

  def write(self, data, timeout_ms=None):
    self.packets.append(data)
    self.events.append(('w', len(data)))

  def read(self, n, timeout_ms=None):
    self.reads.append((n, timeout_ms))
    if not self.responses:
      raise DeviceSilent()
    self.events.append(('r', len(self.reads)))
    return self.responses.pop(0)

  def close(self):
    pass


class ShortReads:
  """File-like source that returns at most 700 characters per read()."""

  def __init__(self, text):
    self.buf = io.StringIO(text)

  def read(self, n=-1):
    return self.buf.read(700 if n is None or n < 0 else min(n, 700))


def render(sym, i, image_len):
  if sym == 'INFO':
    # every third INFO packet is bare (header only): it is still a packet to forward
    return 'INFO' if i % 3 == 1 else 'INFOinfo-%d' % i
  if sym == 'OKAY':
    # an OKAY without text is the usual reply of a real bootloader
    return 'OKAY' if i % 4 == 2 else 'OKAYok-%d' % i
  if sym == 'FAIL':
    # device text with per-cent signs (it must arrive unchanged in the error)
    return 'FAILbad-%d only 40%% free, 100%%d %%s' % i
  if sym == 'DATAok':
    return 'DATA%08x' % image_len
  if sym == 'DATAother':
    return 'DATA%08x' % (image_len + 1)
  if sym == 'DATAokU':
    return 'DATA%08X' % image_len     # the same size, upper-case hex digits
  if sym == 'garb':
    return ['XYZWjunk', 'okayx', '', 'INF', 'DAT', 'WHAT50% %s %d'][i % 6]
  raise ValueError(sym)


# ------------------------------------------------------------ automaton
def expect_simple(resps):
  """-> (infos, outcome, consumed) for a command expecting OKAY."""
  infos = []
  for n, r in enumerate(resps):
    h, rest = r[:4], r[4:]
    if h == 'INFO':
      infos.append(rest)
    elif h == 'OKAY':
      return infos, ('ret', rest), n + 1
    elif h == 'DATA':
      return infos, ('exc', 'FastbootStateMismatchError', None), n + 1
    elif h == 'FAIL':
      return infos, ('exc', 'FastbootRemoteFailureError', rest), n + 1
    else:
      return infos, ('exc', 'FastbootInvalidResponseError', None), n + 1
  return infos, ('exc', 'DeviceSilent', None), len(resps) + 1


def expect_download(resps, image):
  """-> (infos, outcome, consumed, image_sent)"""
  infos = []
  for n, r in enumerate(resps):
    h, rest = r[:4], r[4:]
    if h == 'INFO':
      infos.append(rest)
    elif h == 'DATA':
      try:
        size = int(rest[:8], 16) if len(rest) >= 8 else None
      except ValueError:
        size = None
      if size is None:
        return infos, ('exc', None, None), n + 1, False
      if size != len(image):
        return infos, ('exc', 'FastbootTransferError', None), n + 1, False
      i2, out, c2 = expect_simple(resps[n + 1:])
      return infos + i2, out, n + 1 + c2, True
    elif h == 'OKAY':
      return infos, ('exc', 'FastbootStateMismatchError', None), n + 1, False
    elif h == 'FAIL':
      return infos, ('exc', 'FastbootRemoteFailureError', rest), n + 1, False
    else:
      return infos, ('exc', 'FastbootInvalidResponseError', None), n + 1, False
  return infos, ('exc', 'DeviceSilent', None), len(resps) + 1, False


def expected_packet(method, args):
  if method == 'flash':
    return 'flash:%s' % args[0]
  if method == 'erase':
    return 'erase:%s' % args[0]
  if method == 'get_var':
    return 'getvar:%s' % args[0]
  if method == 'oem':
    return 'oem %s' % args[0]
  if method == 'continue_':
    return 'continue'
  if method == 'reboot':
    return 'reboot' + (':%s' % args[0] if args else '')
  if method == 'reboot_bootloader':
    return 'reboot-bootloader'
  raise ValueError(method)


# ------------------------------------------------------------ generators
def enumerated(tier):
  maxlen = 4 if tier == 'quick' else 5
  for ci, _ in enumerate(COMMANDS):
    for n in range(0, maxlen + 1):
      for seq in itertools.product(range(NSYM), repeat=n):
        yield {'k': 'cmd', 'c': ci, 'seq': list(seq)}
  dl_len = 3 if tier == 'quick' else 5
  for n in range(0, dl_len + 1):
    for seq in itertools.product(range(NSYM), repeat=n):
      yield {'k': 'dl', 'size': 5, 'src': 'obj', 'seq': list(seq), 'prog': 'none'}
  for size in SIZES:
    for src in ('name', 'obj', 'obj_len0', 'short'):
      for prog in ('none', 'record', 'raise'):
        for seq in ([2, 1], [0, 2, 0, 1], [3], [2, 4], [2, 0, 0], [1], [2],
                    [6, 1], [0, 6, 1]):
          yield {'k': 'dl', 'size': size, 'src': src, 'seq': seq, 'prog': prog}
    # the chunk size setting is lowered after the handle was built
    for seq in ([2, 1], [6, 1]):
      yield {'k': 'dl', 'size': size, 'src': 'obj', 'seq': seq, 'prog': 'record',
             'built_with_kb': 4}
    for seq in ([2, 1, 1], [2, 1, 0, 1], [2, 4, 1], [3, 1], [2, 1, 4]):
      yield {'k': 'flash_file', 'size': size, 'seq': seq}


def sampled(tier, rng):
  while True:
    if rng.random() < .5:
      yield {'k': 'cmd', 'c': rng.randrange(len(COMMANDS)),
             'seq': [rng.randrange(len(SYMS)) for _ in range(rng.randint(0, 9))],
             'arg': rng.choice([None, 'x', 'a:b', 'p ' * 3, '0', ''])}
    else:
      yield {'k': 'dl', 'size': rng.choice(SIZES + [rng.randint(0, 5000)]),
             'src': rng.choice(['name', 'obj', 'obj_len0']),
             'seq': [rng.choice([0, 0, 1, 2, 2, 3, 4, 5])
                     for _ in range(rng.randint(0, 8))],
             'prog': rng.choice(['none', 'record', 'raise'])}


# ------------------------------------------------------------ runners
def _cmp_outcome(viol, got, want, ctx):
  if want[0] == 'ret':
    if got != ('ret', want[1]):
      viol.append({'mechanism': 'wrong-return', 'detail': dict(
          ctx, want=repr(want), got=repr(got)[:200])})
  else:
    if got[0] != 'exc':
      viol.append({'mechanism': 'missing-exception:' + str(want[1]),
                   'detail': dict(ctx, got=repr(got)[:200])})
    elif want[1] is not None and got[1] != want[1]:
      viol.append({'mechanism': 'wrong-exception:%s-instead-of-%s' % (
          got[1], want[1]), 'detail': dict(ctx, text=got[2][:120])})
    elif want[2] is not None and want[2] not in got[2]:
      viol.append({'mechanism': 'failure-text-lost',
                   'detail': dict(ctx, want=want[2], got=got[2][:120])})


def _call(fn):
  try:
    return ('ret', fn())
  except Exception as e:  # pylint: disable=broad-except
    return ('exc', type(e).__name__, str(e))


def run_cmd(case):
  fp = _M['fp']
  method, args = COMMANDS[case['c']]
  args = list(args)
  if case.get('arg') is not None and args:
    args = [case['arg']]
  resps = [render(SYMS[s], i, 0) for i, s in enumerate(case['seq'])]
  dev = FakeBootloader(resps)
  cmds = fp.FastbootCommands(dev)
  infos = []
  kwargs = {}
  if method in ('flash', 'get_var', 'oem'):
    kwargs['info_cb'] = lambda m: infos.append((m.header, m.message))
  got = _call(lambda: getattr(cmds, method)(*args, **kwargs))
  want_infos, want, consumed = expect_simple(resps)
  viol = []
  ctx = {'method': method, 'args': args, 'responses': resps[:6]}
  if dev.packets != [expected_packet(method, args)]:
    viol.append({'mechanism': 'wrong-command-packet',
                 'detail': dict(ctx, packets=dev.packets[:4])})
  if method == 'erase' and want[0] == 'ret':
    if got[0] != 'ret':
      viol.append({'mechanism': 'wrong-return', 'detail': dict(ctx, got=repr(got)[:200])})
  else:
    _cmp_outcome(viol, got, want, ctx)
  if 'info_cb' in kwargs:
    got_infos = [m for h, m in infos if h == 'INFO']
    if got_infos != want_infos:
      viol.append({'mechanism': 'info-callbacks-differ',
                   'detail': dict(ctx, want=want_infos, got=got_infos)})
  if len(dev.reads) != consumed:
    viol.append({'mechanism': 'wrong-number-of-reads',
                 'detail': dict(ctx, reads=len(dev.reads), want=consumed)})
  if dev.events and dev.events[0][0] != 'w':
    viol.append({'mechanism': 'read-before-command', 'detail': ctx})
  return {'sig': case if dev.packets else None, 'violations': viol,
          'counters': {'commands_run': 1, 'packets_checked': len(dev.packets),
                       'info_callbacks': len(infos)}}


def image_of(size):
  return ''.join(chr(33 + (i * 7 + i // 93) % 90) for i in range(size))


def run_dl(case, flash_file=False):
  fp = _M['fp']
  size = case['size']
  image = image_of(size)
  resps = [render(SYMS[s], i, size) for i, s in enumerate(case['seq'])]
  dev = FakeBootloader(resps)
  if case.get('built_with_kb'):
    fp.FASTBOOT_DOWNLOAD_CHUNK_SIZE_KB = case['built_with_kb']
  try:
    cmds = fp.FastbootCommands(dev)
  finally:
    fp.FASTBOOT_DOWNLOAD_CHUNK_SIZE_KB = 1    # the size configured at transfer time
  infos, progress = [], []
  info_cb = lambda m: infos.append((m.header, m.message))
  prog = case.get('prog', 'none')

  def progress_cb(cur, total):
    progress.append((cur, total))
    if prog == 'raise' and len(progress) % 2 == 1:
      raise RuntimeError('progress boom')

  kwargs = {'info_cb': info_cb}
  if prog != 'none':
    kwargs['progress_callback'] = progress_cb
  src = case.get('src', 'name')
  path = None
  if src == 'name' or flash_file:
    path = os.path.join(_M['tmp'], 'img-%d-%d' % (os.getpid(), size))
    with open(path, 'w', newline='') as f:
      f.write(image)
  if flash_file:
    got = _call(lambda: cmds.flash_from_file('boot', path, info_cb=info_cb))
  elif src == 'name':
    got = _call(lambda: cmds.download(path, **kwargs))
  elif src == 'obj':
    got = _call(lambda: cmds.download(io.StringIO(image), source_len=size,
                                      **kwargs))
  elif src == 'short':
    # a stream whose read(n) may hand back fewer than n characters before EOF
    got = _call(lambda: cmds.download(ShortReads(image), source_len=size,
                                      **kwargs))
  else:
    got = _call(lambda: cmds.download(io.StringIO(image), **kwargs))
  want_infos, want, consumed, sent = expect_download(resps, image)
  viol = []
  ctx = {'size': size, 'src': src, 'responses': resps[:6], 'prog': prog}
  announce = 'download:%08x' % size
  if not dev.packets or dev.packets[0] != announce:
    viol.append({'mechanism': 'wrong-download-announcement',
                 'detail': dict(ctx, packets=[p[:30] for p in dev.packets[:3]])})
  body = dev.packets[1:]
  flash_pkt = None
  if flash_file and want[0] == 'ret' and sent:
    # the flash command follows the image
    i3, w3, c3 = expect_simple(resps[consumed:])
    flash_pkt = 'flash:boot'
    if body and body[-1] == flash_pkt:
      body = body[:-1]
    else:
      viol.append({'mechanism': 'flash-command-missing', 'detail': ctx})
    want_infos = want_infos + i3
    if w3[0] == 'ret':
      want = ('ret', want[1] + w3[1])
    else:
      want = w3
    consumed += c3
  if not sent:
    if body:
      viol.append({'mechanism': 'image-bytes-sent-without-matching-DATA',
                   'detail': dict(ctx, chunks=len(body))})
  else:
    if ''.join(body) != image:
      viol.append({'mechanism': 'image-bytes-differ', 'detail': dict(
          ctx, sent=len(''.join(body)), want=len(image))})
    if any(len(ch) > CHUNK for ch in body):
      viol.append({'mechanism': 'chunk-larger-than-configured',
                   'detail': dict(ctx, sizes=[len(ch) for ch in body])})
    if any(len(ch) == 0 for ch in body):
      viol.append({'mechanism': 'empty-chunk-sent', 'detail': ctx})
    # the image goes out after DATA was read and before the next read
    if prog != 'none' and not flash_file:
      cum, wantp = 0, []
      for ch in body:
        cum += len(ch)
        wantp.append((cum, size))
      if progress != wantp:
        viol.append({'mechanism': 'progress-not-cumulative',
                     'detail': dict(ctx, got=progress[:6], want=wantp[:6])})
  _cmp_outcome(viol, got, want, ctx)
  got_infos = [m for h, m in infos if h == 'INFO']
  if got_infos != want_infos:
    viol.append({'mechanism': 'info-callbacks-differ',
                 'detail': dict(ctx, want=want_infos, got=got_infos)})
  if len(dev.reads) != consumed:
    viol.append({'mechanism': 'wrong-number-of-reads',
                 'detail': dict(ctx, reads=len(dev.reads), want=consumed)})
  if path:
    try:
      os.remove(path)
    except OSError:
      pass
  return {'sig': case if dev.packets else None, 'violations': viol,
          'counters': {'downloads_run': 1, 'packets_checked': len(dev.packets),
                       'image_bytes_checked': len(''.join(dev.packets[1:])),
                       'images_sent': 1 if sent else 0,
                       'progress_calls': len(progress)}}


def run_case(case):
  if case['k'] == 'cmd':
    return run_cmd(case)
  if case['k'] == 'dl':
    return run_dl(case)
  return run_dl(case, flash_file=True)
