"""C15 — ADB connection lifecycle: CNXN/AUTH handshake, stream ids, open/close.

Monitors: (a) connect() against every device reply sequence: the messages the
scripted fake device received and the result are compared with a handshake
automaton written from the statement; (b) single-threaded open / read / write /
close / remote-close histories against a sequential reference model of the
stream multiplexer (results of every call, multiset of host messages by
(command, local id, remote id), id distinctness and range).
"""
import itertools
import random

PROPERTY = 'C15'
LEVEL = 'exploration'
RULE = ('cases: (1) connect() with every device reply sequence up to the length bound '
        'over {CNXN, CNXN(malformed banner), AUTH token, AUTH other(2,3), noise OKAY, '
        'noise WRTE, silence} x 0-2 recording signers; (2) stream histories (open with '
        'reply OKAY/CLSE/WRTE/illegal/none, device WRTE/CLSE/illegal packet, host '
        'read/write/close, sized reads, writes answered by WRTE+CLSE, one-shot transport write faults at a CLSE; (3) two threads opening streams while the id counter wraps, the first held at each line of the id allocation) with STREAM_ID_LIMIT lowered to 3 / 8 / 70 (ids reused at once with 3) or _last_id_used '
        'preset near the real limit; distinct = distinct sequence/history; non-trivial '
        '= the fake device received at least one host message that the oracle compared')
ASSUMPTIONS = [
    'silence is a transport read that raises the USB time-out error at once (logical time-out: the host is single-threaded and the device reactive, nothing can arrive later)',
    'a time-out may surface as UsbReadFailedError(timeout) or AdbTimeoutError',
    'histories are single-threaded, so the multiplexer is deterministic (threads are C14)',
    'a history ends at the first call that is expected to raise a protocol error',
    'a history also ends, without a verdict, when a local id is reused while device packets addressed to the earlier stream with that id are still unread (only possible with the lowered id limits)',
]
REQUIRED_COUNTERS = ['connect_sequences', 'host_messages_compared',
                     'stream_ops_compared', 'ids_checked', 'closes_checked',
                     'open_races']
EXHAUSTIVE = {'quick': True, 'thorough': True}
PLAN = {
    'quick': {'workers': 16, 'budget_s': 50, 'sampled_per_worker': 120},
    'thorough': {'workers': 16, 'budget_s': 400, 'sampled_per_worker': 6000},
}

CONNECT_SYMS = ['C', 'Cb', 'T', 'A2', 'A3', 'N', 'W']
TIMEOUTISH = {'UsbReadFailedError', 'AdbTimeoutError'}
_M = {}


def setup():
  from vf import usbstub, harness
  usbstub.install()
  from openhtf.plugs.usb import adb_protocol, usb_exceptions
  harness.assert_root(adb_protocol)
  _M.update(ap=adb_protocol, exc=usb_exceptions,
            real_limit=adb_protocol.STREAM_ID_LIMIT)
  from vf import pause
  eng = pause.Engine([adb_protocol.__file__],
                     lambda th: 'OA' if th.name == 'OA' else None)
  eng.install()
  eng.enabled = False
  _M['engine'] = eng


def teardown():
  _M['ap'].STREAM_ID_LIMIT = _M['real_limit']
  _M['engine'].uninstall()


# ------------------------------------------------------------ generators
def enumerated(tier):
  n = 4 if tier == 'quick' else 6
  for keys in (0, 1, 2):
    for length in range(0, n + 1):
      for seq in itertools.product(range(len(CONNECT_SYMS)), repeat=length):
        yield {'k': 'connect', 'keys': keys, 'seq': list(seq)}
  for h in DIRECTED:
    yield dict(h, k='streams')
  # two threads open streams at the same time while the id counter wraps round
  # the limit next to a long-lived stream; the first is held at each line of
  # its way through the id allocation
  for idx in range(40):
    yield {'k': 'open_race', 'idx': idx}
  # short exhaustive stream histories
  alphabet = [['open', 'OKAY'], ['open', 'CLSE'], ['dev_wrte', 0], ['dev_wrte', 1],
              ['dev_clse', 0], ['read', 0], ['read', 1], ['close', 0],
              ['write', 0, 5, True], ['dev_illegal', 'CNXN'],
              ['write', 0, 5, 'wrte_clse'], ['readn', 0, 8],
              ['fault_clse', 'header'], ['fault_clse', 'payload']]
  m = 3 if tier == 'quick' else 4
  for length in range(1, m + 1):
    for seq in itertools.product(range(len(alphabet)), repeat=length):
      yield {'k': 'streams', 'limit': 8,
             'ops': [['open', 'OKAY']] + [alphabet[i] for i in seq]}
  # local ids are reused at once (limit 3: ids 1 and 2): stale handles of
  # closed streams next to newer streams with the same id
  reuse = [['open', 'OKAY'], ['close', 0], ['close', 1], ['close', 2], ['read', 0],
           ['read', 1], ['read', 2], ['dev_clse', 0], ['dev_clse', 1],
           ['dev_wrte', 2], ['dev_wrte', 1]]
  m = 4 if tier == 'quick' else 5
  for length in range(1, m + 1):
    for seq in itertools.product(range(len(reuse)), repeat=length):
      if length == m and (sum(seq) + length) % 3:
        continue
      yield {'k': 'streams', 'limit': 3,
             'ops': [['open', 'OKAY'], ['open', 'OKAY']] + [reuse[i] for i in seq]}


DIRECTED = [
    # id exhaustion and reuse with a tiny limit (ids 1..7)
    {'limit': 8, 'ops': [['open', 'OKAY']] * 7 + [['open', 'OKAY']]},
    {'limit': 8, 'ops': [['open', 'OKAY']] * 7 + [['close', 3], ['open', 'OKAY'],
                                                   ['open', 'OKAY']]},
    {'limit': 8, 'ops': [['open', 'OKAY']] * 7 + [['dev_clse', 2], ['read', 0],
                                                   ['open', 'OKAY']]},
    {'limit': 8, 'ops': [['open', 'CLSE']] * 9 + [['open', 'OKAY']]},
    # wrap-around with the 64-probe limit
    {'limit': 70, 'ops': [['open', 'OKAY']] * 69 + [['close', 66],
                                                     ['open', 'OKAY']]},
    {'limit': 70, 'ops': [['open', 'OKAY']] * 30 + [['close', i] for i in range(0, 30, 2)]
     + [['open', 'OKAY']] * 50},
    # real limit with the counter preset near it
    {'limit': None, 'preset': 2**16 - 3, 'ops': [['open', 'OKAY']] * 6},
    {'limit': None, 'preset': 2**16 - 1, 'ops': [['open', 'OKAY']] * 3 + [
        ['close', 0], ['open', 'OKAY']]},
    # drain after remote close
    {'limit': 8, 'ops': [['open', 'OKAY'], ['dev_wrte', 0], ['dev_wrte', 0],
                         ['dev_clse', 0], ['read', 0], ['read', 0], ['read', 0],
                         ['read', 0]]},
    {'limit': 8, 'ops': [['open', 'OKAY'], ['open', 'OKAY'], ['dev_wrte', 0],
                         ['dev_clse', 0], ['dev_wrte', 1], ['read', 1], ['read', 0],
                         ['read', 0], ['close', 0], ['close', 1], ['read', 1]]},
    # illegal packets mid-session
    {'limit': 8, 'ops': [['open', 'OKAY'], ['dev_illegal', 'CNXN'], ['read', 0]]},
    {'limit': 8, 'ops': [['open', 'OKAY'], ['dev_illegal', 'AUTH'], ['read', 0]]},
    {'limit': 8, 'ops': [['open', 'OKAY'], ['dev_illegal', 'SYNC'], ['write', 0, 3, True]]},
    {'limit': 8, 'ops': [['open', 'OKAY'], ['dev_illegal', 'OPEN'], ['open', 'OKAY']]},
    {'limit': 8, 'ops': [['open', 'CNXN']]},
    {'limit': 8, 'ops': [['open', 'WRTE']]},
    {'limit': 8, 'ops': [['open', 'none'], ['open', 'OKAY']]},
    # writes larger than maxdata, lost ack
    {'limit': 8, 'ops': [['open', 'OKAY'], ['write', 0, 700, True], ['write', 0, 256, True],
                         ['write', 0, 257, True], ['write', 0, 1, False],
                         ['write', 0, 1, True]]},
    {'limit': 8, 'ops': [['open', 'OKAY'], ['dev_clse', 0], ['write', 0, 3, True],
                         ['read', 0]]},
    # the service answers a write with its output and exits: the output is
    # still read after the failed write
    {'limit': 8, 'ops': [['open', 'OKAY'], ['write', 0, 5, 'wrte_clse'], ['read', 0],
                         ['read', 0]]},
    {'limit': 8, 'ops': [['open', 'OKAY'], ['open', 'OKAY'], ['dev_wrte', 1],
                         ['write', 0, 300, 'wrte_clse'], ['read', 1], ['read', 0],
                         ['read', 0], ['close', 0]]},
    # sized reads: a short tail stays readable after the remote close
    {'limit': 8, 'ops': [['open', 'OKAY'], ['dev_wrte', 0], ['dev_clse', 0],
                         ['readn', 0, 40], ['read', 0], ['read', 0]]},
    {'limit': 8, 'ops': [['open', 'OKAY'], ['dev_wrte', 0], ['dev_wrte', 0],
                         ['readn', 0, 3], ['readn', 0, 3], ['dev_clse', 0], ['read', 0],
                         ['read', 0]]},
    # transport fault while a CLSE is written: the id is released all the same
    # and later reads report the stream closed
    {'limit': 8, 'ops': [['open', 'OKAY'], ['fault_clse', 'header'], ['close', 0],
                         ['read', 0], ['close', 0], ['open', 'OKAY']]},
    {'limit': 8, 'ops': [['open', 'OKAY'], ['fault_clse', 'payload'], ['dev_clse', 0],
                         ['read', 0], ['read', 0], ['dev_clse', 0], ['read', 0]]},
    {'limit': 3, 'ops': [['open', 'OKAY'], ['open', 'OKAY'], ['fault_clse', 'header'],
                         ['close', 1], ['open', 'OKAY'], ['read', 1], ['read', 2]]},
    {'limit': 8, 'ops': [['open', 'OKAY'], ['open', 'OKAY'], ['fault_clse', 'payload'],
                         ['dev_clse', 1], ['read', 0], ['read', 1], ['read', 0]]},
]


def sampled(tier, rng):
  while True:
    if rng.random() < .25:
      yield {'k': 'connect', 'keys': rng.randint(0, 3),
             'seq': [rng.randrange(len(CONNECT_SYMS))
                     for _ in range(rng.randint(0, 10))]}
      continue
    limit = rng.choice([8, 8, 3, 4, 70, None])
    ops = []
    nopen = 0
    for _ in range(rng.randint(2, 14 if limit != 70 else 90)):
      r = rng.random()
      if r < .35 or nopen == 0:
        ops.append(['open', rng.choice(['OKAY'] * 6 + ['CLSE', 'CLSE', 'none',
                                                       'WRTE', 'SYNC'])])
        nopen += 1
      elif r < .5:
        ops.append(['dev_wrte', rng.randrange(nopen)])
      elif r < .6:
        ops.append(['dev_clse', rng.randrange(nopen)])
      elif r < .63:
        ops.append(['fault_clse', rng.choice(['header', 'payload'])])
      elif r < .66:
        ops.append(['readn', rng.randrange(nopen), rng.choice([1, 3, 8, 40])])
      elif r < .8:
        ops.append(['read', rng.randrange(nopen)])
      elif r < .9:
        ops.append(['close', rng.randrange(nopen)])
      elif r < .97:
        ops.append(['write', rng.randrange(nopen), rng.choice([1, 5, 256, 300, 600]),
                    rng.choice([True] * 8 + [False, 'wrte_clse'])])
      else:
        ops.append(['dev_illegal', rng.choice(['CNXN', 'AUTH', 'SYNC', 'OPEN'])])
    h = {'k': 'streams', 'limit': limit, 'ops': ops}
    if limit is None:
      h['preset'] = rng.choice([0, 2**16 - 2, 2**16 - 1, 2**16, 40000])
    yield h


# ------------------------------------------------------------ connect
class Signer:

  def __init__(self, i, log):
    self.i = i
    self.log = log

  def sign(self, data):
    self.log.append(('sign', self.i, data))
    return 'sig%d(%s)' % (self.i, data)

  def get_public_key(self):
    self.log.append(('pub', self.i))
    return 'PUBKEY%d' % self.i


def connect_messages(seq):
  out = []
  for n, s in enumerate(seq):
    sym = CONNECT_SYMS[s]
    if sym == 'C':
      out.append(('CNXN', 0x01000000, 256 + n, 'device:SER%d:ban:ner %d' % (n, n)))
    elif sym == 'Cb':
      out.append(('CNXN', 0x01000000, 4096, 'nocolons'))
    elif sym == 'T':
      out.append(('AUTH', 1, 0, 'token-%d' % n))
    elif sym == 'A2':
      out.append(('AUTH', 2, 0, 'sigchallenge-%d' % n))
    elif sym == 'A3':
      out.append(('AUTH', 3, 0, 'keychallenge-%d' % n))
    elif sym == 'N':
      out.append(('OKAY', 1, 2, ''))
    elif sym == 'W':
      out.append(('WRTE', 3, 4, 'noise-%d' % n))
  return out


def model_connect(msgs, nkeys):
  host = [('CNXN', 0x01000000, 4096, 'host::googlex_adb\0')]
  it = iter(msgs)

  def read_until(accept):
    for m in it:
      if m[0] in accept:
        return m
    return None

  def conn(m):
    parts = m[3].split(':', 2)
    if len(parts) != 3:
      return ('err', {'AdbProtocolError'})
    return ('conn', m[2], parts)

  m = read_until(('CNXN', 'AUTH'))
  if m is None:
    return host, ('err', TIMEOUTISH)
  if m[0] == 'CNXN':
    return host, conn(m)
  if nkeys == 0:
    return host, ('err', {'DeviceAuthError'})
  for i in range(nkeys):
    if m[1] != 1:
      return host, ('err', {'AdbProtocolError'})
    host.append(('AUTH', 2, 0, 'sig%d(%s)' % (i, m[3])))
    m = read_until(('CNXN', 'AUTH'))
    if m is None:
      return host, ('err', TIMEOUTISH)
    if m[0] == 'CNXN':
      return host, conn(m)
  host.append(('AUTH', 3, 0, 'PUBKEY0\0'))
  m = read_until(('CNXN',))
  if m is None:
    return host, ('err', {'DeviceAuthError'})
  return host, conn(m)


def run_connect(case):
  from vf import fakeadb
  ap, exc = _M['ap'], _M['exc']
  msgs = connect_messages(case['seq'])
  dev = fakeadb.FakeAdbDevice(exc, block=False)
  for m in msgs:
    dev.feed(*m)
  log = []
  keys = [Signer(i, log) for i in range(case['keys'])]
  try:
    c = ap.AdbConnection.connect(dev, rsa_keys=keys, timeout_ms=20000,
                                 auth_timeout_ms=20000)
    got = ('conn', c.maxdata, [c.systemtype, c.serial, c.banner])
  except Exception as e:  # pylint: disable=broad-except
    got = ('err', type(e).__name__, str(e)[:120])
  want_host, want = model_connect(msgs, case['keys'])
  viol = []
  ctx = {'keys': case['keys'], 'device': [m[:2] + (m[3][:12],) for m in msgs][:8]}
  got_host = [m[2:] for m in dev.host_msgs]
  if got_host != want_host:
    viol.append({'mechanism': 'connect:host-messages-differ',
                 'detail': dict(ctx, want=[h[:3] + (h[3][:24],) for h in want_host],
                                got=[h[:3] + (h[3][:24],) for h in got_host])})
  if dev.framing_errors:
    viol.append({'mechanism': 'connect:bad-framing',
                 'detail': dict(ctx, errors=dev.framing_errors[:3])})
  if want[0] == 'conn':
    if got[0] != 'conn':
      viol.append({'mechanism': 'connect:no-connection-after-CNXN:' + got[1],
                   'detail': dict(ctx, got=got)})
    elif (got[1], got[2]) != (want[1], want[2]):
      viol.append({'mechanism': 'connect:connection-fields-differ',
                   'detail': dict(ctx, got=got, want=want)})
  else:
    if got[0] == 'conn':
      viol.append({'mechanism': 'connect:connection-without-CNXN',
                   'detail': dict(ctx, want=sorted(want[1]))})
    elif got[1] not in want[1]:
      viol.append({'mechanism': 'connect:wrong-error:%s-instead-of-%s' % (
          got[1], '/'.join(sorted(want[1]))), 'detail': dict(ctx, text=got[2])})
  return {'sig': case, 'violations': viol,
          'counters': {'connect_sequences': 1,
                       'host_messages_compared': len(got_host),
                       'connections_returned': 1 if got[0] == 'conn' else 0}}


# ------------------------------------------------------------ streams
class ModelExc(Exception):

  def __init__(self, names):
    super().__init__(names)
    self.names = names


PROTOCOL = {'AdbProtocolError'}
CLOSED = {'AdbStreamClosedError'}
WRITEFAULT = {'UsbWriteFailedError'}


class StreamModel:
  """Sequential reference model of the stream multiplexer."""

  def __init__(self, maxdata):
    self.maxdata = maxdata
    self.streams = []     # dicts
    self.inbound = []     # (cmd, remote, local, data)
    self.expect_host = {}  # (cmd, local, remote) -> count
    self.next_remote = 100
    self.poisoned = False
    self.fault_clse = None   # armed one-shot transport fault at the next CLSE write

  def _send_clse(self, s):
    """The host answers / announces a close; the id is released before this."""
    if self.fault_clse:
      where, self.fault_clse = self.fault_clse, None
      if where == 'payload':
        self._host('CLSE', s['local'], s['remote'])
      raise ModelExc(WRITEFAULT)
    self._host('CLSE', s['local'], s['remote'])

  def _host(self, cmd, local, remote):
    key = (cmd, local, remote)
    self.expect_host[key] = self.expect_host.get(key, 0) + 1

  def by_local(self, local):
    for s in self.streams:
      if s['in_map'] and s['local'] == local:
        return s
    return None

  def demux(self, s):
    while True:
      if s['in_map'] or True:
        if s['queue']:
          return s['queue'].pop(0)
      if not s['in_map']:
        raise ModelExc(CLOSED)
      if not self.inbound:
        raise ModelExc(TIMEOUTISH)
      m = self.inbound.pop(0)
      cmd, remote, local, data = m
      if cmd not in ('OKAY', 'CLSE', 'WRTE'):
        self.poisoned = True
        raise ModelExc(PROTOCOL)
      j = self.by_local(local)
      if j is s:
        if cmd == 'WRTE':
          if not s['remote']:
            self.poisoned = True
            raise ModelExc(PROTOCOL)
          self._host('OKAY', s['local'], s['remote'])
        elif cmd == 'CLSE':
          s['in_map'] = False
          if s['remote']:
            self._send_clse(s)
        return m
      if j is not None:
        if cmd == 'CLSE':
          j['in_map'] = False
          if j['remote']:
            self._send_clse(j)
        if cmd == 'WRTE':
          if not j['remote']:
            self.poisoned = True
            raise ModelExc(PROTOCOL)
          self._host('OKAY', j['local'], j['remote'])
        j['queue'].append(m)

  def handle(self, s, m, handle_wrte=True):
    cmd, remote, local, data = m
    if cmd == 'OKAY':
      if not s['remote']:
        s['remote'] = remote
        s['state'] = 'open'
      if not s['expecting_okay']:
        self.poisoned = True
        raise ModelExc(PROTOCOL)
      s['expecting_okay'] = False
    elif cmd == 'CLSE':
      s['state'] = 'closed'
    elif not handle_wrte:
      self.poisoned = True
      raise ModelExc(PROTOCOL)
    else:
      s['buf'].append(data)

  # ops ------------------------------------------------------------------
  def open_sent(self, local, reply):
    """The host has sent OPEN(local); the reactive device replies."""
    if any(m[2] == local for m in self.inbound):
      # Device packets addressed to an earlier stream with this local id are
      # still unread: the protocol cannot tell them from packets for the new
      # stream (real ids are not reused that fast).  Nothing is specified
      # about such a history; it ends here without a verdict.
      self.poisoned = True
      self.stale_reuse = True
    s = {'local': local, 'remote': None, 'state': 'pending', 'queue': [],
         'buf': [], 'in_map': True, 'expecting_okay': True, 'data_fed': [],
         'data_read': []}
    self.streams.append(s)
    self._host('OPEN', local, 0)
    fed = None
    if reply == 'OKAY':
      self.next_remote += 1
      fed = ('OKAY', self.next_remote, local, '')
    elif reply == 'CLSE':
      fed = ('CLSE', 0, local, '')
    elif reply == 'WRTE':
      self.next_remote += 1
      fed = ('WRTE', self.next_remote, local, 'early')
    elif reply in ('CNXN', 'AUTH', 'SYNC', 'OPEN'):
      fed = (reply, 1, local, 'illegal')
    if fed:
      self.inbound.append(fed)
    return s, fed

  def open_finish(self, s):
    m = self.demux(s)
    self.handle(s, m, handle_wrte=False)
    return s['state'] == 'open'

  def read(self, s, length=0):
    while sum(map(len, s['buf'])) < max(1, length):
      m = self.demux(s)
      self.handle(s, m)
    data = ''.join(s['buf'])
    s['buf'] = []
    if length:
      data, rest = data[:length], data[length:]
      if rest:
        s['buf'] = [rest]
    return data

  def close(self, s):
    if s['state'] == 'closed':
      return
    s['state'] = 'closed'
    if s['in_map']:
      s['in_map'] = False
      if s['remote']:
        self._send_clse(s)

  def write_precheck(self, s):
    if not s['remote'] or s['state'] != 'open':
      raise ModelExc(CLOSED)
    if s['expecting_okay']:
      raise ModelExc(PROTOCOL)


def run_streams(case):
  from vf import fakeadb
  ap, exc = _M['ap'], _M['exc']
  limit = case.get('limit') or _M['real_limit']
  ap.STREAM_ID_LIMIT = limit
  maxdata = 256
  # The host is single-threaded and the device reactive, so nothing can arrive
  # later: a read on an empty transport times out at once (logical time-out;
  # no verdict depends on the wall clock).
  dev = fakeadb.FakeAdbDevice(exc, block=False)
  dev.feed('CNXN', 0x01000000, maxdata, 'device:SER:banner')
  conn = ap.AdbConnection.connect(dev, timeout_ms=20000)
  if case.get('preset') is not None:
    conn._last_id_used = case['preset']  # pylint: disable=protected-access
  base_msgs = len(dev.host_msgs)
  model = StreamModel(maxdata)
  viol = []
  counters = {'stream_ops_compared': 0, 'ids_checked': 0, 'closes_checked': 0,
              'host_messages_compared': 0, 'streams_opened': 0,
              'expected_exceptions': 0, 'clse_write_faults_fired': 0}
  handles = []   # (real stream or None, model stream) per open op
  pending = {}

  def on_host(msg):
    seq, th, cmd, a0, a1, data = msg
    if cmd == 'OPEN':
      s, fed = model.open_sent(a0, pending.get('reply'))
      pending['stream'] = s
      if fed:
        dev.feed(*fed)
    elif cmd == 'WRTE' and pending.get('ack') and (
        model.by_local(a0) is not None and
        model.by_local(a0) is not pending.get('wstream')):
      # The host wrote through a handle whose local id already belongs to a
      # newer stream (its own CLSE is still parked, unread, in its queue): the
      # device's answer would be addressed to an id that now means another
      # stream - the unspecified reuse situation again (see open_sent).  The
      # device stays silent and the history ends without a verdict.
      model.poisoned = True
    elif cmd == 'WRTE' and pending.get('ack') == 'wrte_clse':
      # the service prints its answer and exits instead of acknowledging
      ws = pending['wstream']
      out = 'out%d;' % next(unique)
      ws['data_fed'].append(out)
      for m in (('WRTE', a1, a0, out), ('CLSE', a1, a0, '')):
        model.inbound.append(m)
        dev.feed(*m)
    elif cmd == 'WRTE' and pending.get('ack'):
      m = ('OKAY', a1, a0, '')
      model.inbound.append(m)
      dev.feed(*m)

  dev.on_host_message = on_host
  unique = itertools.count()

  def bad(mech, **d):
    if len(viol) < 4:
      viol.append({'mechanism': mech, 'detail': d})

  def result_of(fn):
    try:
      return ('ok', fn())
    except Exception as e:  # pylint: disable=broad-except
      return ('exc', type(e).__name__, str(e)[:100])

  def compare(i, op, got, want):
    counters['stream_ops_compared'] += 1
    if want[0] == 'exc' and want[1] == WRITEFAULT:
      # The transport failed under this call.  Whether the error surfaces or is
      # swallowed is not specified; the state afterwards is (later ops).
      counters['clse_write_faults_fired'] += 1
      if got[0] == 'exc' and got[1] not in WRITEFAULT:
        bad('streams:%s-wrong-exception:%s-at-a-transport-write-fault' % (op[0], got[1]),
            index=i, op=op, text=got[2])
      return
    if want[0] == 'exc':
      counters['expected_exceptions'] += 1
      if got[0] != 'exc':
        bad('streams:%s-missing-exception:%s' % (op[0], '/'.join(sorted(want[1]))),
            index=i, op=op, got=repr(got)[:120])
      elif got[1] not in want[1]:
        bad('streams:%s-wrong-exception:%s-instead-of-%s' % (
            op[0], got[1], '/'.join(sorted(want[1]))), index=i, op=op, text=got[2])
    else:
      if got[0] == 'exc':
        bad('streams:%s-unexpected-exception:%s' % (op[0], got[1]), index=i,
            op=op, text=got[2], want=repr(want)[:100])
      elif got[1] != want[1]:
        bad('streams:%s-result-differs' % op[0], index=i, op=op,
            got=repr(got[1])[:100], want=repr(want[1])[:100])

  for i, op in enumerate(case['ops']):
    if viol or model.poisoned:
      break
    kind = op[0]
    if kind == 'open':
      reply = op[1]
      pending.clear()
      pending['reply'] = reply
      will_timeout = reply == 'none' and not model.inbound
      nmsgs = len(dev.host_msgs)
      got = result_of(lambda: conn.open_stream(
          'svc:%d' % i, timeout_ms=20000))
      s = pending.get('stream')
      if model.poisoned:
        counters['histories_ended_by_stale_id_reuse'] = 1
        break
      if s is None:
        # no OPEN was sent: only id exhaustion is an acceptable reason
        in_use = sum(1 for x in model.streams if x['in_map'])
        free = (limit - 1) - in_use
        if got[0] == 'exc' and got[1] == 'AdbStreamUnavailableError' and (
            free <= 0 or in_use >= 64):
          handles.append((None, None))
          counters['ids_checked'] += 1
          continue
        bad('streams:open-sent-no-OPEN', index=i, got=repr(got)[:160],
            in_use=in_use, limit=limit)
        break
      # id checks
      counters['ids_checked'] += 1
      others = [x['local'] for x in model.streams if x is not s and x['in_map']]
      if not (0 < s['local'] < limit) or s['local'] in others:
        bad('streams:local-id-not-distinct-or-out-of-range', index=i,
            local=s['local'], in_use=sorted(others)[:12], limit=limit)
      try:
        usable = model.open_finish(s)
        want = ('ok', 'stream' if usable else None)
      except ModelExc as e:
        want = ('exc', e.names)
      g = got
      if got[0] == 'ok':
        g = ('ok', 'stream' if got[1] is not None else None)
      compare(i, op, g, want)
      real = got[1] if got[0] == 'ok' else None
      handles.append((real, s))
      if real is not None:
        counters['streams_opened'] += 1
      continue
    # ops on an existing handle
    if kind == 'fault_clse':
      model.fault_clse = op[1]
      dev.fail_write = ('CLSE', op[1])
      continue
    k = op[1] if kind != 'dev_illegal' else None
    if kind == 'dev_illegal':
      m = (op[1], 7, 7, 'x')
      model.inbound.append(m)
      dev.feed(*m)
      continue
    if k >= len(handles) or handles[k][1] is None:
      continue
    real, s = handles[k]
    if kind in ('dev_wrte', 'dev_clse') and s['remote']:
      owner = model.by_local(s['local'])
      if owner is not None and owner is not s:
        # The device would be writing to (or closing) a stream that is gone and
        # whose local id already belongs to a newer stream: the same
        # unspecified situation as unread packets at an id reuse (see
        # open_sent); the history ends here without a verdict.
        model.poisoned = True
        counters['histories_ended_by_stale_id_reuse'] = 1
        break
    if kind == 'dev_wrte':
      if not s['remote']:
        continue
      data = 'd%d.%d;' % (k, next(unique))
      m = ('WRTE', s['remote'], s['local'], data)
      s['data_fed'].append(data)
      model.inbound.append(m)
      dev.feed(*m)
    elif kind == 'dev_clse':
      if not s['remote']:
        continue
      m = ('CLSE', s['remote'], s['local'], '')
      model.inbound.append(m)
      dev.feed(*m)
    elif real is None:
      continue
    elif kind == 'read':
      try:
        want = ('ok', model.read(s))
      except ModelExc as e:
        want = ('exc', e.names)
      got = result_of(lambda: real.read(timeout_ms=20000))
      compare(i, op, got, want)
      if got[0] == 'ok':
        s['data_read'].append(got[1])
    elif kind == 'readn':
      try:
        want = ('ok', model.read(s, op[2]))
      except ModelExc as e:
        want = ('exc', e.names)
      got = result_of(lambda: real.read(op[2], timeout_ms=20000))
      compare(i, op, got, want)
      if got[0] == 'ok':
        s['data_read'].append(got[1])
    elif kind == 'close':
      try:
        model.close(s)
        want = ('ok', None)
      except ModelExc as e:
        want = ('exc', e.names)
      got = result_of(lambda: real.close(timeout_ms=20000))
      compare(i, op, got, want)
      counters['closes_checked'] += 1
    elif kind == 'write':
      _, _, size, ack = op
      data = ''.join(chr(65 + (j * 7) % 26) for j in range(size))
      pending.clear()
      pending['ack'] = ack
      pending['wstream'] = s
      try:
        model.write_precheck(s)
        want = None
      except ModelExc as e:
        want = ('exc', e.names)
      if want is not None:
        got = result_of(lambda: real.write(data, timeout_ms=20000))
        compare(i, op, got, want)
        continue
      # Run the real call first (the reactive device appends one OKAY per WRTE
      # to the transport and to the model's inbound), then replay the model
      # chunk by chunk; the host is single-threaded, so the order is the same.
      n_before = len(dev.host_msgs)
      will_timeout = not ack
      got = result_of(lambda: real.write(data, timeout_ms=20000))
      if model.poisoned:
        counters['histories_ended_by_stale_id_reuse'] = 1
        break
      sent = [m for m in dev.host_msgs[n_before:] if m[2] == 'WRTE' and m[3] == s['local']]
      # model replay: inbound already contains the OKAYs appended by on_host in
      # arrival order, interleaved correctly because the host is single-threaded.
      want = ('ok', None)
      try:
        rest = data
        for _ in range(len(sent)):
          chunk, rest = rest[:maxdata], rest[maxdata:]
          s['expecting_okay'] = True
          model._host('WRTE', s['local'], s['remote'])  # pylint: disable=protected-access
          while s['expecting_okay']:
            m = model.demux(s)
            model.handle(s, m)
        if rest:
          want = ('exc', {'<model: host stopped sending early>'})
      except ModelExc as e:
        want = ('exc', e.names)
      compare(i, op, got, want)
      if any(len(m[5]) > maxdata for m in sent):
        bad('streams:chunk-larger-than-maxdata', index=i,
            sizes=[len(m[5]) for m in sent])
      if want[0] == 'ok' and ''.join(m[5] for m in sent) != data:
        bad('streams:written-bytes-differ', index=i)
  # ---------------------------------------------------------------- end checks
  if not viol and not model.poisoned:
    got_counts = {}
    for m in dev.host_msgs[base_msgs:]:
      key = (m[2], m[3], m[4])
      got_counts[key] = got_counts.get(key, 0) + 1
    want_counts = {k: v for k, v in model.expect_host.items() if v}
    counters['host_messages_compared'] += sum(got_counts.values())
    if got_counts != want_counts:
      diff = {repr(k): (want_counts.get(k, 0), got_counts.get(k, 0))
              for k in set(want_counts) | set(got_counts)
              if want_counts.get(k, 0) != got_counts.get(k, 0)}
      kinds = sorted({eval(k)[0] for k in diff})  # pylint: disable=eval-used
      bad('streams:host-message-counts-differ:' + '+'.join(kinds),
          diff_want_got=dict(list(diff.items())[:6]), ops=case['ops'][:12])
    if dev.framing_errors:
      bad('streams:bad-framing', errors=dev.framing_errors[:3])
  conn.close()
  ap.STREAM_ID_LIMIT = _M['real_limit']
  return {'sig': case if counters['stream_ops_compared'] else None,
          'violations': viol, 'counters': counters}


_RACE_POINTS = []


def run_open_race(case):
  import threading
  from vf import fakeadb
  ap, exc, eng = _M['ap'], _M['exc'], _M['engine']
  out = {}

  def scenario(target):
    ap.STREAM_ID_LIMIT = 8
    dev = fakeadb.FakeAdbDevice(exc, block=True)
    dev.feed('CNXN', 0x01000000, 256, 'device:SER:banner')
    remote = itertools.count(100)

    def on_host(msg):
      _, _, cmd, a0, a1, _ = msg
      if cmd == 'OPEN':
        dev.feed('OKAY', next(remote), a0)
      elif cmd == 'CLSE':
        pass

    dev.on_host_message = on_host
    conn = ap.AdbConnection.connect(dev, timeout_ms=20000)
    keep = conn.open_stream('svc:keep', timeout_ms=20000)
    for i in range(6):            # ids 2..7 used and released: the counter is at 7
      st = conn.open_stream('svc:%d' % i, timeout_ms=20000)
      st.close(timeout_ms=20000)
    n_before = len(dev.host_msgs)
    res = {}

    def opener(tag):
      try:
        st = conn.open_stream('svc:' + tag, timeout_ms=20000)
        res[tag] = st
      except Exception as e:  # pylint: disable=broad-except
        res[tag] = 'exc:' + type(e).__name__

    eng.arm(target)
    eng.enabled = True
    try:
      ta = threading.Thread(target=opener, args=('a',), name='OA')
      ta.start()
      if target is not None:
        r = eng.run_action_at_pause(lambda: opener('b'), wait_s=4, hold_s=0.3)
        out['reached'], out['blocked'] = r['reached'], r['blocked']
        if r.get('_thread'):
          r['_thread'].join(10)
      ta.join(10)
      if 'b' not in res:
        opener('b')
    finally:
      eng.enabled = False
      eng.release()
    out['seen'] = dict(eng.seen)
    out['open_ids'] = [m[3] for m in dev.host_msgs[n_before:] if m[2] == 'OPEN']
    out['res'] = {k: (v if isinstance(v, str) else 'stream') for k, v in res.items()}
    out['keep_id'] = 1
    try:
      conn.close()
    finally:
      dev.close()
      ap.STREAM_ID_LIMIT = _M['real_limit']

  if not _RACE_POINTS:
    scenario(None)
    _RACE_POINTS.extend((k, h) for k, n in sorted(out['seen'].items())
                        if '_make_stream_transport' in k[1]
                        for h in range(1, min(n, 3) + 1))
  c = {'open_races': 0, 'ids_checked': 0}
  if case['idx'] >= len(_RACE_POINTS):
    return {'sig': None, 'violations': [], 'counters': c, 'evaluations': 0,
            'sample': False}
  target = _RACE_POINTS[case['idx']]
  out.clear()
  scenario(target)
  viol = []
  if out.get('reached'):
    c['open_races'] = 1
  ids = out.get('open_ids') or []
  c['ids_checked'] = len(ids)
  ctx = {'first_opener_held_at': [list(target[0]), target[1]],
         'second_opener_blocked': out.get('blocked'), 'open_ids': ids,
         'results': out.get('res')}
  if len(ids) != 2 or set(out.get('res', {}).values()) != {'stream'}:
    viol.append({'mechanism': 'streams:concurrent-open-failed', 'detail': ctx})
  elif ids[0] == ids[1] or 1 in ids or not all(0 < i < 8 for i in ids):
    viol.append({'mechanism': 'streams:local-id-not-distinct-or-out-of-range',
                 'detail': ctx})
  return {'sig': ['open_race', list(target[0]), target[1]], 'violations': viol,
          'counters': c}


def run_case(case):
  if case['k'] == 'open_race':
    return run_open_race(case)
  if case['k'] == 'connect':
    return run_connect(case)
  return run_streams(case)
