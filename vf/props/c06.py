"""C06 — measurement outcome = all validators on the recorded (transformed) value.

Monitor: a phase body applies a history of assignments to 2-4 declared
measurements and snapshots (outcome, marginal, value) of every measurement
through the public PhaseState after each operation; a 60-line reference
measurement tracks the recorded value (transform of the last assignment, per
coordinate in first-assignment order) and decides outcome/marginal by calling
fresh copies of the *real* validators on that recorded value (validator
semantics themselves are C07's business).
"""
import copy
import itertools
import math
import random

from vf import progmodel as pm

PROPERTY = 'C06'
LEVEL = 'exploration'
RULE = ('one case = (2-4 measurement declarations from a pool of 14: scalar / 1-D / 2-D, '
        'validator sets incl. marginal ranges, regex, percent, custom, raising and conditional '
        'validators, transforms/precision; history of 1-8 operations: scalar set, coordinate '
        'set incl. overrides, wrong-length and unhashable coordinates, undeclared name, '
        'dimensioned without coordinates; values from ints, floats around limits, None, NaN, '
        '+-inf, strings, bools; body catches per-operation exceptions or not; the phase ends by '
        'CONTINUE / SKIP / REPEAT at its limit / STOP / FAIL_AND_CONTINUE; diagnosis for '
        'conditional validators present (ordinary or internal diagnosis) or absent); optionally a late same-value write through a handle kept from the finished phase; optionally the running phase is a with_args() derivation of the declared one; all histories of length <= 2 (quick) / 3 '
        '(thorough) over a reduced alphabet are enumerated, longer ones are sampled; distinct '
        '= distinct case; non-trivial = at least one snapshot was compared')
ASSUMPTIONS = [
    'validator verdicts are obtained by calling deep copies of the declared validators on the model\'s recorded value',
    'a transform that raises rejects the assignment and changes nothing',
]
REQUIRED_COUNTERS = ['histories', 'snapshots_compared', 'final_records_compared',
                     'rejections_checked', 'validator_exceptions_checked',
                     'late_writes', 'derived_phases']
EXHAUSTIVE = {'quick': True, 'thorough': True}
PLAN = {
    'quick': {'workers': 16, 'budget_s': 50, 'sampled_per_worker': 400,
              'wall_limit_s': 900},
    'thorough': {'workers': 16, 'budget_s': 600, 'sampled_per_worker': 12000,
                 'wall_limit_s': 7200},
}

NAN = float('nan')
INF = float('inf')
VALUES = [5, 0, 10, 9.5, 0.5, 1, 9, 50, -1, 13, None, NAN, INF, -INF, 'ok', 'txt',
          True, False, math.nextafter(10, INF), 2.345, 9.04, 4]
COORDS1 = [0, 1, 'a', (0, 1), [9], 1.0, None]
COORDS2 = [(0, 0), (0, 1), (1, 'x'), 5, (1, 2, 3), 'ab', [0, 0], (0, [1])]
# declaration pool: kind, dims, transform, validators, conditional
DECLS = [
    ('s_plain', 0, None, [], None),
    ('s_range', 0, None, ['range'], None),
    ('s_range_raise', 0, None, ['range', 'raise13'], None),
    ('s_round', 0, 'round1', ['range'], None),
    ('s_regex', 0, None, ['regex'], None),
    ('s_cond', 0, None, ['range'], 'min5'),
    ('s_percent', 0, None, ['percent'], None),
    ('s_even', 0, None, ['even', 'range'], None),
    ('s_double', 0, 'double', ['range'], None),
    ('d_plain', 1, None, [], None),
    ('d_pivot', 1, None, ['pivot_range'], None),
    ('d2_len', 2, None, ['len3'], None),
    ('d_double', 1, 'double', ['pivot_range'], None),
    ('d_raise', 1, None, ['rows_raise13'], None),
    # names starting with 't': the transform is declared BEFORE the dimensions
    ('td_double', 1, 'double', ['pivot_range'], None),
    ('td_round', 1, 'round1', ['pivot_range'], None),
    ('d_round', 1, 'round1', ['pivot_range'], None),
]


def setup():
  pm.htf()


class Raise13:
  def __call__(self, value):
    if value == 13:
      raise RuntimeError('validator boom')
    return True

  def __str__(self):
    return 'raises on 13'


class RowsRaise13:
  def __call__(self, rows):
    if any(r[-1] == 13 for r in rows):
      raise RuntimeError('rows validator boom')
    return True


def make_validator(name):
  from openhtf.util import validators as V
  if name == 'range':
    return V.InRange(0, 10, marginal_minimum=1, marginal_maximum=9)
  if name == 'min5':
    return V.InRange(minimum=5)
  if name == 'regex':
    return V.equals('ok')
  if name == 'percent':
    return V.WithinPercent(10, 50, 10)
  if name == 'even':
    return lambda v: isinstance(v, (int, float)) and not isinstance(v, bool) and v % 2 == 0
  if name == 'raise13':
    return Raise13()
  if name == 'pivot_range':
    return V.dimension_pivot_validate(V.InRange(0, 10, marginal_maximum=9))
  if name == 'len3':
    return lambda rows: len(rows) <= 3
  if name == 'rows_raise13':
    return RowsRaise13()
  raise ValueError(name)


def make_transform(name):
  import functools
  if name == 'round1':
    return None  # with_precision(1) is used instead
  if name == 'double':
    return lambda x: x * 2
  return None


def build_measurement(decl):
  H = pm.htf()
  name, dims, transform, vals, cond = decl
  m = H.Measurement(name)
  transform_first = name.startswith('t')

  def declare_transform(m):
    if transform == 'round1':
      return m.with_precision(1)
    if transform:
      return m.with_transform(make_transform(transform))
    return m

  if transform_first:
    m = declare_transform(m)
  if dims == 1:
    m = m.with_dimensions('x')
  elif dims == 2:
    m = m.with_dimensions('x', 'y')
  if not transform_first:
    m = declare_transform(m)
  for v in vals:
    m = m.with_validator(make_validator(v))
  if cond:
    m = m.validate_on({pm._H['R'].D1: make_validator(cond)})  # pylint: disable=protected-access
  return m


# ------------------------------------------------------------------ the model
def same(a, b):
  if isinstance(a, float) and isinstance(b, float) and math.isnan(a) and math.isnan(b):
    return True
  if type(a) is not type(b):
    return False
  if isinstance(a, (list, tuple)):
    return len(a) == len(b) and all(same(x, y) for x, y in zip(a, b))
  return a == b


class Ref:
  """Reference measurement."""

  def __init__(self, decl, diag_present):
    self.name, self.dims, self.transform, vals, cond = decl
    self.validators = [make_validator(v) for v in vals]
    if cond and diag_present:
      self.validators.append(make_validator(cond))
    self.is_set = False
    self.value = None
    self.cells = {}          # first-assignment order (dict keeps it)
    self.outcome = 'UNSET'
    self.marginal = False

  def _transform(self, v):
    if self.transform == 'round1':
      return round(v, ndigits=1)
    if self.transform == 'double':
      return v * 2
    return v

  def _validate(self, value):
    """-> exception class name or None; sets outcome / marginal."""
    self.marginal = False
    try:
      if all(v(value) for v in self.validators):
        self.outcome = 'PASS'
        if any(hasattr(v, 'is_marginal') and v.is_marginal(value)
               for v in self.validators):
          self.marginal = True
      else:
        self.outcome = 'FAIL'
      return None
    except Exception as e:  # pylint: disable=broad-except
      self.outcome = 'FAIL'
      return type(e).__name__

  def set_scalar(self, v):
    if self.dims:
      return 'InvalidDimensionsError'
    try:
      tv = self._transform(v)
    except Exception as e:  # pylint: disable=broad-except
      return type(e).__name__
    self.value, self.is_set = tv, True
    return self._validate(tv)

  def set_cell(self, coords, v):
    if not self.dims:
      return '<scalar>'
    n = 1 if isinstance(coords, str) else (
        len(coords) if hasattr(coords, '__len__') else 1)
    if n != self.dims:
      return 'InvalidDimensionsError'
    key = (coords,) if self.dims == 1 else coords
    try:
      hash(key)
    except TypeError:
      return 'InvalidDimensionsError'
    try:
      tv = self._transform(v)
    except Exception as e:  # pylint: disable=broad-except
      return type(e).__name__
    self.cells[key] = tv
    self.outcome = 'PARTIALLY_SET'
    return None

  def rows(self):
    return [tuple(k) + (v,) for k, v in self.cells.items()]

  def finalize(self):
    if self.dims and self.cells:
      return self._validate(self.rows())
    return None

  def snapshot(self):
    if self.dims:
      val = self.rows() if self.cells else '<unset>'
    else:
      val = self.value if self.is_set else '<unset>'
    return (self.outcome, self.marginal, val)


# ------------------------------------------------------------------ generators
def enumerated(tier):
  n = 2 if tier == 'quick' else 3
  scalar_vals = [0, 3, 7, 9, 10, 11, 14, 18]  # indices into VALUES
  core = [['set', 0, v] for v in scalar_vals] + [
      ['setd', 1, 0, 0], ['setd', 1, 1, 3], ['setd', 1, 0, 7], ['setd', 1, 3, 0],
      ['setd', 1, 4, 0], ['undeclared', 0], ['nocoords', 1, 0], ['set', 1, 0]]
  for sd, dd in itertools.product(range(0, 9), range(9, 14)):
    if tier == 'quick' and (sd * 7 + dd) % 3:
      continue
    for length in range(1, n + 1):
      for seq in itertools.product(range(len(core)), repeat=length):
        if tier == 'quick' and length == 2 and (hash((sd, dd, seq)) % 5):
          continue
        if tier == 'thorough' and length == 3 and (hash((sd, dd, seq)) % 7):
          continue
        yield {'decls': [sd, dd], 'ops': [core[i] for i in seq], 'catch': True,
               'diag': [True, False, 'internal'][(sd + dd + length) % 3]}
  # a second assignment whose raw value equals what the first one *recorded*
  # (transform x -> 2x: 5 is recorded as 10, then 10 is assigned)
  for first, second in ((0, 2), (4, 5), (5, 5), (1, 1)):
    yield {'decls': [8], 'ops': [['set', 0, first], ['set', 0, second]],
           'catch': True, 'diag': False}
    yield {'decls': [12, 9], 'ops': [['setd', 0, 0, first], ['setd', 0, 0, second],
                                     ['setd', 1, 0, 3]], 'catch': True, 'diag': False}
  # the phase ends by a result other than CONTINUE after its assignments
  for ret in ('SKIP', 'REPEAT', 'STOP', 'FAIL_AND_CONTINUE'):
    for d in range(len(DECLS)):
      for v in (0, 3, 5, 13 % len(VALUES)):
        if DECLS[d][1] == 0:
          yield {'decls': [d], 'ops': [['set', 0, v]], 'catch': True,
                 'diag': False, 'ret': ret}
        else:
          other = 9 if d != 9 else 10
          yield {'decls': [d, other], 'ops': [['setd', 0, 0, v], ['setd', 1, 1, 3]],
                 'catch': True, 'diag': False, 'ret': ret}
  for d in range(len(DECLS)):
    for v in range(len(VALUES)):
      for catch in (True, False):
        for diag in (True, False, 'internal'):
          if DECLS[d][1] == 0:
            yield {'decls': [d], 'ops': [['set', 0, v]], 'catch': catch,
                   'diag': diag}
            yield {'decls': [d], 'ops': [['set', 0, 3], ['set', 0, v]],
                   'catch': catch, 'diag': diag}
            if catch and diag is not True:
              yield {'decls': [d], 'ops': [['set', 0, v]], 'catch': catch,
                     'diag': diag, 'derived': True}
          else:
            c = 0 if DECLS[d][1] == 1 else 0
            yield {'decls': [d], 'ops': [['setd', 0, c, v]], 'catch': catch,
                   'diag': diag}
            if catch and diag is False:
              yield {'decls': [d], 'ops': [['setd', 0, c, v]], 'catch': catch,
                     'diag': diag, 'derived': True}
              yield {'decls': [d], 'ops': [['setd', 0, c, v]], 'catch': catch,
                     'diag': diag, 'late': True}
              yield {'decls': [d], 'ops': [['setd', 0, c, 0], ['setd', 0, 1, v]],
                     'catch': catch, 'diag': diag, 'late': True}
            yield {'decls': [d], 'ops': [['setd', 0, c, 0], ['setd', 0, 1, v],
                                         ['setd', 0, c, v]],
                   'catch': catch, 'diag': diag}


def sampled(tier, rng):
  while True:
    k = rng.randint(2, 4)
    decls = rng.sample(range(len(DECLS)), k)
    ops = []
    for _ in range(rng.randint(1, 8)):
      mi = rng.randrange(k)
      r = rng.random()
      if r < .06:
        ops.append(['undeclared', rng.randrange(len(VALUES))])
      elif r < .12:
        ops.append(['nocoords', mi, rng.randrange(len(VALUES))])
      elif DECLS[decls[mi]][1] == 0 and r < .95:
        ops.append(['set', mi, rng.randrange(len(VALUES))])
      else:
        ops.append(['setd', mi, rng.randrange(8), rng.randrange(len(VALUES))])
    yield {'decls': decls, 'ops': ops, 'catch': rng.random() < .8,
           'diag': rng.choice([True, False, 'internal']),
           'late': rng.random() < .2, 'derived': rng.random() < .2,
           'ret': rng.choice([None, None, None, 'SKIP', 'REPEAT', 'STOP',
                              'FAIL_AND_CONTINUE'])}


# ------------------------------------------------------------------ running
def run_case(case):
  H = pm.htf()
  R = pm._H['R']  # pylint: disable=protected-access
  decls = [DECLS[i] for i in case['decls']]
  meas = [build_measurement(d) for d in decls]
  refs = [Ref(d, case['diag']) for d in decls]
  trace = []       # per op: (exception name, [snapshots])
  late_writes = {}
  viol = []
  c = {'histories': 1, 'snapshots_compared': 0, 'final_records_compared': 0,
       'rejections_checked': 0, 'validator_exceptions_checked': 0,
       'marginal_true_seen': 0}

  def snap(state):
    out = []
    for d in decls:
      m = state.running_phase_state.measurements[d[0]]
      mv = m.measured_value
      if d[1]:
        val = list(mv.value) if mv.is_value_set else '<unset>'
      else:
        val = mv.value if mv.is_value_set else '<unset>'
      out.append((m.outcome.name, bool(m.marginal), val))
    return out

  def coords_of(d, ci):
    pool = COORDS1 if d[1] == 1 else COORDS2
    return pool[ci % len(pool)]

  def apply_real(state, op):
    api = state.test_api
    k = op[0]
    if k == 'set':
      api.measurements[decls[op[1]][0]] = VALUES[op[2]]
    elif k == 'setd':
      d = decls[op[1]]
      if d[1] == 0:
        api.measurements[d[0]][coords_of(DECLS[9], op[2])] = VALUES[op[3]]
      else:
        handle = api.measurements[d[0]]
        handle[coords_of(d, op[2])] = VALUES[op[3]]
        late_writes[d[0]] = (handle, coords_of(d, op[2]), VALUES[op[3]])
    elif k == 'undeclared':
      api.measurements['no_such_measurement'] = VALUES[op[1]]
    elif k == 'nocoords':
      api.measurements[decls[op[1]][0]] = VALUES[op[2]]

  @H.PhaseOptions(requires_state=True)
  def put(state, vf_extra=None):
    for op in case['ops']:
      try:
        apply_real(state, op)
        trace.append((None, snap(state)))
      except Exception as e:  # pylint: disable=broad-except
        trace.append((type(e).__name__, snap(state)))
        if not case['catch']:
          raise
    if case.get('ret'):
      # the phase ends by SKIP / REPEAT (at its limit) / STOP / FAIL_AND_CONTINUE
      return getattr(H.PhaseResult, case['ret'])
    return None

  put = H.PhaseOptions(repeat_limit=1)(H.measures(*meas)(put))
  if case.get('derived'):
    # the phase that runs is a with_args() derivation of the declared one: its
    # measurements (validators included) are the derived copies
    put = put.with_args(vf_extra=1)
    c['derived_phases'] = 1
  nodes = []
  if case['diag']:
    @H.PhaseDiagnoser(R, name='pre_diag')
    def pre_diag(phase_record):
      return H.Diagnosis(R.D1, 'x', is_internal=case['diag'] == 'internal')

    def pre(test):
      pass
    nodes.append(H.diagnose(pre_diag)(pre))
  nodes.append(put)
  if case.get('late'):
    # A handle kept from the finished phase delivers its last reading once
    # more (a sampler thread that is late): same coordinate, same value.  The
    # finished phase's measurement stays as it was validated.
    def late(test):
      for handle, coords, value in late_writes.values():
        handle[coords] = value
        c['late_writes'] = c.get('late_writes', 0) + 1
    nodes.append(late)
  t = H.Test(*nodes)
  recs = []
  t.add_output_callbacks(recs.append)
  CONF = pm._H['CONF']  # pylint: disable=protected-access

  @CONF.save_and_restore(allow_unset_measurements=True)
  def go():
    return t.execute()
  go()
  pm.prune_handlers()

  def bad(mech, **d):
    if len(viol) < 4:
      viol.append({'mechanism': mech, 'detail': d})

  # ---- model replay ---------------------------------------------------------
  model_trace = []
  body_raised = None
  for op in case['ops']:
    k = op[0]
    if k == 'set':
      exc = refs[op[1]].set_scalar(VALUES[op[2]])
    elif k == 'setd':
      d = decls[op[1]]
      if d[1] == 0:
        # indexing a scalar measurement: reading an unset/ set scalar value
        exc = '<scalar-index>'
      else:
        exc = refs[op[1]].set_cell(coords_of(d, op[2]), VALUES[op[3]])
    elif k == 'undeclared':
      exc = 'NotAMeasurementError'
    else:
      d = decls[op[1]]
      if d[1]:
        exc = 'InvalidDimensionsError'
      else:
        exc = refs[op[1]].set_scalar(VALUES[op[2]])
    model_trace.append((exc, [r.snapshot() for r in refs]))
    if exc and not case['catch']:
      body_raised = exc
      break
  for i, (mt, rt) in enumerate(zip(model_trace, trace)):
    op = case['ops'][i]
    mexc, msnap = mt
    rexc, rsnap = rt
    if mexc == '<scalar-index>':
      # any exception is fine (the statement does not cover it); state unchanged
      if rexc is None:
        bad('indexing-a-scalar-measurement-accepted', op=op)
    elif mexc != rexc:
      if mexc is None:
        bad('assignment-raised-unexpectedly:%s' % rexc, op=op, index=i)
      elif rexc is None:
        bad('assignment-not-rejected:%s' % mexc, op=op, index=i)
      else:
        bad('assignment-wrong-exception:%s-instead-of-%s' % (rexc, mexc), op=op)
    if mexc in ('InvalidDimensionsError', 'NotAMeasurementError'):
      c['rejections_checked'] += 1
    elif mexc and mexc not in ('<scalar-index>',):
      c['validator_exceptions_checked'] += 1
    for d, ms, rs in zip(decls, msnap, rsnap):
      c['snapshots_compared'] += 1
      if ms[1]:
        c['marginal_true_seen'] += 1
      if ms[0] != rs[0]:
        bad('outcome-differs:%s-instead-of-%s' % (rs[0], ms[0]), meas=d[0],
            index=i, op=op, value=repr(rs[2])[:80])
      elif ms[1] != rs[1]:
        bad('marginal-differs:%s-instead-of-%s' % (rs[1], ms[1]), meas=d[0],
            index=i, op=op, outcome=rs[0], value=repr(rs[2])[:80])
      elif not same(ms[2] if not isinstance(ms[2], list) else [tuple(x) for x in ms[2]],
                    rs[2] if not isinstance(rs[2], list) else [tuple(x) for x in rs[2]]):
        bad('recorded-value-differs', meas=d[0], index=i, op=op,
            real=repr(rs[2])[:100], model=repr(ms[2])[:100])
  if len(trace) != len(model_trace):
    bad('body-stopped-at-a-different-operation', real=len(trace),
        model=len(model_trace))
  # ---- end of phase -----------------------------------------------------------
  final_exc = [r.finalize() for r in refs]
  if not recs:
    bad('no-record')
  else:
    prec = [p for p in recs[0].phases if p.name == 'put']
    if len(prec) != 1:
      bad('phase-record-count', n=len(prec))
    else:
      p = prec[0]
      want_error = bool(body_raised) or any(final_exc)
      is_error = p.outcome.name == 'ERROR'
      if want_error != is_error and not (case.get('ret') and not want_error):
        bad('phase-error-%s' % ('missing' if want_error else 'unexpected'),
            outcome=p.outcome.name, body_raised=body_raised,
            final_exc=final_exc, result=pm.res_name(p.result))
      for d, r in zip(decls, refs):
        c['final_records_compared'] += 1
        m = p.measurements[d[0]]
        ms = r.snapshot()
        if m.outcome.name == 'PARTIALLY_SET':
          bad('measurement-left-PARTIALLY_SET', meas=d[0])
        elif m.outcome.name != ms[0]:
          bad('final-outcome-differs:%s-instead-of-%s' % (m.outcome.name, ms[0]),
              meas=d[0], ops=case['ops'])
        elif bool(m.marginal) != ms[1]:
          bad('final-marginal-differs:%s-instead-of-%s' % (m.marginal, ms[1]),
              meas=d[0], ops=case['ops'], outcome=ms[0])
        else:
          mv = m.measured_value
          val = (list(mv.value) if d[1] else mv.value) if mv.is_value_set \
              else '<unset>'
          mval = ms[2]
          if not same(val if not isinstance(val, list) else [tuple(x) for x in val],
                      mval if not isinstance(mval, list) else [tuple(x) for x in mval]):
            bad('final-value-differs', meas=d[0], real=repr(val)[:100],
                model=repr(mval)[:100])
        if m.marginal and m.outcome.name != 'PASS':
          bad('marginal-without-PASS', meas=d[0], outcome=m.outcome.name)
  return {'sig': case if c['snapshots_compared'] else None, 'violations': viol,
          'counters': c}
