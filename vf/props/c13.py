"""C13 — ADB message framing: lossless round trip, corrupt frames rejected.

Monitors: (a) chunk log of a recording fake transport vs an independently
packed header; (b) read_message on every corruption of a valid frame vs a
self-consistency oracle; (c) pause-point engine: writer/reader paused at every
reached line of write_message/read_message while a second writer/reader runs;
(d) timeouts that expire between header and payload.
"""
import itertools
import random
import struct
import threading
import time

PROPERTY = 'C13'
LEVEL = 'fault_enumeration'
RULE = ('cases: (1) command x argument x payload-size round trips through a '
        'recording loopback transport, (2) every single-field replacement, every '
        'single-bit flip and every truncation of a valid header plus payload '
        'truncation/extension/byte changes, (3) one schedule per (line, hit) reached '
        'inside write_message/read_message by a paused writer/reader while a second '
        'one performs a complete call, plus seeded yield-injection stress with 2-4 '
        'writers/readers, (4) time-outs expiring between header and payload; '
        'distinct = distinct frame/corruption/schedule; non-trivial = the monitor '
        'compared at least one frame or chunk log')
ASSUMPTIONS = [
    'payloads are latin-1 str (the pinned code sums ord() of the payload)',
    'a corrupted frame that is still self-consistent (e.g. flipped arg/magic bit) may be delivered',
    'the fake transport returns one written chunk per read (USB transaction semantics)',
]
REQUIRED_COUNTERS = ['frames_roundtrip', 'corruptions_checked',
                     'schedules_paused', 'chunk_logs_checked',
                     'timeout_cases']
EXHAUSTIVE = {'quick': True, 'thorough': True}
PLAN = {
    'quick': {'workers': 16, 'budget_s': 40, 'sampled_per_worker': 60},
    'thorough': {'workers': 16, 'budget_s': 300, 'sampled_per_worker': 2500},
}

COMMANDS = ['SYNC', 'CNXN', 'AUTH', 'OPEN', 'OKAY', 'CLSE', 'WRTE']
ARGS = [0, 1, 2**31, 2**32 - 1]
MAXDATA = 4096

_M = {}


def setup():
  from vf import usbstub, harness, pause
  usbstub.install()
  from openhtf.plugs.usb import adb_message, usb_exceptions
  from openhtf.util import timeouts
  harness.assert_root(adb_message)
  # as every real AdbDevice does: the filesync command set is loaded as well
  from openhtf.plugs.usb import filesync_service  # pylint: disable=unused-import
  _M.update(adb_message=adb_message, exc=usb_exceptions, timeouts=timeouts)
  eng = pause.Engine([adb_message.__file__],
                     lambda th: th.name if th.name[:1] in ('W', 'R') and
                     th.name[1:].isdigit() else None)
  eng.install()
  eng.enabled = False
  _M['engine'] = eng


def teardown():
  _M['engine'].uninstall()


# ------------------------------------------------------------ spec helpers
def wire(cmd):
  return int.from_bytes(cmd.encode('ascii'), 'little')


def spec_header(cmd, arg0, arg1, payload):
  w = wire(cmd)
  return struct.pack('<6I', w, arg0, arg1, len(payload),
                     sum(payload.encode('latin-1')) & 0xFFFFFFFF,
                     w ^ 0xFFFFFFFF)


def payload_of(size, seed):
  r = random.Random(seed)
  return ''.join(chr(r.randrange(256)) for _ in range(size))


class Transport:
  """Recording transport: writes are logged, reads pop scripted chunks."""

  def __init__(self, chunks=(), write_delay=None, read_delay=None):
    self.log = []
    self.chunks = list(chunks)
    self.lock = threading.Lock()
    self.write_delay = write_delay
    self.read_delay = read_delay
    self.reads = []

  def write(self, data, timeout_ms):
    if self.write_delay:
      self.write_delay(len(self.log))
    with self.lock:
      self.log.append((threading.current_thread().name, data, timeout_ms))

  def read(self, n, timeout_ms):
    if self.read_delay:
      self.read_delay(len(self.reads))
    with self.lock:
      self.reads.append((threading.current_thread().name, n, timeout_ms))
      if not self.chunks:
        lib = __import__('libusb1')
        raise _M['exc'].UsbReadFailedError(
            lib.USBError(lib.LIBUSB_ERROR_TIMEOUT), 'timeout')
      return self.chunks.pop(0)

  def close(self):
    pass


def to(ms=2000):
  return _M['timeouts'].PolledTimeout.from_millis(ms)


# ------------------------------------------------------------ generators
def enumerated(tier):
  sizes = [0, 1, 2, MAXDATA - 1, MAXDATA]
  for cmd in COMMANDS:
    for a0, a1 in itertools.product(ARGS, repeat=2):
      for size in sizes:
        yield {'k': 'roundtrip', 'cmd': cmd, 'a0': a0, 'a1': a1, 'size': size}
  yield {'k': 'badcmd'}
  for sizes in ([3, 5], [5, 3], [4, 4, 4], [1, 0, 2], [0, 6], [MAXDATA, 1]):
    for peek in (False, True):
      for args in (False, True):
        yield {'k': 'reuse', 'sizes': sizes, 'peek': peek, 'args': args}
  # corruptions of a few base frames
  bases = [('WRTE', 7, 9, 5), ('OKAY', 1, 2, 0), ('CNXN', 0x01000000, 4096, 33)]
  if tier == 'thorough':
    bases += [('CLSE', 2**32 - 1, 0, 1), ('AUTH', 1, 0, 20),
              ('OPEN', 5, 0, 255), ('SYNC', 0, 0, 0), ('WRTE', 3, 4, MAXDATA)]
  for bi, base in enumerate(bases):
    for field in range(6):
      for how in ('zero', 'one', 'xor1', 'plus1', 'ones', 'minus1'):
        yield {'k': 'corrupt', 'base': base, 'c': ['field', field, how]}
    for bit in range(192):
      yield {'k': 'corrupt', 'base': base, 'c': ['bit', bit]}
    for n in range(0, 24):
      yield {'k': 'corrupt', 'base': base, 'c': ['trunc_header', n]}
    for n in (1, 2, 5):
      yield {'k': 'corrupt', 'base': base, 'c': ['trunc_payload', n]}
      yield {'k': 'corrupt', 'base': base, 'c': ['extend_payload', n]}
    for pos in (0, 1, -1):
      yield {'k': 'corrupt', 'base': base, 'c': ['byte_plus', pos]}
      yield {'k': 'corrupt', 'base': base, 'c': ['swap', pos]}
    yield {'k': 'corrupt', 'base': base, 'c': ['none']}
    yield {'k': 'corrupt', 'base': base, 'c': ['no_payload_chunk']}
  # pause-point schedules: discovered at run time, enumerated by index
  for mode in ('writers', 'readers'):
    for size in (0, 3):
      for idx in range(40):
        yield {'k': 'pause', 'mode': mode, 'size': size, 'idx': idx}
        # the second thread's own time-out is already expired / expires while
        # the first thread is held (time-outs must not weaken the exclusion)
        yield {'k': 'pause', 'mode': mode, 'size': size, 'idx': idx, 't2': 0}
        yield {'k': 'pause', 'mode': mode, 'size': size, 'idx': idx, 't2': 30}
  for k in ('write_expire', 'write_expired_before', 'read_expire',
            'read_expired_before', 'read_until_noise'):
    for size in (0, 1, 50):
      yield {'k': 'timeout', 'which': k, 'size': size}


def sampled(tier, rng):
  while True:
    yield {'k': 'stress', 'seed': rng.getrandbits(32),
           'mode': rng.choice(['writers', 'readers']),
           'n': rng.randint(2, 4), 'msgs': rng.randint(2, 6)}


# ------------------------------------------------------------ runners
def _result(sig, viol, c):
  base = {'frames_roundtrip': 0, 'corruptions_checked': 0,
          'schedules_paused': 0, 'chunk_logs_checked': 0, 'timeout_cases': 0}
  base.update(c)
  return {'sig': sig, 'violations': viol, 'counters': base}


def run_roundtrip(case):
  am = _M['adb_message']
  viol = []
  payload = payload_of(case['size'], case['size'] * 31 + case['a0'] % 97)
  msg = am.AdbMessage(case['cmd'], case['a0'], case['a1'], payload)
  tr = Transport()
  ad = am.AdbTransportAdapter(tr)
  ad.write_message(msg, to())
  want = [spec_header(case['cmd'], case['a0'], case['a1'], payload), payload]
  got = [c[1] for c in tr.log]
  if got != want:
    viol.append({'mechanism': 'written-frame-differs-from-spec',
                 'detail': {'want': [repr(w[:40]) for w in want],
                            'got': [repr(g[:40]) for g in got]}})
  tr2 = Transport(chunks=list(want[:2] if case['size'] else want[:1]))
  try:
    back = am.AdbTransportAdapter(tr2).read_message(to())
    if (back.command, back.arg0, back.arg1, back.data) != (
        case['cmd'], case['a0'], case['a1'], payload):
      viol.append({'mechanism': 'roundtrip-differs',
                   'detail': {'got': repr(back)[:200]}})
  except Exception as e:  # pylint: disable=broad-except
    viol.append({'mechanism': 'roundtrip-raises:' + type(e).__name__,
                 'detail': {'exc': str(e)[:200]}})
  if len(tr2.reads) != (2 if case['size'] else 1) or tr2.chunks:
    viol.append({'mechanism': 'roundtrip-read-count',
                 'detail': {'reads': len(tr2.reads), 'left': len(tr2.chunks)}})
  return _result(case, viol, {'frames_roundtrip': 1, 'chunk_logs_checked': 1})


def run_reuse(case):
  """One AdbMessage object is written, its public fields are reassigned and it
  is written again (a sender re-using a message): every written frame must
  match the fields it had when it was written and read back identically."""
  am = _M['adb_message']
  viol = []
  msg = am.AdbMessage('WRTE', 1, 2, payload_of(case['sizes'][0], 7))
  tr = Transport()
  ad = am.AdbTransportAdapter(tr)
  want = []
  n = 0
  for i, size in enumerate(case['sizes']):
    if i:
      msg.data = payload_of(size, 7 + i)
      if case.get('args'):
        msg.arg0, msg.arg1 = 10 + i, 20 + i
    if case.get('peek'):
      _ = msg.header        # header / checksum looked at before the write
    ad.write_message(msg, to())
    want.append(spec_header('WRTE', msg.arg0, msg.arg1, msg.data))
    want.append(msg.data)
    n += 1
  got = [c[1] for c in tr.log]
  if got != want:
    first = next((i for i in range(min(len(got), len(want)))
                  if got[i] != want[i]), None)
    viol.append({'mechanism': 'written-frame-differs-from-spec',
                 'detail': {'reused_message': True, 'chunk': first,
                            'sizes': case['sizes']}})
  else:
    tr2 = Transport(chunks=[c for c in want if c != '' ])
    for i, size in enumerate(case['sizes']):
      try:
        back = am.AdbTransportAdapter(tr2).read_message(to())
        if len(back.data) != size:
          viol.append({'mechanism': 'roundtrip-differs',
                       'detail': {'reused_message': True, 'frame': i}})
      except Exception as e:  # pylint: disable=broad-except
        viol.append({'mechanism': 'roundtrip-raises:' + type(e).__name__,
                     'detail': {'reused_message': True, 'frame': i}})
        break
  return _result(case, viol, {'frames_roundtrip': n, 'chunk_logs_checked': 1})


def run_badcmd(case):
  am, exc = _M['adb_message'], _M['exc']
  viol = []
  # unknown names, and the four-letter ids of the *filesync* command set, which
  # are not ADB message commands
  others = ('STAT', 'LIST', 'SEND', 'RECV', 'DENT', 'DONE', 'DATA', 'FAIL', 'QUIT')
  for bad in ('XXXX', '', 'okay', 'WRTE ') + others:
    try:
      am.AdbMessage(bad)
      viol.append({'mechanism': 'unknown-command-constructed',
                   'detail': {'cmd': bad}})
    except exc.AdbProtocolError:
      pass
  n = 4 + len(others)
  for name in others:
    wire = sum(ord(ch) << (i * 8) for i, ch in enumerate(name))
    for size in (0, 3):
      payload = payload_of(size, 5)
      header = struct.pack('<6I', wire, 1, 2, size,
                           sum(payload.encode('latin-1')) & 0xFFFFFFFF,
                           wire ^ 0xFFFFFFFF)
      tr = Transport(chunks=[header] + ([payload] if size else []))
      n += 1
      try:
        m = am.AdbTransportAdapter(tr).read_message(to())
        viol.append({'mechanism': 'unknown-command-delivered',
                     'detail': {'cmd': name, 'msg': repr(m)[:80]}})
      except exc.AdbProtocolError:
        pass
      except Exception as e:  # pylint: disable=broad-except
        viol.append({'mechanism': 'unknown-command-wrong-exception:' +
                                  type(e).__name__, 'detail': {'cmd': name}})
  return _result(case, viol[:4], {'corruptions_checked': n})


def corrupt(base, c):
  cmd, a0, a1, size = base
  payload = payload_of(size, 12345 + size)
  fields = list(struct.unpack('<6I', spec_header(cmd, a0, a1, payload)))
  header = None
  chunks_payload = [payload] if size else []
  kind = c[0]
  if kind == 'field':
    _, i, how = c
    v = fields[i]
    fields[i] = {'zero': 0, 'one': 1, 'xor1': v ^ 1, 'plus1': (v + 1) & 0xFFFFFFFF,
                 'ones': 0xFFFFFFFF, 'minus1': (v - 1) & 0xFFFFFFFF}[how]
  elif kind == 'bit':
    i, b = divmod(c[1], 32)
    fields[i] ^= (1 << b)
  elif kind == 'trunc_header':
    header = struct.pack('<6I', *fields)[:c[1]]
  elif kind == 'trunc_payload':
    chunks_payload = [payload[:-c[1]]] if size else []
  elif kind == 'extend_payload':
    chunks_payload = [payload + 'z' * c[1]] if size else []
  elif kind == 'byte_plus':
    if size:
      p = list(payload)
      i = c[1] % size
      p[i] = chr((ord(p[i]) + 1) % 256)
      chunks_payload = [''.join(p)]
  elif kind == 'swap':
    if size >= 2:
      p = list(payload)
      i = c[1] % size
      j = (i + 1) % size
      p[i], p[j] = p[j], p[i]
      chunks_payload = [''.join(p)]
  elif kind == 'no_payload_chunk':
    chunks_payload = []
  if header is None:
    header = struct.pack('<6I', *fields)
  return header, chunks_payload


def run_corrupt(case):
  am, exc = _M['adb_message'], _M['exc']
  viol = []
  header, pchunks = corrupt(tuple(case['base']), case['c'])
  tr = Transport(chunks=[header] + pchunks)
  # self-consistency oracle on what the transport will hand over
  consistent = False
  fields = None
  if len(header) == 24:
    fields = struct.unpack('<6I', header)
    known = {wire(c): c for c in COMMANDS}
    data = pchunks[0] if (fields[3] > 0 and pchunks) else ('' if fields[3] == 0 else None)
    if (fields[0] in known and data is not None and len(data) == fields[3]
        and (sum(data.encode('latin-1')) & 0xFFFFFFFF) == fields[4]):
      consistent = True
  try:
    msg = am.AdbTransportAdapter(tr).read_message(to(300))
    out = ('ok', msg)
  except (exc.AdbProtocolError, exc.AdbDataIntegrityError) as e:
    out = ('rejected', type(e).__name__)
  except exc.UsbReadFailedError as e:
    # the payload chunk never arrived: the transport's own time-out error
    out = ('transport-timeout', type(e).__name__)
  except Exception as e:  # pylint: disable=broad-except
    out = ('other', type(e).__name__ + ': ' + str(e)[:100])
  if out[0] == 'ok':
    msg = out[1]
    if not consistent:
      viol.append({'mechanism': 'inconsistent-frame-delivered',
                   'detail': {'corruption': case['c'], 'msg': repr(msg)[:160]}})
    else:
      data = pchunks[0] if fields[3] else ''
      if (wire(msg.command), msg.arg0, msg.arg1, msg.data) != (
          fields[0], fields[1], fields[2], data):
        viol.append({'mechanism': 'delivered-message-differs-from-its-header',
                     'detail': {'corruption': case['c']}})
  elif out[0] == 'other':
    viol.append({'mechanism': 'corrupt-frame-wrong-exception',
                 'detail': {'corruption': case['c'], 'exc': out[1]}})
  elif out[0] == 'transport-timeout':
    if case['c'][0] not in ('no_payload_chunk',) and not (
        len(header) == 24 and fields[3] > 0 and not pchunks):
      viol.append({'mechanism': 'corrupt-frame-wrong-exception',
                   'detail': {'corruption': case['c'], 'exc': out[1]}})
  elif out[0] == 'rejected' and consistent and case['c'][0] == 'none':
    viol.append({'mechanism': 'valid-frame-rejected',
                 'detail': {'exc': out[1]}})
  return _result(case, viol, {'corruptions_checked': 1})


def _frames(n, size, seed=0):
  out = []
  for i in range(n):
    payload = payload_of(size + (i if size else 0), seed + i)
    out.append(('WRTE', 100 + i, 200 + i, payload))
  return out


def _check_write_log(log, frames, viol, ctx):
  """The chunk log must be a sequence of header,payload pairs of the frames."""
  want = {}
  for f in frames:
    want[spec_header(*f)] = f[3]
  i = 0
  seen = 0
  while i < len(log):
    th, data, _ = log[i]
    if data not in want or i + 1 >= len(log):
      viol.append({'mechanism': 'writers-interleaved',
                   'detail': dict(ctx, at=i, log=[(l[0], repr(l[1][:12]))
                                                  for l in log[:12]])})
      return
    th2, data2, _ = log[i + 1]
    if data2 != want[data] or th2 != th:
      viol.append({'mechanism': 'writers-interleaved',
                   'detail': dict(ctx, at=i, log=[(l[0], repr(l[1][:12]))
                                                  for l in log[:12]])})
      return
    seen += 1
    i += 2
  if seen != len(frames):
    viol.append({'mechanism': 'written-frame-missing',
                 'detail': dict(ctx, seen=seen, want=len(frames))})


def _pause_scenario(mode, size, target, yield_seed=None, n=2, msgs=1, t2=5000):
  """Runs n writer or reader threads; returns (transport, results, engine info)."""
  am = _M['adb_message']
  eng = _M['engine']
  frames = _frames(n * msgs, size, seed=7)
  if mode == 'writers':
    tr = Transport()
  else:
    chunks = []
    for f in frames:
      chunks.append(spec_header(*f))
      if f[3]:
        chunks.append(f[3])
    tr = Transport(chunks=chunks)
  ad = am.AdbTransportAdapter(tr)
  results = {}

  def writer(i):
    for j in range(msgs):
      f = frames[i * msgs + j]
      try:
        ad.write_message(am.AdbMessage(*f), to(5000 if i == 0 else t2))
      except Exception as e:  # pylint: disable=broad-except
        results.setdefault(i, []).append(('exc', repr(e)))

  def reader(i):
    for _ in range(msgs):
      try:
        m = ad.read_message(to(5000 if i == 0 else t2))
        results.setdefault(i, []).append((m.command, m.arg0, m.arg1, m.data))
      except Exception as e:  # pylint: disable=broad-except
        results.setdefault(i, []).append(('exc', type(e).__name__))

  fn = writer if mode == 'writers' else reader
  prefix = 'W' if mode == 'writers' else 'R'
  eng.arm(target, yield_seed=yield_seed,
          yield_prob=0.5 if yield_seed is not None else 0.0)
  eng.enabled = True
  info = {}
  try:
    if target is not None:
      t1 = threading.Thread(target=fn, args=(0,), name=prefix + '1')
      t1.start()
      act = eng.run_action_at_pause(lambda: fn(1), wait_s=5, hold_s=0.15)
      info.update(reached=act['reached'], blocked=act['blocked'])
      t1.join(10)
      if act.get('_thread'):
        act['_thread'].join(10)
      else:
        fn(1)
      # the action thread is not named W2: name only matters for the paused role
    else:
      ths = [threading.Thread(target=fn, args=(i,), name='%s%d' % (prefix, i + 1))
             for i in range(n)]
      for t in ths:
        t.start()
      for t in ths:
        t.join(20)
      info['hung'] = any(t.is_alive() for t in ths)
  finally:
    eng.enabled = False
  info['yields'] = eng.yields
  return tr, frames, results, info


def _check_readers(frames, results, viol, ctx):
  got = [r for rs in results.values() for r in rs]
  want = sorted((f[0], f[1], f[2], f[3]) for f in frames)
  if any(r[0] == 'exc' for r in got):
    viol.append({'mechanism': 'readers-interleaved',
                 'detail': dict(ctx, results=repr(got)[:300])})
  elif sorted(got) != want:
    viol.append({'mechanism': 'readers-interleaved',
                 'detail': dict(ctx, results=repr(got)[:300])})


_POINTS = {}


def run_pause(case):
  mode, size, idx = case['mode'], case['size'], case['idx']
  eng = _M['engine']
  key = (mode, size)
  if key not in _POINTS:
    # discovery: thread 1 alone
    am = _M['adb_message']
    f = _frames(2, size, seed=7)[0]
    eng.arm(None)
    eng.enabled = True
    try:
      if mode == 'writers':
        ad = am.AdbTransportAdapter(Transport())
        th = threading.Thread(
            target=lambda: ad.write_message(am.AdbMessage(*f), to(5000)),
            name='W1')
      else:
        chunks = [spec_header(*f)] + ([f[3]] if f[3] else [])
        ad = am.AdbTransportAdapter(Transport(chunks=chunks))
        th = threading.Thread(target=lambda: ad.read_message(to(5000)),
                              name='R1')
      th.start()
      th.join(10)
    finally:
      eng.enabled = False
    _POINTS[key] = eng.points()
  pts = _POINTS[key]
  if idx >= len(pts):
    return {'sig': None, 'violations': [], 'counters': {}, 'sample': False,
            'evaluations': 0}
  target = pts[idx]
  t2 = case.get('t2', 5000)
  tr, frames, results, info = _pause_scenario(mode, size, target, t2=t2)
  viol = []
  ctx = {'mode': mode, 'point': [list(target[0]), target[1]],
         'blocked': info.get('blocked'), 'second_thread_timeout_ms': t2}
  if mode == 'writers':
    if results:
      viol.append({'mechanism': 'writer-raised', 'detail': dict(ctx, r=repr(results))})
    _check_write_log(tr.log, frames, viol, ctx)
  else:
    _check_readers(frames, results, viol, ctx)
  return _result({'pause': [mode, size, list(target[0]), target[1], t2]}, viol,
                 {'schedules_paused': 1 if info.get('reached') else 0,
                  'pause_not_reached': 0 if info.get('reached') else 1,
                  'schedules_action_blocked': 1 if info.get('blocked') else 0,
                  'chunk_logs_checked': 1})


def run_stress(case):
  old = __import__('sys').getswitchinterval()
  __import__('sys').setswitchinterval(1e-5)
  try:
    tr, frames, results, info = _pause_scenario(
        case['mode'], 3, None, yield_seed=case['seed'], n=case['n'],
        msgs=case['msgs'])
  finally:
    __import__('sys').setswitchinterval(old)
  viol = []
  ctx = {'mode': case['mode'], 'seed': case['seed']}
  if info.get('hung'):
    viol.append({'mechanism': 'framing-thread-hung', 'detail': ctx})
  if case['mode'] == 'writers':
    _check_write_log(tr.log, frames, viol, ctx)
  else:
    _check_readers(frames, results, viol, ctx)
  return _result(case, viol, {'chunk_logs_checked': 1,
                              'stress_runs': 1, 'yields_injected': info['yields']})


def run_timeout(case):
  am, exc, timeouts = _M['adb_message'], _M['exc'], _M['timeouts']
  viol = []
  which, size = case['which'], case['size']
  payload = payload_of(size, 99)
  f = ('WRTE', 5, 6, payload)
  if which in ('write_expire', 'write_expired_before'):
    t = timeouts.PolledTimeout.from_millis(
        30 if which == 'write_expire' else 0)

    def delay(n_written):
      if n_written == 0 and which == 'write_expire':
        while not t.has_expired():
          time.sleep(0.002)

    tr = Transport(write_delay=delay)
    try:
      am.AdbTransportAdapter(tr).write_message(am.AdbMessage(*f), t)
    except Exception as e:  # pylint: disable=broad-except
      viol.append({'mechanism': 'write-after-expiry-raises:' + type(e).__name__,
                   'detail': {'which': which}})
    got = [c[1] for c in tr.log]
    if got != [spec_header(*f), payload]:
      viol.append({'mechanism': 'header-sent-without-payload',
                   'detail': {'which': which, 'chunks': len(got)}})
    elif tr.log[1][2] is not None and tr.log[1][2] <= 0 and which == 'write_expire':
      viol.append({'mechanism': 'payload-sent-with-zero-timeout',
                   'detail': {'timeout_ms': tr.log[1][2]}})
  elif which in ('read_expire', 'read_expired_before'):
    t = timeouts.PolledTimeout.from_millis(30 if which == 'read_expire' else 0)

    def rdelay(n_read):
      if n_read == 0 and which == 'read_expire':
        while not t.has_expired():
          time.sleep(0.002)

    chunks = [spec_header(*f)] + ([payload] if size else [])
    tr = Transport(chunks=chunks, read_delay=rdelay)
    try:
      m = am.AdbTransportAdapter(tr).read_message(t)
      if (m.command, m.arg0, m.arg1, m.data) != f:
        viol.append({'mechanism': 'roundtrip-differs', 'detail': {'which': which}})
    except Exception as e:  # pylint: disable=broad-except
      viol.append({'mechanism': 'read-after-expiry-raises:' + type(e).__name__,
                   'detail': {'which': which}})
    if tr.chunks:
      viol.append({'mechanism': 'header-read-without-payload',
                   'detail': {'which': which, 'left': len(tr.chunks)}})
  else:  # read_until ignores other commands, frames stay aligned
    noise = [('OKAY', 1, 2, payload), ('WRTE', 3, 4, payload)]
    want = ('CNXN', 9, 8, 'device::x')
    chunks = []
    for g in noise + [want]:
      chunks.append(spec_header(*g))
      if g[3]:
        chunks.append(g[3])
    tr = Transport(chunks=chunks)
    try:
      m = am.AdbTransportAdapter(tr).read_until(('CNXN', 'AUTH'), to(3000))
      if (m.command, m.arg0, m.arg1, m.data) != want:
        viol.append({'mechanism': 'read_until-wrong-message',
                     'detail': {'got': repr(m)[:100]}})
    except Exception as e:  # pylint: disable=broad-except
      viol.append({'mechanism': 'read_until-raises:' + type(e).__name__,
                   'detail': {}})
  return _result(case, viol, {'timeout_cases': 1})


def run_case(case):
  k = case['k']
  return {'roundtrip': run_roundtrip, 'badcmd': run_badcmd, 'reuse': run_reuse,
          'corrupt': run_corrupt, 'pause': run_pause, 'stress': run_stress,
          'timeout': run_timeout}[k](case)
