"""C03 — PhaseGroup teardown always runs once the group was entered.

Monitors (vf/grouporacle.py): trace predicates over the event log and the
recorded setup results of every group instance, independent of the reference
interpreter.  Workloads: (a) generated programs with nested groups in
sequences / subtests / branches / other groups whose main ends by exception,
STOP, time-out (virtual clock), FAIL_SUBTEST, nested failure or a terminal
teardown node; (b) pause-point schedules: a family of group programs is run
with the executor / phase / main thread paused at every reached line while a
controller thread performs one complete operator abort.
"""
import itertools
import json
import random

from vf import grouporacle
from vf import progmodel as pm

PROPERTY = 'C03'
LEVEL = 'exploration'
RULE = ('(a) programs: every assignment of behaviours {CONTINUE, FAIL_AND_CONTINUE, raise, '
        'STOP, FAIL_SUBTEST, SKIP, time-out, REPEAT} to the setup/main/teardown phases of five '
        'nesting skeletons (group in sequence / subtest / branch / group main / group teardown) '
        'and three skeletons whose teardown holds every node kind (taken / untaken branch, '
        'checkpoint, sequence, phases) '
        'restricted to <= 2 non-default behaviours, plus seeded random group-rich programs; '
        '(b) schedules: for each program of a 9-member family, one run per (thread role, '
        'function, line, hit) reached by a discovery run, pausing there while one complete '
        'abort is performed (quick: seeded sample), and one run per line reached by the '
        '*aborting* thread, held there 150 ms while the framework threads run on, for an '
        'abort arriving at the start / end of the slow main phase; plus programs with run_if predicates that say no / raise, groups without setup phases and stop_on_first_failure; distinct = distinct program or (program, '
        'pause point); non-trivial = at least one group instance was judged')
ASSUMPTIONS = [
    'a group is "entered" iff every setup phase has a recorded non-terminal result, was invoked, '
    'and the enclosing subtest had not failed (recorded results, not body-return events)',
    'groups inside a teardown sequence whose subtest had already failed are "don\'t care"',
    'schedules are preemption-bound 1 over the lines the programs reach',
]
REQUIRED_COUNTERS = ['programs_run', 'groups_judged', 'groups_entered',
                     'groups_not_entered', 'teardown_phases_judged',
                     'teardown_branches_judged', 'teardown_checkpoints_judged',
                     'schedules_paused', 'aborter_paused', 'aborts_performed']
EXHAUSTIVE = {'quick': False, 'thorough': False}
PLAN = {
    'quick': {'workers': 16, 'budget_s': 60, 'sampled_per_worker': 150,
              'wall_limit_s': 1200, 'schedules_per_program': 40},
    'thorough': {'workers': 16, 'budget_s': 900, 'sampled_per_worker': 6000,
                 'wall_limit_s': 7200, 'schedules_per_program': None},
}
BEHS = ['C', 'F', 'X', 'S', 'U', 'K', 'T', 'R']


def setup():
  pm.htf()


def _p(pid, **beh):
  return ['P', pid, beh]


def skeletons():
  """Each skeleton lists its phase ids in order; behaviours are assigned later."""
  g = lambda k, main=None, td_extra=None: ['G', [_p('s%d' % k)],
                                           main if main is not None else [_p('m%d' % k)],
                                           [_p('t%da' % k), _p('t%db' % k)] + (td_extra or [])]
  return {
      'seq': [_p('pre'), g(1), _p('post')],
      'subtest': [['T', 'st', [_p('pre'), g(1), _p('in_post')]], _p('post')],
      'branch': [_p('pre', ds=[[['D1', 0]]]),
                 ['B', 'br', 'ANY', ['D1'], [g(1), _p('in_post')]], _p('post')],
      'nested_main': [g(1, main=[_p('m1'), g(2), _p('m1b')]), _p('post')],
      'nested_td': [g(1, td_extra=[g(2)]), _p('post')],
      'sub_in_main': [g(1, main=[['T', 'st', [_p('u1'), g(2), _p('u2')]], _p('m1b')]),
                      _p('post')],
      # teardown made of every node kind: branch (taken / not taken),
      # checkpoint, sequence, besides direct phases
      'rich_td_seq': [_p('pre'), rich(1), _p('post')],
      'rich_td_subtest': [['T', 'st', [_p('pre'), rich(1), _p('in_post')]],
                          _p('post')],
      'rich_td_nested': [rich(1, main=[_p('m1'), g(2)]), _p('post')],
  }


def rich(k, main=None):
  return ['G', [_p('s%d' % k)], main if main is not None else [_p('m%d' % k)],
          [_p('t%da' % k),
           ['B', 'tbr%d' % k, 'NOT_ANY', ['D1'], [_p('t%dbp' % k)]],
           ['B', 'tbn%d' % k, 'ANY', ['D1'], [_p('t%dnp' % k)]],
           ['C', 'tcp%d' % k, 'last', 'S'],
           ['S', [_p('t%dsp' % k)]],
           _p('t%db' % k)]]


def assign(prog, assignment, diag=None, run_if=None):
  prog = json.loads(json.dumps(prog))
  for n, _ in pm.walk(prog):
    if n[0] == 'P' and n[1] in (run_if or {}):
      n[2]['run_if'] = run_if[n[1]]
    if n[0] == 'P' and n[1] in assignment:
      r = assignment[n[1]]
      n[2]['r'] = ['R', 'R', 'R'] if r == 'R' else r
    if n[0] == 'P' and n[1] == diag:
      n[2]['ds'] = [[['D1', 0]]]
  return prog


def enumerated(tier):
  for name, sk in skeletons().items():
    ids = [n[1] for n, _ in pm.walk(sk) if n[0] == 'P']
    yield {'k': 'prog', 'prog': sk, 'cfg': {}}
    for pid in ids:
      for b in BEHS[1:]:
        yield {'k': 'prog', 'prog': assign(sk, {pid: b}), 'cfg': {}}
      if name.startswith('rich'):
        # the phase also issues the diagnosis the teardown branches look at
        yield {'k': 'prog', 'prog': assign(sk, {pid: 'C'}, diag=pid), 'cfg': {}}
        yield {'k': 'prog', 'prog': assign(sk, {pid: 'F'}, diag=pid), 'cfg': {}}
    pairs = list(itertools.combinations(ids, 2))
    for p1, p2 in pairs:
      for b1, b2 in itertools.product(['F', 'X', 'S', 'U', 'T'], repeat=2):
        if tier == 'quick' and (hash((name, p1, p2, b1, b2)) % 4):
          continue
        yield {'k': 'prog', 'prog': assign(sk, {p1: b1, p2: b2}), 'cfg': {}}
  # run_if predicates that say no or raise (such a phase writes no record), with
  # and without stop_on_first_failure; groups without setup phases, so that the
  # phase may be the first one of the whole run
  extra = {
      'nosetup': [['G', [], [_p('m1'), _p('m1b')], [_p('t1a'), _p('t1b')]], _p('post')],
      'nosetup_sub': [['T', 'st', [['G', [], [_p('m1')], [_p('t1a'), _p('t1b')]]]],
                      _p('post')],
      'nosetup_nested': [['G', [], [['G', [], [_p('m2')], [_p('t2a')]]],
                          [_p('t1a'), _p('t1b')]]],
  }
  for name, sk in list(skeletons().items())[:3] + list(extra.items()):
    ids = [n[1] for n, _ in pm.walk(sk) if n[0] == 'P']
    for cfg in ({}, {'sof': 'opt'}, {'sof': 'conf'}):
      for pid in ids:
        for ri in (False, 'raise'):
          yield {'k': 'prog', 'prog': assign(sk, {}, run_if={pid: ri}), 'cfg': cfg}
          for other in ids:
            if other != pid and (tier == 'thorough' or name in extra):
              for b in ('F', 'X'):
                yield {'k': 'prog', 'cfg': cfg,
                       'prog': assign(sk, {other: b}, run_if={pid: ri})}
  nsched = PLAN[tier]['schedules_per_program']
  for fi in range(len(FAMILY)):
    if nsched is None:
      for idx in range(4000):
        yield {'k': 'sched', 'family': fi, 'idx': idx}
    else:
      for j in range(nsched):
        yield {'k': 'sched', 'family': fi, 'pick': j}
  for fi in range(len(FAMILY)):
    for when in ('start', 'end'):
      if nsched is None:
        for idx in range(400):
          yield {'k': 'asched', 'family': fi, 'when': when, 'idx': idx}
      else:
        for idx in range(60):     # every line the aborting thread reaches, first hit
          yield {'k': 'asched', 'family': fi, 'when': when, 'idx': idx}


def _slow(pid, t=0.01, **beh):
  return ['P', pid, dict(beh, slow=t)]


FAMILY = [
    [_p('a'), ['G', [_p('s')], [_slow('m1', 0.02, noarg=True), _p('m2', noarg=True)],
                [_p('t1', noarg=True), _p('t2')]],
     _p('z')],
    [['G', [_slow('s', 0.01)], [['G', [_p('s2')], [_slow('m2', 0.02)], [_p('t2a')]],
                                _p('m1b')], [_p('t1a'), _p('t1b')]]],
    [['T', 'st', [_p('u1'), ['G', [_p('s')], [_slow('m', 0.02, r='U'), _p('m2')],
                             [_p('t1')]], _p('u2')]], _p('z')],
    [['G', [_p('s')], [_slow('m', 0.01, opts={'force_repeat': True, 'repeat_limit': 2})],
      [_slow('t1', 0.01), _p('t2')]], _p('z')],
    [['G', [_p('s1'), _slow('s2', 0.01)], [_p('m')], [_p('t1')]],
     ['G', [_p('s3')], [_slow('m3', 0.01)], [_p('t3')]]],
    [['G', [_p('s')], [_slow('m', 0.02, r='X')], [_p('t1', r='X'), _p('t2')]],
     _p('z')],
    [_p('d', ds=[[['D1', 0]]]),
     ['B', 'br', 'ANY', ['D1'], [['G', [_p('s')], [_slow('m', 0.02)], [_p('t1')]]]],
     _p('z')],
    [['G', [_p('s', plugs=[0])], [_slow('m', 0.02, plugs=[0])],
      [_p('t1', plugs=[0]), ['G', [_p('s2')], [_p('m2')], [_p('t2')]]]]],
    [['T', 'st', [rich(1, main=[_slow('m1', 0.02, r='U'), _p('m1b')])]], _p('z')],
]


def gen_group_program(rng):
  ids = itertools.count()
  beh = lambda: {'r': rng.choice(['C'] * 6 + ['F', 'X', 'S', 'U', 'K', 'T',
                                              ['R', 'C'], 'BAD'])}

  def phase(prefix='p'):
    b = beh()
    if rng.random() < .15:
      b['m'] = rng.choice(['pass', 'fail'])
    if rng.random() < .1:
      b['ds'] = [[['D1', 0]]]
    if rng.random() < .07:
      b['run_if'] = rng.choice([False, 'raise'])
    return ['P', '%s%d' % (prefix, next(ids)), b]

  def group(depth, in_sub):
    s = [phase('s') for _ in range(rng.choice([0, 1, 1, 1, 2, 2]))]
    m = [node(depth - 1, in_sub) for _ in range(rng.randint(0, 3))]
    t = [phase('t') for _ in range(rng.randint(1, 2))]
    if depth > 1 and rng.random() < .3:
      t.append(group(depth - 1, in_sub))
    for _ in range(rng.choice([0, 0, 1, 2])):
      r = rng.random()
      if r < .45:
        t.append(['B', 'b%d' % next(ids), rng.choice(['ANY', 'NOT_ANY']), ['D1'],
                  [phase('t') for _ in range(rng.randint(1, 2))]])
      elif r < .75:
        t.append(['C', 'c%d' % next(ids), rng.choice(['last', 'all']),
                  rng.choice(['S', 'S', 'U']) if in_sub else 'S'])
      else:
        t.append(['S', [phase('t') for _ in range(rng.randint(1, 2))]])
    return ['G', s, m, t]

  def node(depth, in_sub):
    r = rng.random()
    if depth <= 0 or r < .4:
      return phase()
    if r < .7:
      return group(depth, in_sub)
    if r < .8 and not in_sub:
      return ['T', 't%d' % next(ids), [node(depth - 1, True)
                                       for _ in range(rng.randint(1, 3))]]
    if r < .9:
      return ['B', 'b%d' % next(ids), rng.choice(['ANY', 'NOT_ANY']), ['D1'],
              [node(depth - 1, in_sub) for _ in range(rng.randint(1, 2))]]
    if r < .95:
      return ['C', 'c%d' % next(ids), rng.choice(['last', 'all']), 'S']
    return ['S', [node(depth - 1, in_sub) for _ in range(rng.randint(0, 2))]]

  return [node(3, False) for _ in range(rng.randint(1, 3))]


def sampled(tier, rng):
  while True:
    yield {'k': 'prog', 'prog': gen_group_program(rng),
           'cfg': rng.choice([{}, {}, {}, {'sof': 'opt'}, {'sof': 'conf'}])}


_POINTS = {}


def run_prog(case):
  real = pm.run_real(case['prog'], case.get('cfg') or {}, keep=True)
  obs = {'events': real['_events'], 'phases': real.get('phases') or [],
         'outcome': real.get('outcome'), 'branches': real.get('branches'),
         'checkpoints': real.get('checkpoints')}
  viol, c = grouporacle.judge(case['prog'], obs,
                              sof=bool((case.get('cfg') or {}).get('sof')))
  if real.get('exc') or real['ncallbacks'] != 1:
    viol.append({'mechanism': 'execute-raised-or-no-record',
                 'detail': {'exc': real.get('exc')}})
  c['programs_run'] = 1
  return {'sig': case['prog'] if c['groups_judged'] else None,
          'violations': viol, 'counters': c}


def run_sched(case):
  from vf import abortlab
  fi = case['family']
  prog = FAMILY[fi]
  if fi not in _POINTS:
    obs = abortlab.run(prog, {}, target=None)
    pts = []
    for key, n in sorted(obs['seen'].items()):
      for h in range(1, min(n, 4) + 1):
        pts.append((key, h))
    _POINTS[fi] = pts
  pts = _POINTS[fi]
  if 'pick' in case:
    import os
    rng = random.Random('%s/%s/%s' % (case['pick'], fi,
                                      os.environ.get('VERIF_SEED', '0')))
    idx = rng.randrange(len(pts))
  else:
    idx = case['idx']
    if idx >= len(pts):
      return {'sig': None, 'violations': [], 'counters': {}, 'evaluations': 0,
              'sample': False}
  target = pts[idx]
  obs = abortlab.run(prog, {}, target=target, action='abort')
  viol, c = [], {}
  info = obs['info']
  ctx = {'family': fi, 'point': [list(target[0]), target[1]],
         'blocked': info['blocked']}
  if obs['hang']:
    viol.append({'mechanism': 'execute-did-not-return' if obs['hang']['same_stacks']
                 else 'harness:watchdog', 'detail': dict(ctx, stacks=obs['hang']['stacks'])})
  elif not obs['recs']:
    viol.append({'mechanism': 'no-record-after-abort',
                 'detail': dict(ctx, result=obs['result'])})
  else:
    v, c = grouporacle.judge(prog, obs)
    for x in v:
      x['detail'].update(ctx)
      x['detail']['events'] = [e[2:5] for e in obs['events']][:40]
    viol.extend(v)
  c = dict(c)
  c['schedules_paused'] = 1 if info['reached'] else 0
  c['aborts_performed'] = 1 if any(e[2] == 'abort_ret' for e in obs['events']) else 0
  c['schedules_action_blocked'] = 1 if info['blocked'] else 0
  c['pause_not_reached'] = 0 if info['reached'] else 1
  return {'sig': ['sched', fi, list(target[0]), target[1]],
          'violations': viol, 'counters': c}


_APOINTS = {}


def slow_pid(prog):
  for n, _ in pm.walk(prog):
    if n[0] == 'P' and n[2].get('slow'):
      return n[1]
  return None


def run_asched(case):
  """The *aborting* thread is the one held: one abort arrives after an event
  of the slow main phase and is paused at a line of its own path
  (Test.abort_from_sig_int -> TestExecutor.abort -> PhaseExecutor.stop ...)
  while executor and phase threads run on."""
  from vf import abortlab
  fi, when = case['family'], case['when']
  prog = FAMILY[fi]
  ev = (when, slow_pid(prog))
  key = (fi, when)
  if key not in _APOINTS:
    obs = abortlab.run(prog, {}, abort_after_event=ev, abort_in_thread=True)
    pts = []
    for k, n in sorted(obs['seen'].items()):
      if k[0] == 'abort':
        for h in range(1, min(n, 3) + 1):
          pts.append((k, h))
    pts.sort(key=lambda p: (p[1], p[0]))
    _APOINTS[key] = pts
  pts = _APOINTS[key]
  if 'pick' in case:
    import os
    rng = random.Random('a/%s/%s/%s/%s' % (case['pick'], fi, when,
                                           os.environ.get('VERIF_SEED', '0')))
    idx = rng.randrange(len(pts)) if pts else 0
  else:
    idx = case['idx']
  if idx >= len(pts):
    return {'sig': None, 'violations': [], 'counters': {}, 'evaluations': 0,
            'sample': False}
  target = pts[idx]
  obs = abortlab.run(prog, {}, target=target, abort_after_event=ev,
                     abort_in_thread=True)
  viol, c = [], {}
  info = obs['info']
  ctx = {'family': fi, 'abort_after': list(ev),
         'aborter_held_at': [list(target[0]), target[1]]}
  if obs['hang']:
    viol.append({'mechanism': 'execute-did-not-return' if obs['hang']['same_stacks']
                 else 'harness:watchdog', 'detail': dict(ctx, stacks=obs['hang']['stacks'])})
  elif not obs['recs']:
    viol.append({'mechanism': 'no-record-after-abort',
                 'detail': dict(ctx, result=obs['result'])})
  else:
    v, c = grouporacle.judge(prog, obs)
    for x in v:
      x['detail'].update(ctx)
      x['detail']['events'] = [e[2:5] for e in obs['events']][:40]
    viol.extend(v)
  c = dict(c)
  c['aborter_paused'] = 1 if info['reached'] and target else 0
  c['aborts_performed'] = 1 if any(e[2] == 'abort_ret' for e in obs['events']) else 0
  c['pause_not_reached'] = 0 if info['reached'] else 1
  return {'sig': ['asched', fi, when, list(target[0]), target[1]],
          'violations': viol, 'counters': c}


def run_case(case):
  if case['k'] == 'prog':
    return run_prog(case)
  if case['k'] == 'asched':
    return run_asched(case)
  return run_sched(case)
