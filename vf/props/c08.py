"""C08 — plug lifecycle: one instance per run, tearDown exactly once, always.

Monitor: generated plug classes (fresh class objects per case) log constructor
and tearDown calls with the instance id; phase bodies log the instance ids they
were handed.  Trace predicates over that event log decide the property; the
outcome is compared with the reference interpreter (plugs must not change it
unless a constructor fails).
"""
import itertools
import json
import random

from vf import progmodel as pm

PROPERTY = 'C08'
LEVEL = 'fault_enumeration'
RULE = ('one case = (program, assignment of 1-4 generated plug classes to phases and '
        'test_start, fault map over the plug classes: constructor raises / tearDown raises / '
        'tearDown hangs killably / tearDown hangs unkillably with plug_teardown_timeout_s = '
        '50 ms / tearDown bound on the instance only / tearDown yields 50 times (time-out 400 ms when combined with a hang); the same '
        'plug class may be requested under two argument names, two classes may share one '
        'qualified name, with_args() values may collide with plug argument names; settings); for directed programs every single-plug fault and every pair of '
        'faults is enumerated; seeded random programs x assignments x fault maps extend it; '
        'distinct = distinct case; non-trivial = at least one plug was constructed or a '
        'constructor fault fired')
ASSUMPTIONS = [
    'an instance whose constructor raised is not a constructed instance',
    'the "end" event of a body abandoned after a time-out is not ordered against plug tearDown',
    'abort at arbitrary moments is exercised in C04 (which also checks plug tearDown)',
]
REQUIRED_COUNTERS = ['runs', 'plugs_constructed', 'teardowns_judged',
                     'ctor_faults_fired', 'teardown_faults_fired',
                     'phase_injections_judged', 'slow_teardowns_judged']
EXHAUSTIVE = {'quick': False, 'thorough': False}
PLAN = {
    'quick': {'workers': 16, 'budget_s': 45, 'sampled_per_worker': 260,
              'wall_limit_s': 900},
    'thorough': {'workers': 16, 'budget_s': 600, 'sampled_per_worker': 8000,
                 'wall_limit_s': 7200},
}
FAULTS = ['ctor_raise', 'ctor_exit', 'td_raise', 'td_hang', 'td_hang_unkillable',
          'td_slow', 'td_instance']


def setup():
  pm.htf()


def _p(pid, **beh):
  return ['P', pid, beh]


BASES = [
    ([_p('a', plugs=[0]), _p('b', plugs=[0, 1]), _p('c', plugs=[2])], {}),
    ([_p('a', plugs=[0], r='X'), _p('b', plugs=[1])], {}),
    ([_p('a', plugs=[0], r='T'), _p('b', plugs=[1])], {}),
    ([['G', [_p('s', plugs=[0])], [_p('m', plugs=[1], r='S')],
       [_p('t', plugs=[0, 2])]]], {}),
    ([_p('a', plugs=[1]), _p('b', plugs=[2])],
     {'start': _p('start', plugs=[0])}),
    ([_p('a', plugs=[1])], {'start': _p('start', plugs=[0], r='X')}),
    ([_p('a', plugs=[0, 1])], {'start': _p('start', plugs=[0], r='F')}),
    ([_p('a', plugs=[0])], {'start': _p('start', r='C'), 'tdiag': 'pass'}),
    ([['T', 't', [_p('u', plugs=[0], r='U'), _p('v', plugs=[1])]],
      _p('w', plugs=[0], run_if=False),
      ['B', 'b', 'ANY', ['D1'], [_p('x', plugs=[2])]]], {}),
    ([_p('a', plugs=[0, 1, 2, 3])], {'tdiag': 'raise'}),
    # the same plug class under two argument names (in test_start and in a phase)
    ([_p('a', plugs=[0, '0b', 1]), _p('b', plugs=['1b', 1])],
     {'start': _p('start', plugs=[0, '0b'])}),
    ([_p('a', plugs=[1, '1x'])], {'start': _p('start', plugs=['0b', 0, 1])}),
    # two distinct plug classes carrying the same module and class name
    ([_p('a', plugs=[0]), _p('b', plugs=[1]), _p('c', plugs=[0, 1, 2])],
     {'plug_same_name': [[0, 1]]}),
    ([_p('a', plugs=[1, 2])], {'start': _p('start', plugs=[0]),
                               'plug_same_name': [[0, 1, 2]]}),
    # with_args() values whose names collide with plug argument names: the
    # plug must still be what the phase receives under that name
    ([_p('a', plugs=[0], with_args={'plug0': 'not-a-plug'}),
      _p('b', plugs=[0, 1], with_args={'plug1': 7})], {}),
    ([_p('a', plugs=[1], with_args={'plug1': None})],
     {'start': _p('start', plugs=[0], with_args={'plug0': 'x'})}),
]


def enumerated(tier):
  for prog, cfg in BASES:
    used = sorted({pm.plug_index(i) for n, _ in pm.walk(
        prog + ([cfg['start']] if cfg.get('start') else []))
                   if n[0] == 'P' for i in n[2].get('plugs') or []})
    yield {'prog': prog, 'cfg': cfg, 'faults': {}}
    for i in used:
      for f in FAULTS:
        yield {'prog': prog, 'cfg': cfg, 'faults': {str(i): f}}
    for i, j in itertools.permutations(used, 2):
      for f, g in (('td_raise', 'td_raise'), ('td_hang', 'td_raise'),
                   ('ctor_raise', 'td_raise'), ('ctor_raise', 'ctor_raise'),
                   ('td_hang', 'td_hang'), ('td_hang', 'td_slow'),
                   ('td_hang_unkillable', 'td_slow'), ('td_raise', 'td_slow')):
        yield {'prog': prog, 'cfg': cfg, 'faults': {str(i): f, str(j): g}}


def sampled(tier, rng):
  while True:
    prog = pm.gen_program(rng, depth=2, width=4, rich=True)
    cfg = pm.gen_cfg(rng)
    cfg.pop('fexc', None)
    nplugs = rng.randint(1, 4)
    phases = [n for n, _ in pm.walk(prog) if n[0] == 'P']
    if cfg.get('start'):
      phases.append(cfg['start'])
    for n in phases:
      if rng.random() < .55:
        n[2]['plugs'] = sorted(rng.sample(range(nplugs),
                                          rng.randint(1, min(2, nplugs))))
        if rng.random() < .2:     # same class under a second argument name
          n[2]['plugs'].append('%db' % n[2]['plugs'][0])
        if rng.random() < .15:    # a with_args() value under a plug's name
          n[2]['with_args'] = {'plug%s' % n[2]['plugs'][0]: 'not-a-plug'}
    if nplugs >= 2 and rng.random() < .2:
      cfg['plug_same_name'] = [[0, 1]]
    faults = {}
    for i in range(nplugs):
      r = rng.random()
      if r < .15:
        faults[str(i)] = 'ctor_raise'
      elif r < .35:
        faults[str(i)] = 'td_raise'
      elif r < .45:
        faults[str(i)] = 'td_hang'
      elif r < .5:
        faults[str(i)] = 'td_hang_unkillable'
      elif r < .65:
        faults[str(i)] = 'td_slow'
      elif r < .72:
        faults[str(i)] = 'td_instance'
    yield {'prog': prog, 'cfg': cfg, 'faults': faults}


def run_case(case):
  prog, faults = case['prog'], case['faults']
  cfg = dict(case['cfg'])
  cfg['plugs'] = faults
  if any(f.startswith('td_hang') for f in faults.values()):
    cfg['plug_td_timeout'] = 0.05
    if 'td_slow' in faults.values():
      cfg['plug_td_timeout'] = 0.4
  real = pm.run_real(prog, cfg, keep=True)
  ev = real['_events']
  viol = []
  c = {'runs': 1, 'plugs_constructed': 0, 'teardowns_judged': 0,
       'ctor_faults_fired': 0, 'teardown_faults_fired': 0,
       'phase_injections_judged': 0}

  def bad(mech, **d):
    if len(viol) < 4:
      viol.append({'mechanism': mech, 'detail': dict(d, faults=faults)})

  if real.get('exc') or real['ncallbacks'] != 1:
    bad('execute-raised-or-no-record', exc=real.get('exc'))
    return {'sig': case, 'violations': viol, 'counters': c}
  start = cfg.get('start')
  start_plugs = set((start[2].get('plugs') or [])) if start else set()
  ctors = [e for e in ev if e[2] == 'plug_ctor']
  tds = [e for e in ev if e[2] == 'plug_td']
  by_idx = {}
  for e in ctors:
    by_idx.setdefault(e[3], []).append(e)
  # 1. at most one construction per class
  for idx, es in by_idx.items():
    if len(es) > 1:
      bad('plug-constructed-twice', plug=idx, n=len(es))
  instance = {idx: es[0][4] for idx, es in by_idx.items()
              if faults.get(str(idx)) not in ('ctor_raise', 'ctor_exit')}
  c['plugs_constructed'] = len(instance)
  fired_ctor = [idx for idx in by_idx
                if faults.get(str(idx)) in ('ctor_raise', 'ctor_exit')]
  c['ctor_faults_fired'] = len(fired_ctor)
  # 2. every phase received the run's instance under the requested name
  hung = {(e[3], e[4]) for e in ev if e[2] == 'hang'}
  for e in ev:
    if e[2] == 'start' and e[5]:
      for arg, iid in e[5].items():
        idx = pm.plug_index(arg[4:])
        c['phase_injections_judged'] += 1
        if instance.get(idx) != iid:
          bad('phase-got-a-different-plug-instance', phase=e[3], plug=idx)
  decl = {n[1]: n[2].get('plugs') or [] for n, _ in pm.walk(
      prog + ([start] if start else [])) if n[0] == 'P'}
  for e in ev:
    if e[2] == 'start':
      want = {'plug%s' % i for i in decl.get(e[3], [])}
      got = set((e[5] or {}).keys())
      if want != got:
        bad('phase-plug-arguments-differ', phase=e[3], want=sorted(want),
            got=sorted(got))
  # 3. every constructed instance is torn down exactly once
  td_count = {}
  for e in tds:
    td_count[e[4]] = td_count.get(e[4], 0) + 1
  for idx, iid in instance.items():
    c['teardowns_judged'] += 1
    n = td_count.get(iid, 0)
    if n != 1:
      bad('teardown-count-%s' % ('zero' if n == 0 else 'more-than-once'),
          plug=idx, count=n)
    if faults.get(str(idx), '').startswith('td_'):
      c['teardown_faults_fired'] += 1 if n else 0
  for iid in td_count:
    if iid not in instance.values():
      bad('teardown-of-unknown-instance', iid=iid)
  # 3b. a tearDown with a little work to do completes unless it used up its
  # own plug_teardown_timeout_s (decided on its own measured run time)
  done = {e[4] for e in ev if e[2] == 'plug_td_done'}
  for e in ev:
    if e[2] == 'plug_td_killed':
      c['slow_teardowns_judged'] = c.get('slow_teardowns_judged', 0) + 1
      limit = cfg.get('plug_td_timeout')
      if limit is None or e[5] < limit / 2.0:
        bad('teardown-abandoned-before-its-timeout', plug=e[3],
            ran_for_s=round(e[5], 4), timeout_s=limit)
  for idx, iid in instance.items():
    if faults.get(str(idx)) == 'td_slow' and td_count.get(iid):
      c['slow_teardowns_judged'] = c.get('slow_teardowns_judged', 0) + 1
  # 4. tearDown after the last phase / diagnoser event, before the callbacks
  if tds:
    first_td = min(e[0] for e in tds)
    last_td = max(e[0] for e in tds)
    # (with a terminal test_start or a failing constructor there are two
    # teardown rounds at most: both precede the callbacks)
    for e in ev:
      if e[2] in ('start', 'diag', 'tdiag', 'run_if') and e[0] > first_td:
        # allowed only if it belongs to the phases that follow test_start and
        # the torn-down plugs were those of a failed constructor round
        bad('phase-or-diagnoser-event-after-plug-teardown', event=e[2:4])
        break
      if e[2] == 'end' and e[0] > first_td and (e[3], e[4]) not in hung:
        bad('phase-body-still-running-at-plug-teardown', phase=e[3])
        break
    cbs = [e[0] for e in ev if e[2] == 'callback']
    if cbs and min(cbs) < last_td:
      bad('plug-teardown-after-output-callback')
  # 5./6. outcome
  model = pm.run_model(prog, {k: v for k, v in cfg.items()
                              if k not in ('plugs', 'plug_td_timeout',
                                           'plug_same_name')})
  phase_starts = [e for e in ev if e[2] == 'start']
  if fired_ctor:
    first_fail = min(by_idx[idx][0][0] for idx in fired_ctor)
    later = [e[3] for e in phase_starts if e[0] > first_fail]
    if later:
      bad('phase-executed-after-plug-constructor-failure', phases=later[:4])
    if real['outcome'] != 'ERROR':
      only_exit = all(faults.get(str(i)) == 'ctor_exit' for i in fired_ctor)
      failed_rec = any(p[1] == 'FAIL' for p in real.get('phases') or [])
      if only_exit and real['outcome'] == 'FAIL' and failed_rec:
        # SystemExit from the constructor after a FAIL record (known finding)
        bad('constructor-exit-after-FAIL-record-outcome-FAIL',
            outcome=real['outcome'])
      else:
        bad('constructor-failure-outcome-not-ERROR', outcome=real['outcome'])
  else:
    if real['outcome'] != model['outcome'] and not model['crash']:
      bad('plug-faults-changed-the-outcome', got=real['outcome'],
          want=model['outcome'])
    if pm.norm(real['calls']) != pm.norm(model['calls']) and not model['crash']:
      bad('plug-faults-changed-the-phases-run', got=real['calls'][:8],
          want=model['calls'][:8])
  # 7. only test_start's plugs exist while test_start runs
  if start:
    st = [e for e in ev if e[2] == 'start' and e[3] == start[1]]
    if st:
      before = {e[3] for e in ctors if e[0] < st[0][0]}
      extra = before - start_plugs
      if extra:
        bad('non-test_start-plug-alive-during-test_start', extra=sorted(extra))
  return {'sig': case if (ctors or fired_ctor) else None, 'violations': viol,
          'counters': c}
