"""C05 — phase result -> phase outcome mapping, repeat limit and run_if.

Monitors over real runs of one phase under test (PUT) placed at five positions:
 (a) observation-level predicates: one record per invocation, at most
     repeat_limit invocations, every re-invocation has a documented cause, a
     false run_if means no invocation and no record, every diagnoser ran once
     per eligible invocation (all of them even if one raises);
 (b) each record's outcome/result/diagnosis results equal the documented
     function of what the invocation did (reference interpreter).
"""
import itertools
import json
import random

from vf import progmodel as pm

PROPERTY = 'C05'
LEVEL = 'exploration'
RULE = ('one case = (position in {first, after PASS, after FAIL, in subtest, in teardown}, '
        'per-invocation behaviour sequence over {None, CONTINUE, FAIL_AND_CONTINUE, '
        'FAIL_SUBTEST, SKIP, REPEAT, STOP, raise, non-PhaseResult incl. falsy 0/False/\'\'/[], time-out}, repeat_limit in '
        '{None,1,2,4}, one of {none, force_repeat, repeat_on_measurement_fail, '
        'repeat_on_timeout, stop_on_measurement_fail, stop_on_first_failure}, run_if in '
        '{none,true,false,raises, stateful per evaluation}, measurement in {none,pass,fail,marginal,unset +- '
        'allow_unset}, diagnosers in {none,pass,failure,raises,raises+pass,two, always_fail handing '
        'back one diagnosis / a list / a generator}); phase under test optionally wrapped by @monitors, options optionally given by two PhaseOptions layers); a reduced '
        'core product is enumerated completely and the full product is sampled; distinct = '
        'distinct case; non-trivial = at least one invocation or record of the phase under '
        'test was judged')
ASSUMPTIONS = [
    'time-outs run under the virtual clock',
    'the expected record of an invocation comes from vf/progmodel.Model.once',
]
REQUIRED_COUNTERS = ['cases', 'invocations_judged', 'records_judged',
                     'diagnoser_calls_judged', 'reinvocations_justified',
                     'monitored_cases', 'stacked_option_cases']
EXHAUSTIVE = {'quick': True, 'thorough': True}
PLAN = {
    'quick': {'workers': 16, 'budget_s': 60, 'sampled_per_worker': 500,
              'wall_limit_s': 900},
    'thorough': {'workers': 16, 'budget_s': 900, 'sampled_per_worker': 40000,
                 'wall_limit_s': 7200},
}

CODES = ['C', 'CC', 'F', 'U', 'K', 'R', 'X', 'S', 'T', 'BAD', 'BAD0', 'BADF']
POSITIONS = ['first', 'after_pass', 'after_fail', 'in_subtest', 'in_teardown']
LIMITS = [None, 1, 2, 4]
OPTS = [None, 'force_repeat', 'repeat_on_measurement_fail', 'repeat_on_timeout',
        'stop_on_measurement_fail', 'sof']
RUN_IFS = [None, True, False, 'raise', [True, False], [True, False, True],
           [False, True], [True, 'raise']]
MEAS = [None, 'pass', 'fail', 'marginal', 'unset', 'unset_allowed']
DIAGS = [None, 'pass', 'failure', 'raises', 'raises+pass', 'two', 'af_single',
         'af_list', 'af_gen']


def setup():
  pm.htf()


def make(pos, seq, limit, opt, run_if, meas, diag, mon=False, stack=False):
  beh = {'r': list(seq) if len(seq) > 1 else seq[0]}
  if mon:
    beh['mon'] = 1
  if stack:
    beh['stack'] = 1
  opts = {}
  cfg = {}
  if limit:
    opts['repeat_limit'] = limit
  if opt == 'sof':
    cfg['sof'] = 'opt'
  elif opt:
    opts[opt] = True
  if opts:
    beh['opts'] = opts
  if run_if is not None:
    beh['run_if'] = run_if
  if meas:
    beh['m'] = 'unset' if meas == 'unset_allowed' else meas
    if meas == 'unset_allowed':
      cfg['allow_unset'] = True
  if diag:
    beh['ds'] = {'pass': [[['D1', 0]]], 'failure': [[['D2', 1]]],
                 'raises': ['RAISE'], 'raises+pass': ['RAISE', [['D1', 0]]],
                 'two': [[['D1', 0]], [['D2', 1], ['D3', 0]]],
                 # always_fail=True: every diagnosis handed back is a failure
                 'af_single': [{'af': 1, 'shape': 'single', 'ds': [['D2', 0]]}],
                 'af_list': [{'af': 1, 'shape': 'list', 'ds': [['D2', 0], ['D3', 0]]}],
                 'af_gen': [{'af': 1, 'shape': 'gen', 'ds': [['D2', 0]]}]}[diag]
  put = ['P', 'put', beh]
  ok = lambda n: ['P', n, {}]
  if pos == 'first':
    prog = [put, ok('tail')]
  elif pos == 'after_pass':
    prog = [ok('pre'), put, ok('tail')]
  elif pos == 'after_fail':
    prog = [['P', 'pre', {'r': 'F'}], put, ok('tail')]
  elif pos == 'in_subtest':
    prog = [['T', 'sub', [ok('pre'), put, ok('in_tail')]], ok('tail')]
  else:
    prog = [['G', [], [ok('pre')], [put, ok('td_tail')]], ok('tail')]
  return {'prog': prog, 'cfg': cfg,
          'meta': [pos, list(seq), limit, opt, run_if, meas, diag] + (
              ['monitored'] if mon else []) + (['stacked-options'] if stack else [])}


def seqs_core():
  for c in CODES:
    yield [c]
  for a, b in itertools.product(CODES, repeat=2):
    yield [a, b]
  for s in (['R', 'R', 'R'], ['R', 'R', 'C'], ['R', 'R', 'R', 'R'], ['T', 'T', 'C'],
            ['R', 'R', 'R', 'C'], ['F', 'F', 'C'], ['X', 'X', 'X'], ['T', 'T', 'T', 'T'],
            ['R', 'R', 'F'], ['K', 'K', 'K']):
    yield s


def enumerated(tier):
  for pos in POSITIONS:
    for seq in seqs_core():
      for limit in (LIMITS if tier == 'thorough' else [None, 1, 2]):
        for opt in OPTS:
          yield make(pos, seq, limit, opt, None, None, None)
  for seq in (['C'], ['F'], ['R', 'C'], ['X'], ['T'], ['K'], ['U']):
    for meas in MEAS:
      for diag in DIAGS:
        for opt in OPTS:
          for pos in (POSITIONS if tier == 'thorough' else ['first', 'in_subtest']):
            yield make(pos, seq, None, opt, None, meas, diag)
  # the phase under test is wrapped by @monitors (a sampling thread runs next
  # to the body): results, exceptions and time-outs map as without it
  for seq in list(seqs_core())[:len(CODES)] + [['R', 'C'], ['R', 'R', 'R'], ['F', 'C'],
                                                ['T', 'C'], ['X', 'C']]:
    for opt in OPTS:
      for pos in ('first', 'in_subtest', 'in_teardown'):
        for meas, diag in ((None, None), ('fail', 'pass'), ('pass', 'failure')):
          yield make(pos, seq, None, opt, None, meas, diag, mon=True)
  # the options come from two PhaseOptions layers (limit first, the rest on top)
  for seq in (['R', 'R', 'R', 'R'], ['R', 'R', 'R', 'C'], ['R', 'C'], ['R', 'R', 'C'],
              ['T', 'T', 'C'], ['F', 'F', 'C'], ['X']):
    for limit in (1, 2, 4):
      for opt in OPTS:
        for pos in ('first', 'in_subtest'):
          yield make(pos, seq, limit, opt, None, 'fail' if seq[0] == 'F' else None,
                     None, stack=True)
  for run_if in RUN_IFS:
    for opt in OPTS:
      for pos in POSITIONS:
        for seq in (['C'], ['F'], ['R', 'C'], ['X'], ['R', 'R', 'C'], ['BADS'],
                    ['BADL']):
          for meas in (None, 'fail'):
            yield make(pos, seq, None, opt, run_if, meas, 'pass')


def sampled(tier, rng):
  all_seqs = list(seqs_core())
  while True:
    seq = rng.choice(all_seqs) if rng.random() < .7 else [
        rng.choice(CODES) for _ in range(rng.randint(1, 4))]
    yield make(rng.choice(POSITIONS), seq, rng.choice(LIMITS), rng.choice(OPTS),
               rng.choice(RUN_IFS + [None, None]), rng.choice(MEAS),
               rng.choice(DIAGS), mon=rng.random() < .15, stack=rng.random() < .15)


def run_case(case):
  prog, cfg = case['prog'], case['cfg']
  pos, seq, limit, opt, run_if, meas, diag = case['meta'][:7]
  real = pm.run_real(prog, cfg)
  model = pm.run_model(prog, cfg)
  viol = []
  c = {'cases': 1, 'invocations_judged': 0, 'records_judged': 0,
       'diagnoser_calls_judged': 0, 'reinvocations_justified': 0,
       'monitored_cases': case['meta'][7:].count('monitored'),
       'stacked_option_cases': case['meta'][7:].count('stacked-options')}

  def bad(mech, **d):
    if len(viol) < 4:
      viol.append({'mechanism': mech, 'detail': dict(d, meta=case['meta'])})

  if real.get('exc') or real['ncallbacks'] != 1:
    bad('execute-raised-or-no-record', exc=real.get('exc'))
    return {'sig': case['meta'], 'violations': viol, 'counters': c}
  if real['crash']:
    bad('executor-crash:%s@%s' % tuple(real['crash'][0][:2]))
  ninv = real['calls'].count('put')
  recs = [p for p in real['phases'] if p[0] == 'put']
  c['invocations_judged'] = ninv
  c['records_judged'] = len(recs)
  eff_limit = limit or 3
  # (a) observation-level predicates ---------------------------------------
  if ninv > eff_limit:
    bad('invoked-more-than-repeat-limit', invocations=ninv, limit=eff_limit)
  if run_if is False:
    if ninv or recs:
      bad('false-run_if-but-invoked-or-recorded', invocations=ninv,
          records=len(recs))
  elif run_if == 'raise':
    if ninv or recs:
      bad('raising-run_if-but-invoked-or-recorded', invocations=ninv,
          records=len(recs))
  elif len(recs) != ninv:
    bad('records-differ-from-invocations', invocations=ninv, records=len(recs))
  # every re-invocation needs a documented cause
  for k in range(1, min(ninv, len(recs))):
    prev = recs[k - 1]
    cause = (prev[2] == 'REPEAT' or opt == 'force_repeat' or
             (opt == 'repeat_on_measurement_fail' and prev[1] == 'FAIL') or
             (opt == 'repeat_on_timeout' and prev[2] == 'TIMEOUT'))
    if cause:
      c['reinvocations_justified'] += 1
    else:
      bad('re-invoked-without-cause', attempt=k, previous=prev[:3])
  # diagnosers: once per invocation that was neither skipped nor repeated
  ndiag = len({'pass': 1, 'failure': 1, 'raises': 1, 'raises+pass': 2,
               'two': 2}.get(diag, 0) * [0])
  eligible = sum(1 for r in recs if r[2] not in ('REPEAT', 'SKIP'))
  for di in range(ndiag):
    got = real['diag_calls'].get('put/%d' % di, 0)
    c['diagnoser_calls_judged'] += 1
    if got != eligible:
      bad('diagnoser-call-count-differs', diagnoser=di, calls=got,
          eligible_invocations=eligible)
  # (b) each record equals the documented function ---------------------------
  mrecs = [p for p in model['phases'] if p[0] == 'put']
  if pm.norm(recs) != pm.norm(mrecs):
    first = next((i for i, (a, b) in enumerate(zip(recs, mrecs))
                  if pm.norm(a) != pm.norm(b)), min(len(recs), len(mrecs)))
    r = recs[first] if first < len(recs) else None
    m = mrecs[first] if first < len(mrecs) else None
    what = 'count'
    if r and m:
      what = ('outcome' if r[1] != m[1] else 'result' if r[2] != m[2] else
              'subtest' if r[3] != m[3] else 'diagnosis-results')
    bad('record-%s-differs' % what, attempt=first, real=r, model=m)
  keys = pm.diff(real, model)
  if keys and not viol:
    bad('run-differs:' + keys[0], keys=keys,
        real=json.dumps(pm.norm(real.get(keys[0])))[:300],
        model=json.dumps(pm.norm(model.get(keys[0])))[:300])
  return {'sig': case['meta'] if (ninv or recs) else None, 'violations': viol,
          'counters': c}
