"""C09 — execute() hands a complete, final record to every callback exactly once.

Monitor: recording output callbacks (some of which raise) and post-return
probes of the Test object, TEST_INSTANCES and the 'openhtf' logger, over
programs on every exit path and histories of repeated / overlapping execute().
"""
import logging
import random
import threading
import time

from vf import progmodel as pm

PROPERTY = 'C09'
LEVEL = 'exploration'
RULE = ('one case = (program, settings incl. plug constructor faults and test_start/dut '
        'variants, number of callbacks 1-4, subset of callbacks that raise, history in '
        '{single, twice, thrice, overlap-from-phase-body, overlap-from-second-thread, '
        'execute-after-aborted-run}); after every execute() the callback call log, the '
        'record handed over and the post-return state are judged; (race) two threads call '
        'execute() on one Test, the first paused at every line of its path through '
        'test_descriptor.py while the second makes its call; (abort_sched) one complete abort '
        'while a framework thread is paused at a line reached by the C04 program family; (two_sigint) two Tests at once, one on the main thread, and one or two real SIGINTs (at once / after the other test finished / inside the first handler), each schedule in a child process; distinct = distinct '
        'case; non-trivial = at least one callback call was observed and judged')
ASSUMPTIONS = [
    'a "callback that raises" raises an Exception subclass (BaseException terminates the process)',
    'SIGINT / KeyboardInterrupt paths are decided in C04',
]
REQUIRED_COUNTERS = ['executes', 'callback_calls_judged', 'records_judged',
                     'overlaps_refused', 'post_state_checks', 'races_run',
                     'abort_schedules', 'two_test_sigint_runs']
EXHAUSTIVE = {'quick': False, 'thorough': False}
PLAN = {
    'quick': {'workers': 16, 'budget_s': 45, 'sampled_per_worker': 450,
              'wall_limit_s': 900},
    'thorough': {'workers': 16, 'budget_s': 600, 'sampled_per_worker': 12000,
                 'wall_limit_s': 7200},
}


def setup():
  pm.htf()
  CONF = pm._H['CONF']  # pylint: disable=protected-access
  if 'vf_c09_run_marker' not in CONF._declarations:  # pylint: disable=protected-access
    CONF.declare('vf_c09_run_marker', default_value='unset')
    CONF.declare('vf_c09_mutable', default_value=None)


def _p(pid, **beh):
  return ['P', pid, beh]


EXIT_PATHS = [
    ([_p('a')], {}),
    ([], {}),
    ([_p('a', run_if=False)], {}),
    ([_p('a', r='K')], {}),
    ([_p('a', r='X'), _p('b')], {}),
    ([_p('a', r='S')], {}),
    ([_p('a', r='T'), _p('b')], {}),
    ([_p('a', r='F'), _p('b')], {'sof': 'opt'}),
    ([_p('a')], {'start': _p('start', r='X')}),
    ([_p('a')], {'start': _p('start', r='T')}),
    ([_p('a')], {'start': _p('start')}),
    ([_p('a')], {'dut': 'DUT-77'}),
    ([_p('a', plugs=[0])], {'plugs': {'0': 'ctor_raise'}}),
    ([_p('a', plugs=[0]), _p('b', plugs=[1])], {'plugs': {'1': 'ctor_raise'}}),
    ([_p('a', plugs=[0])], {'plugs': {'0': 'td_raise'}}),
    ([_p('a')], {'tdiag': 'raise'}),
    ([['G', [_p('s')], [_p('m', r='X')], [_p('t', r='X')]]], {}),
    ([['T', 't', [_p('u', r='U'), _p('v')]], _p('w')], {}),
    ([['BX', 'bx', []]], {}),
    ([_p('a', m='unset', mdim=1), _p('b')], {}),
    ([_p('a', m='unset', mdim=1)], {'allow_unset': True}),
    ([_p('a')], {'tdiag': 'fail_then_ok'}),
]
HISTORIES = ['single', 'twice', 'thrice', 'overlap_phase', 'overlap_thread',
             'after_abort', 'late_registration']


def enumerated(tier):
  i = 0
  for prog, cfg in EXIT_PATHS:
    for hist in HISTORIES:
      for ncb in (1, 2, 3, 4):
        masks = range(1 << ncb) if ncb <= 3 else (0, 0b1111, 0b0101, 0b1000)
        for mask in masks:
          i += 1
          if tier == 'quick' and hist != 'single' and ncb > 2:
            continue
          yield {'prog': prog, 'cfg': cfg, 'hist': hist, 'ncb': ncb,
                 'raising': [j for j in range(ncb) if mask >> j & 1]}


  # two threads racing into execute() of one Test: the first is paused at every
  # line of its path through test_descriptor.py while the second calls execute()
  for idx in range(160 if tier == 'quick' else 400):
    yield {'k': 'race', 'idx': idx}
  # one abort at every line the framework threads reach (first two hits), the
  # record handed to the callbacks is judged for completeness
  if tier == 'quick':
    for j in range(700):
      yield {'k': 'abort_sched', 'cover': j, 'h1': True}    # every line, first hit
  else:
    for j in range(1400):
      yield {'k': 'abort_sched', 'cover': j}


  # two Tests run at once (one on the main thread) and the operator presses
  # Ctrl-C twice: real SIGINTs, each schedule in its own process
  for second in ('after_other_finished', 'none', 'at_once', 'during_first_handler'):
    for gap_ms in ((0, 5, 30) if second in ('after_other_finished',
                                            'during_first_handler') else (0,)):
      for td_s in (0.6, 0.2):
        for order in ('a_first', 'b_first'):
          yield {'k': 'two_sigint', 'second': second, 'gap_ms': gap_ms, 'td_s': td_s,
                 'order': order}
          if second == 'after_other_finished' and td_s > 0.5:
            # the other test outlives the handler of the first SIGINT
            yield {'k': 'two_sigint', 'second': second, 'gap_ms': gap_ms,
                   'td_s': 1.0, 'b_td_s': 0.3, 'order': order}


def sampled(tier, rng):
  while True:
    ncb = rng.randint(1, 4)
    yield {'prog': pm.gen_program(rng, depth=2, width=3, rich=True),
           'cfg': pm.gen_cfg(rng), 'hist': rng.choice(HISTORIES), 'ncb': ncb,
           'raising': [j for j in range(ncb) if rng.random() < .4]}


class CallbackBoom(ValueError):
  pass


def settle_framework_threads(limit_s=2.0):
  """Waits until the executor threads of finished runs are gone, so that what
  they still log has been logged."""
  t_end = time.monotonic() + limit_s
  while time.monotonic() < t_end:
    if not any(th.name.startswith('<TestExecutorThread') or
               th.name.startswith('TestExecutorThread')
               for th in threading.enumerate()):
      return True
    time.sleep(0.001)
  return False


def judge_phase_records(rec, bad, c, ctx):
  for p in rec.phases:
    c['phase_records_judged'] = c.get('phase_records_judged', 0) + 1
    if p.outcome is None or p.result is None or p.options is None:
      bad('phase-record-incomplete', **ctx, phase=p.name,
          outcome=str(p.outcome), result=str(p.result),
          options=p.options is not None)
    elif rec.end_time_millis is None:
      pass  # reported by the caller
    elif p.end_time_millis is None or not (
        p.start_time_millis <= p.end_time_millis <= rec.end_time_millis):
      bad('phase-record-times-inconsistent', **ctx, phase=p.name,
          times=[p.start_time_millis, p.end_time_millis,
                 rec.end_time_millis])


_RACE_POINTS = []


def run_race(case):
  """Two threads call execute() on one Test; thread vf-main is paused at a
  line of test_descriptor.py while the other makes its call."""
  H = pm.htf()
  from openhtf.core import test_descriptor
  from openhtf.util import logs
  from vf import abortlab
  eng = abortlab.lab()['engine']
  c = {'executes': 0, 'callback_calls_judged': 0, 'records_judged': 0,
       'overlaps_refused': 0, 'post_state_checks': 0, 'races_run': 0}
  viol = []

  def scenario(target):
    for k in list(test_descriptor.Test.TEST_INSTANCES.keys()):
      test_descriptor.Test.TEST_INSTANCES.pop(k, None)
    ev, lock = [], threading.Lock()
    other_started, resolved = threading.Event(), threading.Event()
    info = {'gate_timeout': False}

    def add(*e):
      with lock:
        ev.append(e)

    def a(test):
      add('start', threading.current_thread().name)
      # overlapping calls: stay inside the run until one of the two calls
      # has been resolved (normally: the other one is refused)
      if other_started.is_set() and not resolved.wait(10):
        info['gate_timeout'] = True
      add('end')

    t = H.Test(a)
    t.configure(name='vf_race')
    kept = []     # keeps the records alive so that id() identifies them

    def cb(rec):
      kept.append(rec)
      add('callback', id(rec), rec.outcome.name if rec.outcome else None)
    t.add_output_callbacks(cb)
    results = {}

    def call(tag):
      try:
        results[tag] = ('ok', t.execute())
      except test_descriptor.InvalidTestStateError:
        results[tag] = ('refused',)
      except BaseException as e:  # pylint: disable=broad-except
        results[tag] = ('other', type(e).__name__, str(e)[:120])
      finally:
        add('returned', tag)
        resolved.set()

    crashes = []
    old_hook = threading.excepthook
    threading.excepthook = lambda x: crashes.append(
        (x.exc_type.__name__, getattr(x.thread, 'name', '?')))
    eng.arm(target)
    eng.enabled = True
    t1 = threading.Thread(target=call, args=('first',), name='vf-main', daemon=True)
    try:
      t1.start()
      if target is not None:
        def second():
          other_started.set()
          call('second')
        r = eng.run_action_at_pause(second, wait_s=5, hold_s=0.25)
        info['reached'], info['blocked'] = r['reached'], r['blocked']
        if r.get('_thread'):
          # the second call's own phase (if it runs) waits for the first call
          r['_thread'].join(25)
          if r['_thread'].is_alive():
            info['hung'] = 'second'
      t1.join(25)
      if t1.is_alive():
        info['hung'] = 'first'
    finally:
      eng.release()
      eng.enabled = False
      threading.excepthook = old_hook
      pm.prune_handlers()
    info['seen'] = dict(eng.seen)
    info['kept'] = kept
    return t, ev, results, info, crashes

  if not _RACE_POINTS:
    _, _, _, info, _ = scenario(None)
    for key, n in sorted(info['seen'].items()):
      if key[0] == 'main':
        for h in range(1, min(n, 2) + 1):
          _RACE_POINTS.append((key, h))
  if case['idx'] >= len(_RACE_POINTS):
    return {'sig': None, 'violations': [], 'counters': {}, 'evaluations': 0,
            'sample': False}
  target = _RACE_POINTS[case['idx']]
  t, ev, results, info, crashes = scenario(target)
  ctx = {'first_call_paused_at': [list(target[0]), target[1]],
         'results': {k: list(v) for k, v in results.items()},
         'events': [list(e) for e in ev][:20]}

  def bad(mech, **d):
    if len(viol) < 4:
      viol.append({'mechanism': mech, 'detail': dict(ctx, **d)})

  if not info.get('reached'):
    return {'sig': None, 'violations': [], 'counters': {'pause_not_reached': 1}}
  c['races_run'] = 1
  c['executes'] = len(results)
  if info.get('hung') or info['gate_timeout']:
    # Logical gate: the phase of the running call waits for the other call to
    # be refused.  If that never happens both calls are inside execute().
    starts = [e for e in ev if e[0] == 'start']
    first_return = [i for i, e in enumerate(ev) if e[0] == 'returned'][:1]
    if len(starts) == 2 and (not first_return or
                             ev.index(starts[1]) < first_return[0]):
      # two phase bodies of the same Test started while no call had returned
      bad('overlapping-execute-not-refused', hung=info.get('hung'))
    else:
      bad('racing-execute-did-not-return', hung=info.get('hung'),
          stacks=abortlab.stacks())
    return {'sig': ['race', list(target[0]), target[1]], 'violations': viol,
            'counters': c}
  for tag, r in sorted(results.items()):
    if r[0] == 'other':
      bad('racing-execute-raised:' + r[1], call=tag, error=r[2])
  if crashes:
    bad('thread-crashed-during-racing-executes:' + crashes[0][0], crashes=crashes[:3])
  oks = [tag for tag, r in results.items() if r[0] == 'ok']
  c['overlaps_refused'] = sum(1 for r in results.values() if r[0] == 'refused')
  if len(results) == 2 and not oks:
    bad('both-racing-executes-refused')
  cbs = [e for e in ev if e[0] == 'callback']
  c['callback_calls_judged'] = len(cbs)
  if len(cbs) != len(oks):
    bad('callbacks-not-exactly-once-per-run', callbacks=len(cbs), runs=len(oks))
  if len({e[1] for e in cbs}) != len(cbs):
    bad('two-runs-handed-out-the-same-record')
  if len(oks) == 2:
    # both accepted: only legal one after the other
    kinds = [e[0] for e in ev if e[0] in ('start', 'callback')]
    if kinds != ['start', 'callback', 'start', 'callback']:
      bad('overlapping-execute-not-refused', order=kinds)
  c['records_judged'] = len(cbs)
  c['post_state_checks'] = 1
  if t.state is not None or t._executor is not None:  # pylint: disable=protected-access
    bad('test-still-holds-executor')
  if any(v is t for v in list(H.Test.TEST_INSTANCES.values())):
    bad('still-registered-for-sigint')
  if [h for h in logging.getLogger('openhtf').handlers
      if isinstance(h, logs.RecordHandler)]:
    bad('record-log-handler-left-behind')
    lg = logging.getLogger('openhtf')
    lg.handlers = [h for h in lg.handlers if not isinstance(h, logs.RecordHandler)]
  return {'sig': ['race', list(target[0]), target[1]], 'violations': viol,
          'counters': c}


def run_abort_sched(case):
  """One complete abort while a framework thread is paused at a line; what the
  callbacks received must still be a complete, final record."""
  from openhtf.util import logs
  from vf import abortlab
  from vf.props import c04
  abortlab.lab()
  cl = [x for x in c04.cover_list() if x[0][0][0] in ('exec', 'phase')]
  if case.get('h1'):
    cl = [x for x in cl if x[0][1] == 1]
  if case['cover'] >= len(cl):
    return {'sig': None, 'violations': [], 'counters': {}, 'evaluations': 0,
            'sample': False}
  target, fams = cl[case['cover']]
  import os
  fi = fams[(case['cover'] + int(os.environ.get('VERIF_SEED', '0'))) % len(fams)]
  prog, cfg = c04.FAMILY[fi]
  obs = abortlab.run(prog, cfg, target=target, action='abort')
  viol = []
  c = {'executes': 1, 'callback_calls_judged': 0, 'records_judged': 0,
       'overlaps_refused': 0, 'post_state_checks': 0, 'abort_schedules': 0}
  ctx = {'family': fi, 'abort_while_paused_at': [list(target[0]), target[1]]}

  def bad(mech, **d):
    if len(viol) < 4:
      viol.append({'mechanism': mech, 'detail': dict(ctx, **d)})

  if obs['hang'] or not obs['info']['reached']:
    return {'sig': None, 'violations': [], 'counters': {'pause_not_reached': 1}}
  c['abort_schedules'] = 1
  recs = obs['recs']
  c['callback_calls_judged'] = len(recs)
  if len(recs) != 1:
    bad('callbacks-not-exactly-once-in-order', called=len(recs))
  else:
    rec = recs[0]
    c['records_judged'] = 1
    if rec.outcome is None or rec.end_time_millis is None:
      bad('record-lacks-outcome-or-end-time')
    elif not rec.start_time_millis <= rec.end_time_millis:
      bad('record-start-after-end')
    if rec.dut_id is None:
      bad('dut-id-not-set-or-wrong', got=None)
    judge_phase_records(rec, bad, c, {})
    n_ret = len(rec.log_records)
    settle_framework_threads()
    if len(rec.log_records) != n_ret:
      bad('record-changed-after-execute-returned', at_return=n_ret,
          later=len(rec.log_records),
          added=[r.message[:80] for r in rec.log_records[n_ret:]][:3])
  c['post_state_checks'] = 1
  if obs['post'].get('executor_set'):
    bad('test-still-holds-executor')
  if obs['post'].get('registered'):
    bad('still-registered-for-sigint')
  left = [h for h in logging.getLogger('openhtf').handlers
          if isinstance(h, logs.RecordHandler)]
  if left:
    bad('record-log-handler-left-behind', n=len(left))
    lg = logging.getLogger('openhtf')
    lg.handlers = [h for h in lg.handlers if h not in left]
  return {'sig': ['abort_sched', fi, list(target[0]), target[1]],
          'violations': viol, 'counters': c}


def run_two_sigint(case):
  """Runs the schedule in a child process (signals are process-wide)."""
  import json
  import subprocess
  import sys
  from vf import harness
  p = subprocess.run(
      [sys.executable, '-W', 'ignore', '-m', 'vf.props.c09', json.dumps(case)],
      cwd=harness.VERIF, env=harness.worker_env(), capture_output=True, text=True,
      timeout=120)
  line = [l for l in p.stdout.splitlines() if l.startswith('RESULT ')]
  if not line:
    raise RuntimeError('child gave no result: rc=%s %s' % (
        p.returncode, (p.stderr or '')[-600:]))
  return json.loads(line[-1][7:])


def _child_main():
  import json
  import os
  import signal
  import sys
  case = json.loads(sys.argv[1])
  sys.argv = ['verif-c09-child']
  from vf import worker
  worker.normal_sigint()
  H = pm.htf()
  ev = {k: threading.Event() for k in ('a_main', 'b_main', 'a_td', 'b_done')}
  td_s = case['td_s']

  def spin(seconds):
    t_end = time.monotonic() + seconds
    while time.monotonic() < t_end:
      time.sleep(0.002)

  from openhtf.plugs import base_plugs

  class SlowToTearDown(base_plugs.BasePlug):
    # after the last phase the executor thread still has work to do

    def tearDown(self):
      time.sleep(0.4)

  @H.plugs.plug(slow=SlowToTearDown)
  def a_main(slow):
    ev['a_main'].set()
    spin(20)

  def a_td():
    ev['a_td'].set()
    spin(td_s)

  def b_main():
    ev['b_main'].set()
    spin(20)

  def b_td():
    spin(case.get('b_td_s', 0))

  ta = H.Test(H.PhaseGroup(main=[a_main], teardown=[a_td]))
  tb = H.Test(H.PhaseGroup(main=[b_main], teardown=[b_td]))
  seen = {'a': [], 'b': []}
  for key, t in (('a', ta), ('b', tb)):
    t.add_output_callbacks(lambda r, _k=key: seen[_k].append(
        {'outcome': r.outcome.name if r.outcome else None,
         'end': r.end_time_millis, 'start': r.start_time_millis,
         'phases_unfinished': [p.name for p in r.phases
                               if p.outcome is None or p.end_time_millis is None],
         'phases': [[p.name, p.outcome.name if p.outcome else None,
                     (p.end_time_millis or 0) - p.start_time_millis]
                    for p in r.phases],
         'rec': id(r)}))
  ends = {}

  def run(key, t):
    try:
      ends[key] = ['returned', t.execute()]
    except KeyboardInterrupt:
      ends[key] = ['KeyboardInterrupt']
    except BaseException as e:  # pylint: disable=broad-except
      ends[key] = ['raised', type(e).__name__, str(e)[:120]]

  def run_b():
    run('b', tb)
    ev['b_done'].set()

  info = {}

  main_ident = threading.main_thread().ident

  def main_in_wait():
    # Ctrl-C while execute() is still starting the executor (or already
    # finalizing) is C04's subject (known findings there); here the operator
    # waits until the main thread sits in TestExecutor.wait()
    fr = sys._current_frames().get(main_ident)  # pylint: disable=protected-access
    while fr is not None:
      if fr.f_code.co_name == 'wait' and fr.f_code.co_filename.endswith(
          'test_executor.py'):
        return True
      fr = fr.f_back
    return False

  def operator():
    ok = ev['a_main'].wait(20) and ev['b_main'].wait(20)
    t_end = time.monotonic() + 20
    while ok and not main_in_wait() and time.monotonic() < t_end:
      time.sleep(0.001)
    info['both_running'] = ok and main_in_wait()
    if not info['both_running']:
      return
    # (pthread_kill as in C04: the main thread gets the signal.)  CPython runs
    # the Python-level handler when the main thread next executes bytecode; a
    # signal that lands just before the thread blocks in its lock wait is only
    # handled when that wait ends.  The operator presses again until the
    # handler has run.
    def handler_running():
      fr = sys._current_frames().get(main_ident)  # pylint: disable=protected-access
      while fr is not None:
        if fr.f_code.co_name == 'handle_sig_int':
          return True
        fr = fr.f_back
      return False

    for press in range(20):
      signal.pthread_kill(main_ident, signal.SIGINT)
      t_end = time.monotonic() + 0.5
      while not (H.Test.HANDLED_SIGINT_ONCE or handler_running()) and (
          time.monotonic() < t_end):
        time.sleep(0.0005)
      if H.Test.HANDLED_SIGINT_ONCE or handler_running():
        break
    info['first_presses'] = press + 1
    if case['second'] == 'during_first_handler' and handler_running():
      # the second Ctrl-C interrupts the handler of the first one
      time.sleep(case['gap_ms'] / 1000.0)
      if handler_running():
        info['second_inside_first_handler'] = True
        signal.pthread_kill(main_ident, signal.SIGINT)
        info['sigints'] = 2
    t_end = time.monotonic() + 10
    while not H.Test.HANDLED_SIGINT_ONCE and time.monotonic() < t_end:
      time.sleep(0.001)
    if not H.Test.HANDLED_SIGINT_ONCE:
      return
    if case['second'] == 'during_first_handler':
      info.setdefault('sigints', 1)
      return
    info['sigints'] = 1
    if case['second'] == 'none':
      return
    if case['second'] == 'after_other_finished':
      info['other_finished_first'] = ev['b_done'].wait(20)
      ev['a_td'].wait(5)
      info['a_in_teardown'] = ev['a_td'].is_set() and 'a' not in ends
      time.sleep(case['gap_ms'] / 1000.0)
    if 'a' in ends:
      # no test is running any more: Ctrl-C would now just end the process
      info['second_skipped'] = True
      return
    info['second_while_a_running'] = True
    signal.pthread_kill(main_ident, signal.SIGINT)   # (as C04 does: the main thread gets it)
    info['sigints'] = 2

  def watchdog():
    # a main thread that deadlocked inside the signal handler never returns
    time.sleep(45)

    def chain():
      fr = sys._current_frames().get(main_ident)  # pylint: disable=protected-access
      out = []
      while fr is not None:
        out.append([fr.f_code.co_name, fr.f_lineno])
        fr = fr.f_back
      return out
    c1 = chain()
    time.sleep(2)
    c2 = chain()
    names = [f[0] for f in c2]
    if c1 == c2 and 'handle_sig_int' in names:
      res = {'sig': ['two_sigint', 'hang'], 'violations': [{
          'mechanism': 'sigint-handler-never-returned' + (
              ':nested-in-handler' if names.count('handle_sig_int') > 1 else ''),
          'detail': {'case': case, 'info': info, 'main_thread': c2[:10]}}],
             'counters': {'two_test_sigint_runs': 1, 'callback_calls_judged': 0}}
    else:
      res = {'sig': None, 'violations': [], 'evaluations': 0,
             'counters': {'harness_errors': 1}, 'note': c2[:6]}
    print('RESULT ' + json.dumps(res, default=repr), flush=True)
    os._exit(0)

  threading.Thread(target=watchdog, name='vf-watchdog', daemon=True).start()
  thb = threading.Thread(target=run_b, name='vf-test-b')
  op = threading.Thread(target=operator, name='vf-operator', daemon=True)
  if case.get('order') == 'a_first':
    # the main-thread test registers first
    def start_b_later():
      ev['a_main'].wait(20)
      thb.start()
    threading.Thread(target=start_b_later, name='vf-starter', daemon=True).start()
  else:
    thb.start()
    ev['b_main'].wait(20)
  op.start()
  run('a', ta)
  ev['b_main'].wait(20)   # (thread B has been started by now)
  for _ in range(3):
    try:
      thb.join(30)
      op.join(5)
      break
    except KeyboardInterrupt:
      # the second SIGINT arrived when no test was registered any more (default
      # handler): it hit this harness, not openhtf
      info['sigint_after_all_tests_ended'] = True
  def judge():
    viol = []
    c = {'two_test_sigint_runs': 1 if info.get('both_running') else 0,
         'callback_calls_judged': 0,
         'sigints_sent': info.get('sigints', 0),
         'second_sigint_inside_first_handler':
             1 if info.get('second_inside_first_handler') else 0,
         'second_sigint_while_first_test_tearing_down':
             1 if info.get('second_while_a_running') and info.get('a_in_teardown') else 0}
    ctx = {'case': case, 'info': info, 'ends': ends}

    def bad(mech, **d):
      viol.append({'mechanism': mech, 'detail': dict(ctx, **d)})

    for key in ('a', 'b') if info.get('sigints') else ():
      end = ends.get(key)
      if end is None:
        bad('execute-did-not-return', test=key)
        continue
      if end[0] == 'raised':
        bad('execute-raised:%s' % end[1], test=key, text=end[2])
      calls = seen[key]
      c['callback_calls_judged'] += len(calls)
      if len(calls) != 1:
        bad('callback-called-%d-times' % len(calls), test=key)
        continue
      r = calls[0]
      if r['outcome'] is None or r['end'] is None:
        bad('record-not-final-in-callback', test=key, outcome=r['outcome'], end=r['end'])
      elif r['phases_unfinished']:
        bad('phase-record-incomplete', test=key, phases=r['phases_unfinished'])
      elif r['outcome'] != 'ABORTED':
        bad('aborted-run-not-ABORTED', test=key, outcome=r['outcome'],
            phases=r['phases'])
      elif end[0] == 'returned' and end[1] != (r['outcome'] == 'PASS'):
        bad('return-value-differs-from-outcome', test=key, outcome=r['outcome'])
    if H.Test.TEST_INSTANCES:
      bad('still-registered-for-sigint', n=len(H.Test.TEST_INSTANCES))
    if not info.get('sigints'):
      c['harness_errors'] = 1      # the schedule could not be set up: no verdict
    res = {'sig': ['two_sigint', case['second'], case['gap_ms'], case['td_s'],
                   case.get('order'), case.get('b_td_s')],
           'violations': viol[:4], 'counters': c}
    return res

  res = None
  for _ in range(4):
    try:
      res = judge()
      break
    except KeyboardInterrupt:
      # a SIGINT whose Python handler CPython ran only now, with no test
      # registered any more (default handler): it hit the harness
      info['sigint_after_all_tests_ended'] = True
  print('RESULT ' + json.dumps(res, default=repr), flush=True)
  sys.stdout.flush()
  os._exit(0)


def run_case(case):
  if case.get('k') == 'two_sigint':
    return run_two_sigint(case)
  if case.get('k') == 'race':
    return run_race(case)
  if case.get('k') == 'abort_sched':
    return run_abort_sched(case)
  return run_history(case)


def run_history(case):
  H = pm.htf()
  from openhtf.core import test_descriptor
  from openhtf.util import logs
  CONF = pm._H['CONF']  # pylint: disable=protected-access
  prog = [list(n) for n in case['prog']]
  cfg = dict(case['cfg'])
  hist = case['hist']
  viol = []
  c = {'executes': 0, 'callback_calls_judged': 0, 'records_judged': 0,
       'overlaps_refused': 0, 'post_state_checks': 0, 'phase_records_judged': 0}

  def bad(mech, **d):
    if len(viol) < 4:
      viol.append({'mechanism': mech, 'detail': dict(d, hist=hist)})

  holder = {}
  overlap_result = []
  gate = threading.Event()
  late = {'cb': None}
  registered = []      # callback indices in registration order

  extra = None
  if hist in ('overlap_phase', 'overlap_thread', 'after_abort', 'late_registration'):
    extra = hist

  b = pm.Built(prog, cfg)
  t = b.test
  holder['t'] = t
  # special phases are appended to the real Test through a fresh Test object so
  # that the program itself stays what the case says
  special = []
  if extra == 'overlap_phase':
    def ov_phase(test):
      try:
        holder['t'].execute()
        overlap_result.append('second-execute-returned')
      except test_descriptor.InvalidTestStateError:
        overlap_result.append('refused')
      except Exception as e:  # pylint: disable=broad-except
        overlap_result.append('other:' + type(e).__name__)
    special = [ov_phase]
  elif extra == 'overlap_thread':
    def ov_thread_phase(test):
      def second():
        try:
          holder['t'].execute()
          overlap_result.append('second-execute-returned')
        except test_descriptor.InvalidTestStateError:
          overlap_result.append('refused')
        except Exception as e:  # pylint: disable=broad-except
          overlap_result.append('other:' + type(e).__name__)
      th = threading.Thread(target=second, name='vf-second-execute')
      th.start()
      th.join(20)
      if th.is_alive():
        overlap_result.append('second-execute-hung')
    special = [ov_thread_phase]
  elif extra == 'after_abort':
    aborted_once = []

    def abort_phase(test):
      if aborted_once:
        return None
      aborted_once.append(1)
      threading.Thread(target=holder['t'].abort_from_sig_int,
                       name='vf-abort').start()
      # waits to be killed by the abort; CPython drops an asynchronous exception
      # that arrives inside a finalizer, so the wait is bounded (the run is
      # aborted either way) instead of hanging the case
      t_end = time.monotonic() + 10
      while time.monotonic() < t_end:
        time.sleep(0.002)
      return None
    special = [abort_phase]
  elif extra == 'late_registration':
    # the last callback is registered while the test is running (a phase that
    # sets up per-DUT output): it is a registered callback when the run ends
    def ov_register_phase(test):
      if late['cb'] is not None:
        cb, late['cb'] = late['cb'], None
        holder['t'].add_output_callbacks(cb)
        registered.append(case['ncb'] - 1)
    special = [ov_register_phase]
  if special:
    t = H.Test(*(special + b.nodes))
    if cfg.get('sof') == 'opt':
      t.configure(stop_on_first_failure=True)
    holder['t'] = t
  t.configure(name='vf_test_name')

  calls = []      # (callback index, record id, outcome at call time, probes)

  def make_cb(j):
    def cb(rec):
      st = holder['t'].state
      calls.append({'j': j, 'rec': rec, 'outcome': rec.outcome,
                    'end': rec.end_time_millis, 'nlogs': len(rec.log_records),
                    'running_phase': (st.running_phase_state is not None)
                    if st is not None else None,
                    'state_none': st is None})
      if j in case['raising']:
        raise CallbackBoom('callback %d' % j)
    cb.__name__ = 'cb%d' % j
    return cb

  import functools

  class CallableObject:
    # like openhtf's own callbacks: an object with __call__, no __name__
    def __init__(self, fn):
      self.fn = fn

    def __call__(self, rec):
      return self.fn(rec)

  def shape(j, fn):
    kind = (j + len(case['raising'])) % 3
    if kind == 1:
      return CallableObject(fn)
    if kind == 2:
      return functools.partial(lambda extra, rec, _fn=fn: _fn(rec), 'x')
    return fn

  cbs = [shape(j, make_cb(j)) for j in range(case['ncb'])]
  if extra == 'late_registration':
    late['cb'] = cbs.pop()
  registered.extend(range(len(cbs)))
  t.add_output_callbacks(*cbs)
  conf = {}
  if cfg.get('sof') == 'conf':
    conf['stop_on_first_failure'] = True
  if cfg.get('allow_unset'):
    conf['allow_unset_measurements'] = True
  nruns = {'single': 1, 'twice': 2, 'thrice': 3, 'overlap_phase': 1,
           'overlap_thread': 1, 'after_abort': 2, 'late_registration': 2}[hist]
  crashes = []
  old_hook = threading.excepthook
  threading.excepthook = lambda a: crashes.append(a.exc_type.__name__)
  first_uid = None
  try:
    for run in range(nruns):
      del calls[:]
      config_before = CONF._asdict()  # pylint: disable=protected-access
      conf['vf_c09_run_marker'] = 'run-%d' % run
      # a mutable configuration value (as loaded from a YAML file); it is
      # changed in place after the run: the record keeps the snapshot
      mutable = {'list': [run], 'nested': {'k': run}}
      conf['vf_c09_mutable'] = mutable
      # the test is renamed between runs: the record carries the current name
      run_name = 'vf_test_name' if run == 0 else 'vf_test_name_run%d' % run
      t.configure(name=run_name)

      @CONF.save_and_restore(**conf)
      def go():
        return t.execute(test_start=b.start)
      try:
        ret = ('ret', go())
      except Exception as e:  # pylint: disable=broad-except
        ret = ('exc', type(e).__name__ + ': ' + str(e)[:160])
      c['executes'] += 1
      ctx = {'run': run}
      if ret[0] == 'exc':
        bad('execute-raised:' + ret[1].split(':')[0], **ctx, exc=ret[1])
        break
      # ---- callbacks: exactly once, in order, same object
      c['callback_calls_judged'] += len(calls)
      if [x['j'] for x in calls] != list(registered):
        bad('callbacks-not-exactly-once-in-order', **ctx,
            called=[x['j'] for x in calls], registered=list(registered),
            raising=case['raising'])
        break
      if not calls:
        continue
      if len({id(x['rec']) for x in calls}) != 1:
        bad('callbacks-got-different-records', **ctx)
      rec = calls[0]['rec']
      n_ret = len(rec.log_records)
      c['records_judged'] += 1
      for x in calls:
        if x['outcome'] is None or x['end'] is None:
          bad('callback-got-unfinalized-record', **ctx, callback=x['j'])
        if x['running_phase']:
          bad('phase-still-running-during-callbacks', **ctx)
      # ---- final: nothing is appended once execute() has returned (execute()
      # itself logs the outcome banner after the callbacks, by design)
      settle_framework_threads()
      if len(rec.log_records) != n_ret:
        bad('record-changed-after-execute-returned', **ctx,
            at_return=n_ret, later=len(rec.log_records),
            added=[r.message[:80] for r in rec.log_records[n_ret:]][:3])
      # ---- record completeness
      if rec.outcome is None or rec.end_time_millis is None:
        bad('record-lacks-outcome-or-end-time', **ctx)
      elif not rec.start_time_millis <= rec.end_time_millis:
        bad('record-start-after-end', **ctx)
      want_dut = cfg.get('dut') if (cfg.get('dut') and not cfg.get('start')) \
          else 'UNKNOWN_DUT'
      if rec.dut_id != want_dut:
        bad('dut-id-not-set-or-wrong', **ctx, got=rec.dut_id, want=want_dut)
      if rec.metadata.get('test_name') != run_name:
        bad('metadata-test-name-wrong', **ctx, got=rec.metadata.get('test_name'),
            want=run_name)
      mutable['list'].append('changed-after-the-run')
      mutable['nested']['k'] = 'changed-after-the-run'
      snap = rec.metadata.get('config')
      if isinstance(snap, dict) and snap.get('vf_c09_mutable') != {
          'list': [run], 'nested': {'k': run}}:
        bad('metadata-config-snapshot-not-a-copy', **ctx,
            got=repr(snap.get('vf_c09_mutable'))[:120])
      if not isinstance(snap, dict):
        bad('metadata-config-missing', **ctx)
      else:
        want_conf = dict(config_before)
        want_conf.update(conf)
        want_conf.pop('vf_c09_mutable', None)     # judged above
        for k, v in want_conf.items():
          if snap.get(k, '<absent>') != v:
            bad('metadata-config-differs', **ctx, key=k)
            break
      judge_phase_records(rec, bad, c, ctx)
      # ---- return value
      if ret[1] is not (rec.outcome == H.core.test_record.Outcome.PASS):
        bad('return-value-differs-from-outcome', **ctx, ret=ret[1],
            outcome=str(rec.outcome))
      # ---- post-return state
      c['post_state_checks'] += 1
      if t.state is not None or t._executor is not None:  # pylint: disable=protected-access
        bad('test-still-holds-executor', **ctx)
      if any(v is t for v in list(H.Test.TEST_INSTANCES.values())):
        bad('still-registered-for-sigint', **ctx)
      handlers = [h for h in logging.getLogger('openhtf').handlers
                  if isinstance(h, logs.RecordHandler)]
      if handlers:
        bad('record-log-handler-left-behind', **ctx, n=len(handlers))
      sp_ran = any(p.name in ('ov_phase', 'ov_thread_phase', 'abort_phase')
                   for p in rec.phases)
      if extra == 'after_abort' and sp_ran:
        want = 'ABORTED' if run == 0 else None
        if want and rec.outcome.name != want:
          bad('aborted-run-not-ABORTED', **ctx, outcome=rec.outcome.name)
        c['aborted_runs'] = c.get('aborted_runs', 0) + (1 if run == 0 else 0)
      if extra in ('overlap_phase', 'overlap_thread') and sp_ran:
        if overlap_result != ['refused']:
          bad('overlapping-execute-not-refused', **ctx, got=overlap_result)
        else:
          c['overlaps_refused'] += 1
        sp = [p for p in rec.phases if p.name.startswith('ov_')]
        if not sp or sp[0].outcome.name != 'PASS':
          bad('running-test-disturbed-by-overlapping-execute', **ctx,
              got=[(p.name, str(p.outcome)) for p in sp])
  finally:
    threading.excepthook = old_hook
    pm.prune_handlers()
  if hist not in ('overlap_phase', 'overlap_thread'):
    c['overlaps_refused'] += 0
  return {'sig': [case['prog'], case['cfg'], hist, case['ncb'], case['raising']]
          if c['callback_calls_judged'] else None,
          'violations': viol, 'counters': c}


if __name__ == '__main__':
  _child_main()
