"""C09 — execute() hands a complete, final record to every callback exactly once.

Monitor: recording output callbacks (some of which raise) and post-return
probes of the Test object, TEST_INSTANCES and the 'openhtf' logger, over
programs on every exit path and histories of repeated / overlapping execute().
"""
import logging
import random
import threading
import time

from vf import progmodel as pm

PROPERTY = 'C09'
LEVEL = 'exploration'
RULE = ('one case = (program, settings incl. plug constructor faults and test_start/dut '
        'variants, number of callbacks 1-4, subset of callbacks that raise, history in '
        '{single, twice, thrice, overlap-from-phase-body, overlap-from-second-thread, '
        'execute-after-aborted-run}); after every execute() the callback call log, the '
        'record handed over and the post-return state are judged; distinct = distinct '
        'case; non-trivial = at least one callback call was observed and judged')
ASSUMPTIONS = [
    'a "callback that raises" raises an Exception subclass (BaseException terminates the process)',
    'SIGINT / KeyboardInterrupt paths are decided in C04',
]
REQUIRED_COUNTERS = ['executes', 'callback_calls_judged', 'records_judged',
                     'overlaps_refused', 'post_state_checks']
EXHAUSTIVE = {'quick': False, 'thorough': False}
PLAN = {
    'quick': {'workers': 16, 'budget_s': 45, 'sampled_per_worker': 450,
              'wall_limit_s': 900},
    'thorough': {'workers': 16, 'budget_s': 600, 'sampled_per_worker': 12000,
                 'wall_limit_s': 7200},
}


def setup():
  pm.htf()
  CONF = pm._H['CONF']  # pylint: disable=protected-access
  if 'vf_c09_run_marker' not in CONF._declarations:  # pylint: disable=protected-access
    CONF.declare('vf_c09_run_marker', default_value='unset')


def _p(pid, **beh):
  return ['P', pid, beh]


EXIT_PATHS = [
    ([_p('a')], {}),
    ([], {}),
    ([_p('a', run_if=False)], {}),
    ([_p('a', r='K')], {}),
    ([_p('a', r='X'), _p('b')], {}),
    ([_p('a', r='S')], {}),
    ([_p('a', r='T'), _p('b')], {}),
    ([_p('a', r='F'), _p('b')], {'sof': 'opt'}),
    ([_p('a')], {'start': _p('start', r='X')}),
    ([_p('a')], {'start': _p('start', r='T')}),
    ([_p('a')], {'start': _p('start')}),
    ([_p('a')], {'dut': 'DUT-77'}),
    ([_p('a', plugs=[0])], {'plugs': {'0': 'ctor_raise'}}),
    ([_p('a', plugs=[0]), _p('b', plugs=[1])], {'plugs': {'1': 'ctor_raise'}}),
    ([_p('a', plugs=[0])], {'plugs': {'0': 'td_raise'}}),
    ([_p('a')], {'tdiag': 'raise'}),
    ([['G', [_p('s')], [_p('m', r='X')], [_p('t', r='X')]]], {}),
    ([['T', 't', [_p('u', r='U'), _p('v')]], _p('w')], {}),
    ([['BX', 'bx', []]], {}),
]
HISTORIES = ['single', 'twice', 'thrice', 'overlap_phase', 'overlap_thread',
             'after_abort']


def enumerated(tier):
  i = 0
  for prog, cfg in EXIT_PATHS:
    for hist in HISTORIES:
      for ncb in (1, 2, 3, 4):
        masks = range(1 << ncb) if ncb <= 3 else (0, 0b1111, 0b0101, 0b1000)
        for mask in masks:
          i += 1
          if tier == 'quick' and hist != 'single' and ncb > 2:
            continue
          yield {'prog': prog, 'cfg': cfg, 'hist': hist, 'ncb': ncb,
                 'raising': [j for j in range(ncb) if mask >> j & 1]}


def sampled(tier, rng):
  while True:
    ncb = rng.randint(1, 4)
    yield {'prog': pm.gen_program(rng, depth=2, width=3, rich=True),
           'cfg': pm.gen_cfg(rng), 'hist': rng.choice(HISTORIES), 'ncb': ncb,
           'raising': [j for j in range(ncb) if rng.random() < .4]}


class CallbackBoom(ValueError):
  pass


def run_case(case):
  H = pm.htf()
  from openhtf.core import test_descriptor
  from openhtf.util import logs
  CONF = pm._H['CONF']  # pylint: disable=protected-access
  prog = [list(n) for n in case['prog']]
  cfg = dict(case['cfg'])
  hist = case['hist']
  viol = []
  c = {'executes': 0, 'callback_calls_judged': 0, 'records_judged': 0,
       'overlaps_refused': 0, 'post_state_checks': 0, 'phase_records_judged': 0}

  def bad(mech, **d):
    if len(viol) < 4:
      viol.append({'mechanism': mech, 'detail': dict(d, hist=hist)})

  holder = {}
  overlap_result = []
  gate = threading.Event()

  extra = None
  if hist in ('overlap_phase', 'overlap_thread', 'after_abort'):
    extra = hist

  b = pm.Built(prog, cfg)
  t = b.test
  holder['t'] = t
  # special phases are appended to the real Test through a fresh Test object so
  # that the program itself stays what the case says
  special = []
  if extra == 'overlap_phase':
    def ov_phase(test):
      try:
        holder['t'].execute()
        overlap_result.append('second-execute-returned')
      except test_descriptor.InvalidTestStateError:
        overlap_result.append('refused')
      except Exception as e:  # pylint: disable=broad-except
        overlap_result.append('other:' + type(e).__name__)
    special = [ov_phase]
  elif extra == 'overlap_thread':
    def ov_thread_phase(test):
      def second():
        try:
          holder['t'].execute()
          overlap_result.append('second-execute-returned')
        except test_descriptor.InvalidTestStateError:
          overlap_result.append('refused')
        except Exception as e:  # pylint: disable=broad-except
          overlap_result.append('other:' + type(e).__name__)
      th = threading.Thread(target=second, name='vf-second-execute')
      th.start()
      th.join(20)
      if th.is_alive():
        overlap_result.append('second-execute-hung')
    special = [ov_thread_phase]
  elif extra == 'after_abort':
    aborted_once = []

    def abort_phase(test):
      if aborted_once:
        return None
      aborted_once.append(1)
      threading.Thread(target=holder['t'].abort_from_sig_int,
                       name='vf-abort').start()
      while True:
        time.sleep(0.002)
    special = [abort_phase]
  if special:
    t = H.Test(*(special + b.nodes))
    if cfg.get('sof') == 'opt':
      t.configure(stop_on_first_failure=True)
    holder['t'] = t
  t.configure(name='vf_test_name')

  calls = []      # (callback index, record id, outcome at call time, probes)

  def make_cb(j):
    def cb(rec):
      st = holder['t'].state
      calls.append({'j': j, 'rec': rec, 'outcome': rec.outcome,
                    'end': rec.end_time_millis,
                    'running_phase': (st.running_phase_state is not None)
                    if st is not None else None,
                    'state_none': st is None})
      if j in case['raising']:
        raise CallbackBoom('callback %d' % j)
    cb.__name__ = 'cb%d' % j
    return cb

  t.add_output_callbacks(*[make_cb(j) for j in range(case['ncb'])])
  conf = {}
  if cfg.get('sof') == 'conf':
    conf['stop_on_first_failure'] = True
  if cfg.get('allow_unset'):
    conf['allow_unset_measurements'] = True
  nruns = {'single': 1, 'twice': 2, 'thrice': 3, 'overlap_phase': 1,
           'overlap_thread': 1, 'after_abort': 2}[hist]
  crashes = []
  old_hook = threading.excepthook
  threading.excepthook = lambda a: crashes.append(a.exc_type.__name__)
  first_uid = None
  try:
    for run in range(nruns):
      del calls[:]
      config_before = CONF._asdict()  # pylint: disable=protected-access
      conf['vf_c09_run_marker'] = 'run-%d' % run

      @CONF.save_and_restore(**conf)
      def go():
        return t.execute(test_start=b.start)
      try:
        ret = ('ret', go())
      except Exception as e:  # pylint: disable=broad-except
        ret = ('exc', type(e).__name__ + ': ' + str(e)[:160])
      c['executes'] += 1
      ctx = {'run': run}
      if ret[0] == 'exc':
        bad('execute-raised:' + ret[1].split(':')[0], **ctx, exc=ret[1])
        break
      # ---- callbacks: exactly once, in order, same object
      c['callback_calls_judged'] += len(calls)
      if [x['j'] for x in calls] != list(range(case['ncb'])):
        bad('callbacks-not-exactly-once-in-order', **ctx,
            called=[x['j'] for x in calls], raising=case['raising'])
        break
      if len({id(x['rec']) for x in calls}) != 1:
        bad('callbacks-got-different-records', **ctx)
      rec = calls[0]['rec']
      c['records_judged'] += 1
      for x in calls:
        if x['outcome'] is None or x['end'] is None:
          bad('callback-got-unfinalized-record', **ctx, callback=x['j'])
        if x['running_phase']:
          bad('phase-still-running-during-callbacks', **ctx)
      # ---- record completeness
      if rec.outcome is None or rec.end_time_millis is None:
        bad('record-lacks-outcome-or-end-time', **ctx)
      elif not rec.start_time_millis <= rec.end_time_millis:
        bad('record-start-after-end', **ctx)
      want_dut = cfg.get('dut') if (cfg.get('dut') and not cfg.get('start')) \
          else 'UNKNOWN_DUT'
      if rec.dut_id != want_dut:
        bad('dut-id-not-set-or-wrong', **ctx, got=rec.dut_id, want=want_dut)
      if rec.metadata.get('test_name') != 'vf_test_name':
        bad('metadata-test-name-wrong', **ctx, got=rec.metadata.get('test_name'))
      snap = rec.metadata.get('config')
      if not isinstance(snap, dict):
        bad('metadata-config-missing', **ctx)
      else:
        want_conf = dict(config_before)
        want_conf.update(conf)
        for k, v in want_conf.items():
          if snap.get(k, '<absent>') != v:
            bad('metadata-config-differs', **ctx, key=k)
            break
      for p in rec.phases:
        c['phase_records_judged'] += 1
        if p.outcome is None or p.result is None or p.options is None:
          bad('phase-record-incomplete', **ctx, phase=p.name,
              outcome=str(p.outcome), result=str(p.result),
              options=p.options is not None)
        elif rec.end_time_millis is None:
          pass  # already reported above
        elif p.end_time_millis is None or not (
            p.start_time_millis <= p.end_time_millis <= rec.end_time_millis):
          bad('phase-record-times-inconsistent', **ctx, phase=p.name,
              times=[p.start_time_millis, p.end_time_millis,
                     rec.end_time_millis])
      # ---- return value
      if ret[1] is not (rec.outcome == H.core.test_record.Outcome.PASS):
        bad('return-value-differs-from-outcome', **ctx, ret=ret[1],
            outcome=str(rec.outcome))
      # ---- post-return state
      c['post_state_checks'] += 1
      if t.state is not None or t._executor is not None:  # pylint: disable=protected-access
        bad('test-still-holds-executor', **ctx)
      if any(v is t for v in list(H.Test.TEST_INSTANCES.values())):
        bad('still-registered-for-sigint', **ctx)
      handlers = [h for h in logging.getLogger('openhtf').handlers
                  if isinstance(h, logs.RecordHandler)]
      if handlers:
        bad('record-log-handler-left-behind', **ctx, n=len(handlers))
      sp_ran = any(p.name in ('ov_phase', 'ov_thread_phase', 'abort_phase')
                   for p in rec.phases)
      if extra == 'after_abort' and sp_ran:
        want = 'ABORTED' if run == 0 else None
        if want and rec.outcome.name != want:
          bad('aborted-run-not-ABORTED', **ctx, outcome=rec.outcome.name)
        c['aborted_runs'] = c.get('aborted_runs', 0) + (1 if run == 0 else 0)
      if extra in ('overlap_phase', 'overlap_thread') and sp_ran:
        if overlap_result != ['refused']:
          bad('overlapping-execute-not-refused', **ctx, got=overlap_result)
        else:
          c['overlaps_refused'] += 1
        sp = [p for p in rec.phases if p.name.startswith('ov_')]
        if not sp or sp[0].outcome.name != 'PASS':
          bad('running-test-disturbed-by-overlapping-execute', **ctx,
              got=[(p.name, str(p.outcome)) for p in sp])
  finally:
    threading.excepthook = old_hook
    pm.prune_handlers()
  if hist not in ('overlap_phase', 'overlap_thread'):
    c['overlaps_refused'] += 0
  return {'sig': [case['prog'], case['cfg'], hist, case['ncb'], case['raising']]
          if c['callback_calls_judged'] else None,
          'violations': viol, 'counters': c}
