"""C17 — file output is atomic: never a truncated record at the destination.

Monitor: after every injected fault (serializer raises after k chunks, k-th
write raises, close raises, move/rename raises, serializer fails for real
because an attachment was already closed, process killed at the N-th
file-system system call under strace) the destination path is inspected: it
must be absent (only if it was absent before), hold its previous complete
content, or hold the complete new serialization.
"""
import io
import json
import os
import pickle
import shutil
import signal
import subprocess
import sys
import tempfile
import time

from vf import progmodel as pm

PROPERTY = 'C17'
LEVEL = 'fault_enumeration'
RULE = ('one case = (writer in {OutputToJSON, OutputToFile(pickle), atomic_write}, record with '
        '1-3 phases, destination absent or holding an old complete record, filename pattern '
        'kind, fault kind and position k): every k for serializer-raises-after-k-chunks and '
        'k-th-write-raises, close raises (for atomic_write: the final flush inside close), move/rename raises, real mid-stream serializer '
        'failure, no fault; faults raising KeyboardInterrupt / ThreadTerminationError / InterruptedError / BrokenPipeError / OSError(ENOSPC) instead of a '
        'plain OSError; two writers publishing to one destination at overlapping times; the same callback object publishing the next record after a failed publication; the writer in a child with RLIMIT_FSIZE below / above the size of the publication; and (thorough, plus a few in quick) the writer running in a child '
        'process that is SIGKILLed by strace at its N-th file-system system call for every N; '
        'distinct = distinct case; non-trivial = a fault fired (or a success was compared '
        'byte for byte) and the destination was inspected')
ASSUMPTIONS = [
    'the staging directory (TMPDIR) is on the same file system as the destination',
    'injected write/close/move faults are raised by harness subclasses of the documented extension points (open_file, serialize_test_record) or module attribute shims',
    'a killed process leaves stray staging files behind; only the destination path is judged',
]
REQUIRED_COUNTERS = ['cases', 'faults_fired', 'destinations_inspected',
                     'successes_compared', 'size_limited_runs']
EXHAUSTIVE = {'quick': True, 'thorough': True}
PLAN = {
    'quick': {'workers': 16, 'budget_s': 60, 'sampled_per_worker': 0,
              'wall_limit_s': 900, 'kill_variants': 3},
    'thorough': {'workers': 16, 'budget_s': 900, 'sampled_per_worker': 0,
                 'wall_limit_s': 7200, 'kill_variants': 99},
}
OLD = b'{"old": "complete previous record", "marker": "OLD-CONTENT"}'
SYSCALLS = 'openat,open,creat,write,pwrite64,close,rename,renameat,renameat2,unlink,unlinkat,fsync,fdatasync,link,linkat,sendfile,copy_file_range,ftruncate'

_S = {}


def setup():
  pm.htf()
  _S['root'] = tempfile.mkdtemp(prefix='vf-c17-')
  _S['records'] = {}


def teardown():
  shutil.rmtree(_S.get('root', ''), ignore_errors=True)


def make_record(nphases, dut='DUT1'):
  """A real TestRecord produced by a real run (1-3 phases, measurement,
  attachment, log line)."""
  key = (nphases, dut)
  if key in _S['records']:
    return _S['records'][key]
  H = pm.htf()
  phases = []
  for i in range(nphases):
    def body(test, _i=i):
      test.measurements['m%d' % _i] = _i + 0.5
      test.logger.info('phase %d says hello', _i)
      if _i == 0:
        test.attach('blob.bin', bytes(range(256)))
        test.dut_id = dut
    body.__name__ = 'phase%d' % i
    phases.append(H.measures(H.Measurement('m%d' % i).in_range(0, 10))(body))
  t = H.Test(*phases)
  t.configure(name='c17_test')
  recs = []
  t.add_output_callbacks(recs.append)
  saved_tmp = tempfile.tempdir
  tempfile.tempdir = _S['root']     # attachment files must outlive the case
  try:
    t.execute()
  finally:
    tempfile.tempdir = saved_tmp
  pm.prune_handlers()
  _S['records'][key] = recs[0]
  return recs[0]


def enumerated(tier):
  for writer in ('json', 'pickle'):
    for nph in (1, 2, 3):
      for dest in ('absent', 'old'):
        yield {'w': writer, 'n': nph, 'dest': dest, 'fault': ['none'],
               'pattern': 'brace'}
        for fault in (['close'], ['move'], ['real_serializer']):
          yield {'w': writer, 'n': nph, 'dest': dest, 'fault': fault,
                 'pattern': 'brace'}
        maxk = 400 if writer == 'json' else 3
        for k in range(0, maxk):
          yield {'w': writer, 'n': nph, 'dest': dest, 'fault': ['ser', k],
                 'pattern': 'brace'}
          yield {'w': writer, 'n': nph, 'dest': dest, 'fault': ['write', k],
                 'pattern': 'brace'}
  # the same faults raising a BaseException that is not an Exception
  for writer in ('json', 'pickle'):
    for dest in ('absent', 'old'):
      for exc in ('kbi', 'term', 'eintr', 'pipe', 'enospc'):
        for fault in (['close'], ['move'], ['ser', 0], ['ser', 1], ['ser', 7],
                      ['write', 0], ['write', 1], ['write', 2], ['write', 25]):
          yield {'w': writer, 'n': 1, 'dest': dest, 'fault': fault,
                 'pattern': 'brace', 'exc': exc}
  for pattern in ('brace', 'percent', 'callable', 'nested'):
    yield {'w': 'json', 'n': 1, 'dest': 'absent', 'fault': ['none'],
           'pattern': pattern, 'meta_collide': True}
    yield {'w': 'pickle', 'n': 1, 'dest': 'absent', 'fault': ['none'],
           'pattern': pattern, 'meta_collide': True}
    yield {'w': 'json', 'n': 1, 'dest': 'absent', 'fault': ['none'],
           'pattern': pattern}
    yield {'w': 'pickle', 'n': 1, 'dest': 'old', 'fault': ['none'],
           'pattern': pattern}
  for dest in ('absent', 'old'):
    for sync in (False, True):
      yield {'w': 'atomic_write', 'dest': dest, 'fault': ['none'], 'sync': sync}
      yield {'w': 'atomic_write', 'dest': dest, 'fault': ['rename'], 'sync': sync}
      yield {'w': 'atomic_write', 'dest': dest, 'fault': ['closeflush'], 'sync': sync}
      for k in range(0, 6):
        yield {'w': 'atomic_write', 'dest': dest, 'fault': ['body', k],
               'sync': sync}
  for writer in ('atomic_write', 'json'):
    for dest in ('absent', 'old'):
      for sync in (False, True):
        yield {'w': writer, 'dest': dest, 'fault': ['two_writers'], 'sync': sync,
               'n': 1}
  nv = PLAN[tier]['kill_variants']
  variants = [('json', 'old', 1), ('atomic_write_nosync', 'old', 1),
              ('pickle', 'old', 1)]
  for writer in ('json', 'pickle', 'atomic_write', 'atomic_write_nosync'):
    for dest in ('old', 'absent'):
      for nph in ((1, 3) if writer in ('json', 'pickle') else (1,)):
        if (writer, dest, nph) not in variants:
          variants.append((writer, dest, nph))
  for writer, dest, nph in variants[:nv]:
    for pos in range(0, 30):
      yield {'w': writer, 'n': nph, 'dest': dest, 'fault': ['kill', pos]}
  # the file system cuts writes short (file size limit of the process; the same
  # as a full disk or a quota): the writer runs in a child with RLIMIT_FSIZE
  for writer in ('pickle', 'json', 'atomic_write', 'atomic_write_nosync'):
    for dest in ('old', 'absent'):
      for limit in (1, 64, 1000, 4096, 8192, 20000, 10 ** 7):
        yield {'w': writer, 'n': 1, 'dest': dest, 'fault': ['fsize', limit]}


def sampled(tier, rng):
  return iter(())


class Injected(OSError):
  pass


def injected(case, what):
  """The exception an injected fault raises: an OSError, or — case['exc'] — a
  BaseException that is not an Exception: KeyboardInterrupt (Ctrl-C while the
  record is written) or ThreadTerminationError (the callback's thread killed)."""
  kind = case.get('exc', 'os')
  if kind == 'kbi':
    return KeyboardInterrupt('injected ' + what)
  if kind == 'term':
    from openhtf.util import threads
    return threads.ThreadTerminationError('injected ' + what)
  if kind == 'eintr':   # OSError subclasses a handler might single out
    return InterruptedError(4, 'injected ' + what)
  if kind == 'pipe':
    return BrokenPipeError(32, 'injected ' + what)
  if kind == 'enospc':
    return OSError(28, 'injected ' + what)
  return Injected('injected ' + what)


def classify_dest(path, dest_before, new_bytes=None, new_ok=None):
  """-> (verdict, detail): 'absent' | 'old' | 'new' | 'bad'"""
  if not os.path.exists(path):
    return ('absent', None) if dest_before == 'absent' else \
        ('bad', 'destination vanished')
  with open(path, 'rb') as f:
    content = f.read()
  if dest_before == 'old' and content == OLD:
    return 'old', None
  if new_bytes is not None and content == new_bytes:
    return 'new', None
  if new_bytes is None and new_ok is not None and new_ok(content):
    return 'new', None
  return 'bad', {'len': len(content), 'head': repr(content[:60]),
                 'tail': repr(content[-30:])}


def run_inprocess(case):
  from openhtf.output import callbacks as cbmod
  from openhtf.output.callbacks import json_factory
  viol = []
  c = {'cases': 1, 'faults_fired': 0, 'destinations_inspected': 0,
       'successes_compared': 0}
  rec = make_record(case['n'])
  if case.get('meta_collide'):
    # test metadata whose keys have the names of record fields
    import copy
    rec = copy.copy(rec)
    rec.metadata = dict(rec.metadata, station_id='bench-7', outcome='golden-sample',
                        dut_id='dut-from-metadata', start_time_millis=1)
  work = tempfile.mkdtemp(dir=_S['root'])
  stage = os.path.join(work, 'stage')
  os.mkdir(stage)
  old_tmp = tempfile.tempdir
  tempfile.tempdir = stage
  fault = case['fault']
  fired = []
  try:
    pattern = {
        'brace': os.path.join(work, '{dut_id}.{metadata[test_name]}.out'),
        'percent': os.path.join(work, '%(dut_id)s.%(outcome)s.out'),
        'callable': (lambda **kw: os.path.join(work, 'cb-%s.out' % kw['dut_id'])),
        'nested': os.path.join(work, '{station_id}-{dut_id}-{start_time_millis}.out'),
    }[case.get('pattern', 'brace')]
    expect_name = {
        'brace': '%s.%s.out' % (rec.dut_id, rec.metadata['test_name']),
        'percent': '%s.%s.out' % (rec.dut_id, rec.outcome.name),
        'callable': 'cb-%s.out' % rec.dut_id,
        'nested': '%s-%s-%s.out' % (rec.station_id, rec.dut_id,
                                    rec.start_time_millis),
    }[case.get('pattern', 'brace')]
    dest = os.path.join(work, expect_name)
    base = json_factory.OutputToJSON if case['w'] == 'json' else cbmod.OutputToFile
    # reference serialization (no fault, file object target)
    if case['w'] == 'pickle':
      # the documented default serialization, computed independently
      new_bytes = pickle.dumps(rec, -1)
    else:
      buf = io.BytesIO()
      base(buf, sort_keys=True)(rec)
      new_bytes = buf.getvalue()
    if case['dest'] == 'old':
      with open(dest, 'wb') as f:
        f.write(OLD)

    class FaultyAtomic(cbmod.Atomic):
      nwrites = 0

      def write(self, data):
        if fault[0] == 'write' and FaultyAtomic.nwrites == fault[1]:
          fired.append('write')
          raise injected(case, 'write failure')
        FaultyAtomic.nwrites += 1
        return super().write(data)

    class Writer(base):

      @staticmethod
      def open_file(filename):
        a = FaultyAtomic(filename)
        if fault[0] == 'close':
          real_close = a.temp.close

          def bad_close():
            real_close()
            fired.append('close')
            raise injected(case, 'close failure')
          a.temp.close = bad_close
        return a

      def serialize_test_record(self, test_rec):
        out = super().serialize_test_record(test_rec)
        if fault[0] != 'ser':
          return out
        if isinstance(out, (bytes, str)):
          out = [out]

        def gen():
          for i, chunk in enumerate(out):
            if i == fault[1]:
              fired.append('ser')
              raise injected(case, 'serializer failure')
            yield chunk
        return gen()

    cb = Writer(pattern) if case['w'] == 'pickle' else Writer(pattern,
                                                             sort_keys=True)
    real_move = cbmod.shutil.move
    rec_used = rec
    closed_attachment = None
    if fault[0] == 'move':
      def bad_move(src, dst, *a, **k):
        fired.append('move')
        raise injected(case, 'move failure')
      cbmod.shutil.move = bad_move
    if fault[0] == 'real_serializer':
      # an earlier callback closed the attachments: OutputToJSON fails for real
      # in the middle of the stream when it reaches the attachment data
      rec_used = make_record(case['n'], dut='DUT-closed-%d' % case['n'])
      rec_used = pickle.loads(pickle.dumps(rec_used)) if False else rec_used
      import copy
      rec_used = copy.copy(rec_used)
      rec_used.phases = [copy.copy(p) for p in rec_used.phases]
      p0 = rec_used.phases[0]
      p0.attachments = {k: copy.copy(v) for k, v in p0.attachments.items()}
      for a in p0.attachments.values():
        a.close()
      dest = os.path.join(work, '%s.%s.out' % (rec_used.dut_id,
                                               rec_used.metadata['test_name']))
      if case['dest'] == 'old':
        with open(dest, 'wb') as f:
          f.write(OLD)
    try:
      cb(rec_used)
      raised = None
    except BaseException as e:  # pylint: disable=broad-except
      raised = type(e).__name__
      if fault[0] == 'real_serializer':
        fired.append('real_serializer')
    finally:
      cbmod.shutil.move = real_move
    c['destinations_inspected'] = 1
    verdict, detail = classify_dest(
        dest, case['dest'],
        new_bytes if fault[0] != 'real_serializer' else None,
        new_ok=lambda b: False)
    ctx = {'writer': case['w'], 'fault': fault, 'dest_before': case['dest'],
           'raised': raised, 'exception_kind': case.get('exc', 'os')}
    if fired:
      c['faults_fired'] = 1
      if verdict == 'bad':
        viol.append({'mechanism': 'truncated-or-partial-record-at-destination:%s'
                     % fired[0], 'detail': dict(ctx, found=detail)})
      if raised is None and fired[0] in ('write', 'ser', 'close', 'move'):
        viol.append({'mechanism': 'fault-swallowed-by-callback:%s' % fired[0],
                     'detail': ctx})
    else:
      # no fault fired (k beyond the number of chunks/writes, or 'none')
      if raised is not None:
        if fault[0] == 'real_serializer' and case['w'] == 'pickle':
          pass
        else:
          viol.append({'mechanism': 'callback-raised-without-fault:%s' % raised,
                       'detail': ctx})
      elif fault[0] == 'real_serializer':
        pass    # pickle does not touch attachment data
      else:
        c['successes_compared'] = 1
        if verdict != 'new':
          viol.append({'mechanism': 'destination-differs-from-serialization',
                       'detail': dict(ctx, verdict=verdict, found=detail,
                                      files=os.listdir(work))})
    if fired and fault[0] in ('ser', 'write', 'close', 'move', 'real_serializer'):
      # the same callback object publishes the next record: exactly that record
      cbmod.shutil.move = real_move
      fault2, fault[:] = list(fault), ['none']
      FaultyAtomic.nwrites = 0
      rec2 = make_record(1, dut='DUT-next')
      if case['w'] == 'pickle':
        want2 = pickle.dumps(rec2, -1)
      else:
        buf2 = io.BytesIO()
        base(buf2, sort_keys=True)(rec2)
        want2 = buf2.getvalue()
      name2 = {
          'brace': '%s.%s.out' % (rec2.dut_id, rec2.metadata['test_name']),
          'percent': '%s.%s.out' % (rec2.dut_id, rec2.outcome.name),
          'callable': 'cb-%s.out' % rec2.dut_id,
          'nested': '%s-%s-%s.out' % (rec2.station_id, rec2.dut_id,
                                      rec2.start_time_millis),
      }[case.get('pattern', 'brace')]
      dest2 = os.path.join(work, name2)
      try:
        cb(rec2)
        err2 = None
      except BaseException as e:  # pylint: disable=broad-except
        err2 = type(e).__name__
      fault[:] = fault2
      c['successes_compared'] += 1
      v2, d2 = classify_dest(dest2, 'absent', want2)
      if err2 or v2 != 'new':
        viol.append({'mechanism': 'publish-after-a-failed-publish-differs',
                     'detail': dict(ctx, raised_next=err2, verdict=v2, found=d2)})
      expect_name2 = name2
    else:
      expect_name2 = None
    leftovers = [f for f in os.listdir(work) if f not in (expect_name, 'stage',
                                                          expect_name2)
                 and not f.endswith('.out')]
    if leftovers:
      viol.append({'mechanism': 'unexpected-files-beside-destination',
                   'detail': dict(ctx, files=leftovers)})
  finally:
    tempfile.tempdir = old_tmp
    shutil.rmtree(work, ignore_errors=True)
  return {'sig': case if (fired or c['successes_compared']) else None,
          'violations': viol, 'counters': c}


def run_atomic_write(case):
  from openhtf.util import atomic_write as aw
  viol = []
  c = {'cases': 1, 'faults_fired': 0, 'destinations_inspected': 1,
       'successes_compared': 0}
  work = tempfile.mkdtemp(dir=_S['root'])
  old_tmp = tempfile.tempdir
  tempfile.tempdir = work
  dest = os.path.join(work, 'target.txt')
  if case['dest'] == 'old':
    with open(dest, 'wb') as f:
      f.write(OLD)
  chunks = ['line %d of the new content\n' % i for i in range(5)]
  new_bytes = ''.join(chunks).encode()
  fault = case['fault']
  fired = []

  class OsShim:
    def __getattr__(self, name):
      return getattr(os, name)

    def rename(self, a, b):
      if fault[0] == 'rename':
        fired.append('rename')
        raise Injected('injected rename failure')
      return os.rename(a, b)

  class LateFlushFile:
    """What `open(name, 'w')` gives atomic_write: text is buffered; the final
    flush inside close() fails (ENOSPC / EFBIG / EIO) for fault closeflush."""

    def __init__(self, name, mode):
      self.f = open(name, mode)
      self.buf = []

    def write(self, text):
      self.buf.append(text)
      return len(text)

    def flush(self):
      if fault[0] == 'closeflush':
        fired.append('closeflush')
        self.buf = []
        raise OSError(28, 'injected: no space left on device')
      self.f.write(''.join(self.buf))
      self.buf = []
      self.f.flush()

    def fileno(self):
      return self.f.fileno()

    def __enter__(self):
      return self

    def __exit__(self, *exc):
      try:
        self.flush()
      finally:
        self.f.close()
      return False

  real_os = aw.os
  aw.os = OsShim()
  aw.open = LateFlushFile
  try:
    try:
      with aw.atomic_write(dest, filesync=case['sync']) as f:
        for i, ch in enumerate(chunks):
          if fault[0] == 'body' and i == fault[1]:
            fired.append('body')
            raise Injected('body failure')
          f.write(ch)
      raised = None
    except Exception as e:  # pylint: disable=broad-except
      raised = type(e).__name__
  finally:
    aw.os = real_os
    del aw.open
    tempfile.tempdir = old_tmp
  verdict, detail = classify_dest(dest, case['dest'], new_bytes)
  ctx = {'writer': 'atomic_write', 'fault': fault, 'dest_before': case['dest'],
         'raised': raised}
  if fired:
    c['faults_fired'] = 1
    if verdict == 'bad':
      viol.append({'mechanism': 'truncated-or-partial-record-at-destination:%s'
                   % fired[0], 'detail': dict(ctx, found=detail)})
    if verdict == 'new' and fired[0] == 'body':
      viol.append({'mechanism': 'partial-content-published', 'detail': ctx})
    if raised is None:
      viol.append({'mechanism': 'fault-swallowed-by-callback:%s' % fired[0],
                   'detail': ctx})
  else:
    c['successes_compared'] = 1
    if verdict != 'new' or raised:
      viol.append({'mechanism': 'destination-differs-from-serialization',
                   'detail': dict(ctx, verdict=verdict, found=detail)})
  stray = [f for f in os.listdir(work) if f != 'target.txt']
  if stray:
    viol.append({'mechanism': 'staging-file-left-behind',
                 'detail': dict(ctx, files=stray)})
  shutil.rmtree(work, ignore_errors=True)
  return {'sig': case, 'violations': viol, 'counters': c}


def run_two_writers(case):
  """Two writers publish to the same destination at overlapping times: A has
  written half of its record when B writes and publishes all of its own; then A
  finishes.  After B's publication and at the end the destination holds one of
  the two complete records."""
  import threading
  from openhtf.output.callbacks import json_factory
  from openhtf.util import atomic_write as aw
  viol = []
  c = {'cases': 1, 'faults_fired': 0, 'destinations_inspected': 0,
       'successes_compared': 0, 'overlapping_publications': 0}
  work = tempfile.mkdtemp(dir=_S['root'])
  stage = os.path.join(work, 'stage')
  os.mkdir(stage)
  old_tmp = tempfile.tempdir
  tempfile.tempdir = stage
  dest = os.path.join(work, 'shared.out')
  if case['dest'] == 'old':
    with open(dest, 'wb') as f:
      f.write(OLD)
  a_half, b_done = threading.Event(), threading.Event()
  errors = []
  try:
    if case['w'] == 'atomic_write':
      # A's record is larger than the stream buffer (so part of its first half
      # is on disk when B starts) and of a different length than B's
      contents = {k: ''.join('%s line %d of the record of writer %s\n' % (k, i, k)
                             for i in range(n)).encode()
                  for k, n in (('A', 2500), ('B', 300))}

      def write(k):
        try:
          with aw.atomic_write(dest, filesync=case.get('sync', False)) as f:
            text = contents[k].decode()
            half = len(text) // 2
            f.write(text[:half])
            if k == 'A':
              a_half.set()
              b_done.wait(10)
            f.write(text[half:])
        except Exception as e:  # pylint: disable=broad-except
          errors.append((k, type(e).__name__, str(e)[:80]))
    else:
      recs = {'A': make_record(1, dut='DUT-A'), 'B': make_record(3, dut='DUT-B')}
      contents = {}
      for k, r in recs.items():
        buf = io.BytesIO()
        json_factory.OutputToJSON(buf, sort_keys=True)(r)
        contents[k] = buf.getvalue()

      class Gated(json_factory.OutputToJSON):
        who = None

        def serialize_test_record(self, test_rec):
          out = list(super().serialize_test_record(test_rec))
          me = self.who

          def gen():
            for i, chunk in enumerate(out):
              if me == 'A' and i == len(out) // 2:
                a_half.set()
                b_done.wait(10)
              yield chunk
          return gen()

      def write(k):
        try:
          cb = Gated(lambda **kw: dest, sort_keys=True)
          cb.who = k
          cb(recs[k])
        except Exception as e:  # pylint: disable=broad-except
          errors.append((k, type(e).__name__, str(e)[:80]))

    ta = threading.Thread(target=write, args=('A',), name='vf-writer-A')
    tb = threading.Thread(target=write, args=('B',), name='vf-writer-B')
    ta.start()
    if not a_half.wait(10):
      errors.append(('A', 'harness', 'never reached its half-way point'))
    tb.start()
    tb.join(20)
    c['destinations_inspected'] += 1
    mid = classify_dest(dest, case['dest'], None,
                        new_ok=lambda b: b in (contents['A'], contents['B']))
    b_done.set()
    ta.join(20)
    c['destinations_inspected'] += 1
    end = classify_dest(dest, case['dest'], None,
                        new_ok=lambda b: b in (contents['A'], contents['B']))
    ctx = {'writer': case['w'], 'dest_before': case['dest'], 'errors': errors[:3]}
    c['overlapping_publications'] = 1
    c['faults_fired'] = 1        # the overlap is the fault of this case
    if mid[0] == 'bad':
      viol.append({'mechanism': 'truncated-or-partial-record-at-destination:'
                                'second-writer-published',
                   'detail': dict(ctx, found=mid[1])})
    if end[0] == 'bad':
      viol.append({'mechanism': 'truncated-or-partial-record-at-destination:'
                                'overlapping-writers',
                   'detail': dict(ctx, found=end[1])})
    elif end[0] != 'new' and not errors:
      viol.append({'mechanism': 'destination-differs-from-serialization',
                   'detail': dict(ctx, verdict=end[0])})
  finally:
    b_done.set()
    tempfile.tempdir = old_tmp
    shutil.rmtree(work, ignore_errors=True)
  return {'sig': case, 'violations': viol, 'counters': c}


# ------------------------------------------------------------ process kills
CHILD = r'''
import os, sys, time
sys.argv = ['c17-child']
writer, dest, nph, gate = sys.argv_saved
import tempfile
tempfile.tempdir = os.path.join(os.path.dirname(dest), 'stage')
import openhtf as htf
from openhtf.util import console_output
console_output.CLI_QUIET = True
def wait_gate():
  sys.stdout.write('READY %d\n' % os.getpid()); sys.stdout.flush()
  while not os.path.exists(gate):
    time.sleep(0.002)
  if os.environ.get('VF_FSIZE'):
    import resource, signal
    signal.signal(signal.SIGXFSZ, signal.SIG_IGN)   # writes fail with EFBIG instead
    n = int(os.environ['VF_FSIZE'])
    resource.setrlimit(resource.RLIMIT_FSIZE, (n, n))
if writer.startswith('atomic_write'):
  from openhtf.util import atomic_write as aw
  wait_gate()
  sync = writer == 'atomic_write'
  with aw.atomic_write(dest, filesync=sync) as f:
    for i in range(5):
      f.write('line %d of the new content\n' % i)
      if sync:
        f.flush()     # nosync: the text stays in the user-space buffer
  print('DONE'); sys.exit(0)
phases = []
for i in range(int(nph)):
  def body(test, _i=i):
    test.measurements['m%d' % _i] = _i + 0.5
    if _i == 0:
      test.attach('blob.bin', bytes(range(256)) * 40)
      test.dut_id = 'NEWDUT'
  body.__name__ = 'phase%d' % i
  phases.append(htf.measures(htf.Measurement('m%d' % i))(body))
t = htf.Test(*phases)
from openhtf.output import callbacks as cbmod
from openhtf.output.callbacks import json_factory
cb = (json_factory.OutputToJSON(dest) if writer == 'json' else cbmod.OutputToFile(dest))
t.add_output_callbacks(lambda rec: wait_gate(), cb)
t.execute()
print('DONE')
'''


_DRY = {}


def dry_run_sequence(case):
  """Names of the file-system system calls the callback performs, in order
  (one traced run without injection per writer variant and tree)."""
  from vf import harness
  key = (case['w'], case['dest'], case.get('n', 1))
  if key in _DRY:
    return _DRY[key]
  work = tempfile.mkdtemp(dir=_S['root'])
  os.mkdir(os.path.join(work, 'stage'))
  dest = os.path.join(work, 'record.out')
  gate = os.path.join(work, 'go')
  if case['dest'] == 'old':
    with open(dest, 'wb') as f:
      f.write(OLD)
  code = CHILD.replace('sys.argv_saved', repr((case['w'], dest,
                                               str(case.get('n', 1)), gate)))
  script = os.path.join(work, 'child.py')
  with open(script, 'w') as f:
    f.write(code)
  child = subprocess.Popen([sys.executable, script], env=harness.worker_env(),
                           stdout=subprocess.PIPE, stderr=subprocess.PIPE,
                           text=True)
  seq = []
  st = None
  try:
    line = child.stdout.readline()
    if not line.startswith('READY'):
      raise RuntimeError('dry-run child not ready: %r %s' % (
          line, child.stderr.read()[-400:]))
    log = os.path.join(work, 'strace.log')
    st = subprocess.Popen(['strace', '-f', '-q', '-p', str(child.pid), '-o', log,
                           '-e', 'trace=' + SYSCALLS],
                          stdout=subprocess.PIPE, stderr=subprocess.PIPE,
                          text=True)
    t_end = time.monotonic() + 10
    while time.monotonic() < t_end and not os.path.exists(log):
      time.sleep(0.01)
    time.sleep(0.15)
    with open(gate, 'w'):
      pass
    child.wait(30)
    st.wait(10)
    import re
    with open(log) as f:
      for l in f:
        m = re.match(r'^\d+\s+(\w+)\(', l)
        if m and '<... ' not in l:
          seq.append(m.group(1))
  finally:
    if st is not None and st.poll() is None:
      st.kill()
    if child.poll() is None:
      child.kill()
    shutil.rmtree(work, ignore_errors=True)
  _DRY[key] = seq
  return seq


def run_kill(case):
  """The writer runs in a child; strace kills it at its N-th file syscall."""
  from vf import harness
  viol = []
  c = {'cases': 1, 'faults_fired': 0, 'destinations_inspected': 0,
       'successes_compared': 0, 'kill_points': 0}
  work = tempfile.mkdtemp(dir=_S['root'])
  os.mkdir(os.path.join(work, 'stage'))
  dest = os.path.join(work, 'record.out')
  gate = os.path.join(work, 'go')
  if case['dest'] == 'old':
    with open(dest, 'wb') as f:
      f.write(OLD)
  pos = case['fault'][1]
  seq = dry_run_sequence(case)
  if pos >= len(seq):
    shutil.rmtree(work, ignore_errors=True)
    return {'sig': None, 'violations': [], 'evaluations': 0, 'sample': False,
            'counters': {'kill_positions_beyond_sequence': 1}}
  name = seq[pos]
  occurrence = seq[:pos + 1].count(name)
  n = pos
  code = CHILD.replace('sys.argv_saved', repr((case['w'], dest,
                                               str(case.get('n', 1)), gate)))
  env = harness.worker_env()
  script = os.path.join(work, 'child.py')
  with open(script, 'w') as f:
    f.write(code)
  child = subprocess.Popen([sys.executable, script], env=env,
                           stdout=subprocess.PIPE, stderr=subprocess.PIPE,
                           text=True)
  st = None
  try:
    line = child.stdout.readline()
    if not line.startswith('READY'):
      err = child.stderr.read()[-400:]
      raise RuntimeError('child not ready: %r %s' % (line, err))
    st = subprocess.Popen(
        ['strace', '-f', '-q', '-p', str(child.pid), '-o',
         os.path.join(work, 'strace.log'), '-e', 'trace=' + SYSCALLS, '-e',
         'inject=%s:signal=SIGKILL:when=%d' % (name, occurrence)],
        stdout=subprocess.PIPE, stderr=subprocess.PIPE, text=True)
    # wait until strace is attached (its log file appears)
    t_end = time.monotonic() + 10
    while time.monotonic() < t_end and not os.path.exists(
        os.path.join(work, 'strace.log')):
      time.sleep(0.01)
    time.sleep(0.15)
    with open(gate, 'w'):
      pass
    try:
      rc = child.wait(30)
    except subprocess.TimeoutExpired:
      child.kill()
      raise RuntimeError('child did not finish after the gate opened')
    killed = rc == -signal.SIGKILL
    c['destinations_inspected'] = 1
    if killed:
      c['faults_fired'] = 1
      c['kill_points'] = 1
    else:
      c['kill_not_delivered'] = 1
      c['successes_compared'] = 1

    def new_ok(content):
      if case['w'].startswith('atomic_write'):
        return content == ''.join('line %d of the new content\n' % i
                                  for i in range(5)).encode()
      try:
        if case['w'] == 'json':
          d = json.loads(content.decode())
          return d['dut_id'] == 'NEWDUT' and len(d['phases']) == case['n'] \
              and d['outcome'] == 'PASS'
        return len(content) > 100 and content.endswith(b'.') and (
            b'NEWDUT' in content)
      except Exception:  # pylint: disable=broad-except
        return False

    verdict, detail = classify_dest(dest, case['dest'], None, new_ok)
    ctx = {'writer': case['w'], 'kill_at_syscall': [pos, name, occurrence],
           'killed': killed, 'dest_before': case['dest'],
           'syscall_sequence': seq}
    if verdict == 'bad':
      tail = ''
      try:
        with open(os.path.join(work, 'strace.log')) as f:
          tail = f.read()[-600:]
      except OSError:
        pass
      viol.append({'mechanism': 'truncated-or-partial-record-at-destination:kill',
                   'detail': dict(ctx, found=detail, strace_tail=tail)})
    if not killed and verdict != 'new':
      viol.append({'mechanism': 'destination-differs-from-serialization',
                   'detail': dict(ctx, verdict=verdict, found=detail)})
  finally:
    if st is not None:
      try:
        st.wait(5)
      except subprocess.TimeoutExpired:
        st.kill()
    if child.poll() is None:
      child.kill()
    shutil.rmtree(work, ignore_errors=True)
  return {'sig': case if c['faults_fired'] or c['successes_compared'] else None,
          'violations': viol, 'counters': c}


def run_fsize(case):
  """The writer runs in a child whose file size limit is below (or above) the
  size of what it publishes: writes beyond the limit fail or are cut short by
  the operating system."""
  from vf import harness
  viol = []
  c = {'cases': 1, 'faults_fired': 0, 'destinations_inspected': 0,
       'successes_compared': 0, 'kill_points': 0, 'size_limited_runs': 1}
  work = tempfile.mkdtemp(dir=_S['root'])
  os.mkdir(os.path.join(work, 'stage'))
  dest = os.path.join(work, 'record.out')
  gate = os.path.join(work, 'go')
  if case['dest'] == 'old':
    with open(dest, 'wb') as f:
      f.write(OLD)
  with open(gate, 'w'):
    pass
  code = CHILD.replace('sys.argv_saved', repr((case['w'], dest, '1', gate)))
  script = os.path.join(work, 'child.py')
  with open(script, 'w') as f:
    f.write(code)
  env = dict(harness.worker_env(), VF_FSIZE=str(case['fault'][1]))
  try:
    p = subprocess.run([sys.executable, script], env=env, capture_output=True,
                       text=True, timeout=60)
    finished = 'DONE' in p.stdout
    c['destinations_inspected'] = 1

    def new_ok(content):
      if case['w'].startswith('atomic_write'):
        return content == ''.join('line %d of the new content\n' % i
                                  for i in range(5)).encode()
      try:
        if case['w'] == 'json':
          d = json.loads(content.decode())
          return d['dut_id'] == 'NEWDUT' and len(d['phases']) == 1 \
              and d['outcome'] == 'PASS'
        import pickle
        rec = pickle.loads(content)
        return rec.dut_id == 'NEWDUT'
      except Exception:  # pylint: disable=broad-except
        return False

    verdict, detail = classify_dest(dest, case['dest'], None, new_ok)
    if verdict == 'new':
      c['successes_compared'] = 1
    else:
      c['faults_fired'] = 1
    ctx = {'writer': case['w'], 'file_size_limit': case['fault'][1],
           'dest_before': case['dest'], 'writer_reported_success': finished,
           'stderr_tail': (p.stderr or '')[-200:]}
    if verdict == 'bad':
      viol.append({'mechanism': 'truncated-or-partial-record-at-destination:short-write',
                   'detail': dict(ctx, found=detail)})
  finally:
    shutil.rmtree(work, ignore_errors=True)
  return {'sig': case, 'violations': viol, 'counters': c}


def run_case(case):
  if case['fault'][0] == 'fsize':
    return run_fsize(case)
  if case['fault'][0] == 'two_writers':
    return run_two_writers(case)
  if case['fault'][0] == 'kill':
    return run_kill(case)
  if case['w'] == 'atomic_write':
    return run_atomic_write(case)
  return run_inprocess(case)
