"""C01 — no false PASS.

Two monitors over real runs of generated programs x settings:
 (1) the PASS implication is evaluated on the *observation alone* (declared
     tree, observed branch records, call log, records, escaped exceptions);
 (2) the converse (listed cause -> listed outcome, first terminal event
     decides) is checked against the reference interpreter's outcome.
"""
import json
import random

from vf import progmodel as pm

PROPERTY = 'C01'
LEVEL = 'exploration'
RULE = ('programs = every node tree with <= 3 (quick) / <= 4 (thorough) nodes over the full '
        'reduced alphabet and over the small alphabet (which has internal diagnoses), each run under default settings and under a settings tuple drawn '
        'deterministically from its index (stop_on_first_failure via TestOptions / CONF, '
        'allow_unset_measurements, failure_exceptions none/exact/superclass, test diagnoser '
        'pass/fail/raise, test_start phase), directed programs for executor failures and '
        'repeated attempts, plus seeded random rich programs x random settings; distinct = '
        'distinct (program, settings); non-trivial = the run produced a record that was '
        'judged by the PASS-implication or the converse oracle')
ASSUMPTIONS = [
    'abort (ABORTED) is decided in C04; time-outs run under the virtual clock',
    'the reference interpreter (vf/progmodel.Model) predicts the expected outcome',
    'an executor failure may end in any outcome except PASS',
]
REQUIRED_COUNTERS = ['runs', 'pass_runs_judged', 'nonpass_runs_judged']
EXHAUSTIVE = {'quick': True, 'thorough': True}
PLAN = {
    'quick': {'workers': 16, 'budget_s': 70, 'sampled_per_worker': 600,
              'wall_limit_s': 900},
    'thorough': {'workers': 16, 'budget_s': 1200, 'sampled_per_worker': 80000,
                 'wall_limit_s': 9000},
}
SPACES = {'quick': [('full', 3), ('small', 3)],
          'thorough': [('full', 4), ('small', 4)]}


def setup():
  pm.htf()


def _p(pid, **beh):
  return ['P', pid, beh]


DIRECTED = [
    # executor failure (mistyped branch condition) at several positions
    {'prog': [['BX', 'bx', [_p('x')]], _p('after')], 'cfg': {}},
    {'prog': [_p('a'), ['BX', 'bx', []]], 'cfg': {}},
    {'prog': [['G', [_p('s')], [['BX', 'bx', []]], [_p('td')]]], 'cfg': {}},
    {'prog': [['T', 't', [_p('a', r='U'), ['BX', 'bx', []]]], _p('after')], 'cfg': {}},
    {'prog': [_p('f', r='F'), ['BX', 'bx', []]], 'cfg': {}},
    # run_if-false phases under stop_on_first_failure / repeat_on_measurement_fail
    {'prog': [_p('a', run_if=False), _p('b')], 'cfg': {'sof': 'opt'}},
    {'prog': [_p('a', run_if=False, opts={'repeat_on_measurement_fail': True}),
              _p('b')], 'cfg': {}},
    {'prog': [_p('a', run_if=False), _p('b')],
     'cfg': {'sof': 'conf', 'start': _p('start', r='F')}},
    {'prog': [_p('a', run_if='raise', opts={'repeat_on_measurement_fail': True})],
     'cfg': {}},
    # repeated attempts whose earlier attempt was terminal
    {'prog': [_p('a', r=['X', 'C'], opts={'force_repeat': True, 'repeat_limit': 2})],
     'cfg': {}},
    {'prog': [_p('a', r=['S', 'C'], opts={'force_repeat': True, 'repeat_limit': 2})],
     'cfg': {}},
    {'prog': [_p('a', r=['T', 'C'], opts={'repeat_on_timeout': True})], 'cfg': {}},
    {'prog': [_p('a', r=['T', 'T', 'T'], opts={'repeat_on_timeout': True})], 'cfg': {}},
    # all-skip, vacuous, unset
    {'prog': [_p('a', r='K'), _p('b', r='K')], 'cfg': {}},
    {'prog': [_p('a', run_if=False)], 'cfg': {}},
    {'prog': [], 'cfg': {}},
    {'prog': [_p('a', m='unset')], 'cfg': {}},
    {'prog': [_p('a', m='unset')], 'cfg': {'allow_unset': True}},
    {'prog': [_p('a', m='marginal')], 'cfg': {}},
    {'prog': [_p('a', r='X')], 'cfg': {'fexc': 'exact'}},
    {'prog': [_p('a', r='XK')], 'cfg': {'fexc': 'exact'}},
    {'prog': [_p('a', r='XK')], 'cfg': {'fexc': 'super'}},
    {'prog': [_p('a', r='BAD')], 'cfg': {'fexc': 'super'}},
    # SystemExit raised on the executor thread itself (a run_if predicate)
    {'prog': [_p('a'), _p('b', run_if='exit'), _p('c')], 'cfg': {}},
    {'prog': [_p('a', run_if='exit')], 'cfg': {'tdiag': 'pass'}},
    {'prog': [['G', [_p('s')], [_p('m', run_if='exit')], [_p('t')]], _p('z')], 'cfg': {}},
    {'prog': [['T', 't', [_p('a'), _p('b', run_if='exit')]], _p('c')], 'cfg': {}},
    # falsy values that are neither None nor a PhaseResult
    {'prog': [_p('a', r='BAD0'), _p('b')], 'cfg': {}},
    {'prog': [_p('a', r='BADF'), _p('b')], 'cfg': {}},
    {'prog': [_p('a', r='BADS')], 'cfg': {}},
    {'prog': [_p('a', r='BADL')], 'cfg': {'tdiag': 'pass'}},
    {'prog': [['T', 't', [_p('a', r='BADF'), _p('b')]], _p('c')], 'cfg': {}},
    {'prog': [['G', [_p('s')], [_p('m')], [_p('t', r='BAD0')]]], 'cfg': {}},
    # always_fail diagnosers handing back one diagnosis / a list / a generator
    {'prog': [_p('a', ds=[{'af': 1, 'shape': 'single', 'ds': [['D2', 0]]}])], 'cfg': {}},
    {'prog': [_p('a', ds=[{'af': 1, 'shape': 'list', 'ds': [['D2', 0]]}])], 'cfg': {}},
    {'prog': [_p('a', ds=[{'af': 1, 'shape': 'gen', 'ds': [['D2', 0], ['D3', 0]]}])],
     'cfg': {}},
    {'prog': [_p('a', ds=[{'af': 1, 'shape': 'tuple', 'ds': [['D2', 0]]}]), _p('b')],
     'cfg': {'sof': 'opt'}},
    {'prog': [_p('a')], 'cfg': {'tdiag': 'fail'}},
    {'prog': [_p('a')], 'cfg': {'tdiag': 'raise'}},
    {'prog': [_p('a', r='K')], 'cfg': {'tdiag': 'fail'}},
    {'prog': [_p('a', r='T')], 'cfg': {'tdiag': 'raise'}},
    {'prog': [_p('a')], 'cfg': {'start': _p('start', r='T')}},
    {'prog': [_p('a')], 'cfg': {'start': _p('start', r='K')}},
    # phases wrapped by @monitors (a sampling thread next to the body)
    {'prog': [_p('a', r='X', mon=1), _p('b')], 'cfg': {}},
    {'prog': [_p('a', r='X', mon=1), _p('b')], 'cfg': {'fexc': 'exact'}},
    {'prog': [_p('a', r='F', mon=1)], 'cfg': {}},
    {'prog': [_p('a', r='S', mon=1), _p('b')], 'cfg': {}},
    {'prog': [_p('a', r='BAD', mon=1)], 'cfg': {}},
    {'prog': [_p('a', r='T', mon=1), _p('b')], 'cfg': {}},
    {'prog': [_p('a', r='K', mon=1)], 'cfg': {}},
    {'prog': [_p('a', mon=1, m='fail')], 'cfg': {}},
    {'prog': [['T', 't', [_p('a', r='U', mon=1), _p('b')]], _p('c')], 'cfg': {}},
    {'prog': [['G', [_p('s', r='X', mon=1)], [_p('m')], [_p('t')]]], 'cfg': {}},
    {'prog': [['G', [], [_p('m')], [_p('t', r='X', mon=1)]]], 'cfg': {}},
    # a failure diagnosis whose result is reported again later as a mere note
    {'prog': [_p('a')], 'cfg': {'tdiag': 'fail_then_ok'}},
    {'prog': [_p('a', ds=[[['D1', 0]]]), _p('b')], 'cfg': {'tdiag': 'fail_then_ok'}},
    {'prog': [_p('a', r='K')], 'cfg': {'tdiag': 'fail_then_ok', 'allow_unset': True}},
    # a dimensioned measurement that is never set
    {'prog': [_p('a', m='unset', mdim=1), _p('b')], 'cfg': {}},
    {'prog': [_p('a', m='unset', mdim=1), _p('b')], 'cfg': {'allow_unset': True}},
    {'prog': [['T', 't', [_p('a', m='unset', mdim=1)]], _p('b')], 'cfg': {'tdiag': 'pass'}},
    # failures that leave no phase record at all
    {'prog': [['T', 't0', [['C', 'c1', ['NOT_ANY', ['D2']], 'U']]]], 'cfg': {}},
    {'prog': [['T', 't0', [['C', 'c1', ['NOT_ANY', ['D2']], 'U'],
                           _p('x', run_if=False)]]], 'cfg': {'tdiag': 'pass'}},
    {'prog': [['C', 'c1', ['NOT_ANY', ['D2']], 'S']], 'cfg': {}},
    {'prog': [_p('a', run_if=False)], 'cfg': {'tdiag': 'fail'}},
]


def cfg_for(index):
  return pm.gen_cfg(random.Random(index * 7919 + 13))


def enumerated(tier):
  i = 0
  for which, n in SPACES[tier]:
    for prog in pm.enum_programs(which, n):
      i += 1
      yield {'prog': prog, 'cfg': cfg_for(i)}
      if i % 4 == 0:
        yield {'prog': prog, 'cfg': {}}
  for c in DIRECTED:
    yield c


def sampled(tier, rng):
  while True:
    prog = pm.gen_program(rng, depth=3, width=4, rich=True)
    cfg = pm.gen_cfg(rng)
    if rng.random() < .15:
      phases = [n for n, _ in pm.walk(prog) if n[0] == 'P']
      if phases:
        rng.choice(phases)[2]['mon'] = 1    # this phase is wrapped by @monitors
    yield {'prog': prog, 'cfg': cfg}


# ------------------------------------------------------------- PASS implication
def pass_implication(prog, cfg, obs):
  """Returns a list of (mechanism, detail) refuting a PASS."""
  out = []
  if obs['crash']:
    out.append(('false-pass:executor-failed', {'crash': obs['crash'][:2]}))
  taken = {b[0]: b[1] for b in obs['branches']}
  calls = set(obs['calls'])
  phase_opts = {}

  def need(nodes, excused):
    for n in nodes:
      k = n[0]
      if k == 'P':
        phase_opts[n[1]] = n[2]
        if excused:
          continue
        ri = n[2].get('run_if')
        if ri is False or (isinstance(ri, list) and ri[0] is False):
          continue     # (first) run_if verdict false: documented skip
        if n[1] not in calls:
          out.append(('false-pass:declared-phase-never-ran', {'phase': n[1]}))
      elif k == 'S':
        need(n[1], excused)
      elif k == 'T':
        need(n[2], excused)
      elif k == 'B':
        if excused:
          need(n[4], True)
        elif n[1] not in taken:
          out.append(('false-pass:branch-never-evaluated', {'branch': n[1]}))
        else:
          need(n[4], not taken[n[1]])
      elif k == 'BX':
        if not excused:
          out.append(('false-pass:executor-failed', {'branch': n[1]}))
      elif k == 'G':
        for part in n[1:]:
          need(part, excused)

  if cfg.get('start'):
    need([cfg['start']], False)
  need(prog, False)
  bad = [p for p in obs['phases'] if p[1] in ('FAIL', 'ERROR')]
  forgotten = set()     # phases whose bad records are all forgotten attempts
  if bad:
    # Is every bad record a non-final attempt of a phase that was re-invoked?
    names = [p[0] for p in obs['phases']]
    nonfinal = True
    for idx, p in enumerate(obs['phases']):
      if p[1] in ('FAIL', 'ERROR'):
        later = p[0] in names[idx + 1:]
        ri = (phase_opts.get(p[0]) or {}).get('run_if')
        if isinstance(ri, list) and False in ri[1:]:
          later = True   # the later attempt was skipped by a stateful run_if
        o = (phase_opts.get(p[0]) or {}).get('opts') or {}
        if not (later and p[1] == 'ERROR' and
                (o.get('force_repeat') or o.get('repeat_on_timeout'))):
          nonfinal = False
        else:
          forgotten.add(p[0])
    out.append(('false-pass:non-final-attempt-terminal' if nonfinal else
                'false-pass:fail-or-error-record',
                {'records': [p[:3] for p in bad][:4]}))
  for name, ms in obs['meas']:
    for mname, outcome in ms:
      rec = [p for p in obs['phases'] if p[0] == name]
      if outcome == 'FAIL' or outcome == 'PARTIALLY_SET' or (
          outcome == 'UNSET' and not cfg.get('allow_unset')):
        # measurements of SKIP records (skipped / repeated attempts) do not count;
        # those of a forgotten non-final attempt belong to that known mechanism
        if name in forgotten and bad and nonfinal:
          continue
        if any(p[1] != 'SKIP' for p in rec):
          out.append(('false-pass:measurement-%s' % outcome.lower(),
                      {'phase': name}))
  if any(f for _, f in obs['diagnoses']):
    out.append(('false-pass:failure-diagnosis', {'diagnoses': obs['diagnoses']}))
  if any(s[1] == 'FAIL' for s in obs['subtests']):
    out.append(('false-pass:failed-subtest', {'subtests': obs['subtests']}))
  if obs['phases'] and all(p[1] == 'SKIP' for p in obs['phases']):
    out.append(('false-pass:all-records-skip', {}))
  return out


def run_case(case):
  prog, cfg = case['prog'], case.get('cfg') or {}
  real = pm.run_real(prog, cfg)
  viol = []
  c = {'runs': 1, 'pass_runs_judged': 0, 'nonpass_runs_judged': 0}
  ctx = {}
  if real.get('exc') or real['ncallbacks'] != 1:
    viol.append({'mechanism': 'execute-raised-or-no-record',
                 'detail': {'exc': real.get('exc'), 'ncb': real['ncallbacks']}})
    return {'sig': [prog, cfg], 'violations': viol, 'counters': c}
  is_pass = real['outcome'] == 'PASS'
  if bool(real['ret']) != is_pass:
    viol.append({'mechanism': 'return-value-differs-from-outcome',
                 'detail': {'ret': real['ret'], 'outcome': real['outcome']}})
  if is_pass or real['ret']:
    c['pass_runs_judged'] = 1
    seen = set()
    for mech, detail in pass_implication(prog, cfg, real):
      if mech not in seen:
        seen.add(mech)
        viol.append({'mechanism': mech, 'detail': dict(
            detail, outcome=real['outcome'],
            phases=[p[:3] for p in real['phases']][:6])})
  model = pm.run_model(prog, cfg)
  if not is_pass:
    c['nonpass_runs_judged'] = 1
  want = model['outcome']
  got = real['outcome']
  if want == 'CRASH':
    ok = got != 'PASS'
  else:
    ok = got == want
  if not ok and not (is_pass and viol):
    # (a false PASS is already reported above with its own mechanism)
    viol.append({'mechanism': 'outcome-differs:expected-%s-got-%s' % (want, got),
                 'detail': {'details': real.get('details'),
                            'phases': [p[:3] for p in real['phases']][:6],
                            'model_phases': [p[:3] for p in model['phases']][:6],
                            'crash': real['crash'][:1]}})
  c['outcome_' + str(got)] = 1
  for k in ('sof', 'fexc', 'allow_unset', 'tdiag', 'start'):
    if cfg.get(k):
      c['cfg_' + k] = 1
  return {'sig': [prog, cfg] if real['phases'] or real['calls'] or model['crash']
          else None, 'violations': viol, 'counters': c}
