"""Makes the real, unmodified usb protocol modules importable without libusb1.

Registers a stub `libusb1` (only what usb_exceptions uses) and an empty package
object for `openhtf.plugs.usb` whose __path__ is the real directory, so that
`openhtf.plugs.usb.adb_message` etc. are the repository's own files while the
package __init__ (which needs M2Crypto, libusb1 handles, ...) is not executed.
"""
import os
import sys
import types

LIBUSB_ERROR_TIMEOUT = -7


def install():
  if 'libusb1' not in sys.modules:
    lib = types.ModuleType('libusb1')
    lib.LIBUSB_ERROR_TIMEOUT = LIBUSB_ERROR_TIMEOUT

    class USBError(Exception):

      def __init__(self, value):
        super().__init__(value)
        self.value = value

    lib.USBError = USBError
    sys.modules['libusb1'] = lib
  if 'openhtf.plugs.usb' not in sys.modules:
    import openhtf.plugs
    from vf import harness
    harness.assert_root(openhtf.plugs)
    pkg = types.ModuleType('openhtf.plugs.usb')
    pkg.__path__ = [os.path.join(os.path.dirname(openhtf.plugs.__file__), 'usb')]
    sys.modules['openhtf.plugs.usb'] = pkg
  import logging
  logging.getLogger('openhtf').setLevel(logging.CRITICAL + 10)
  logging.getLogger('openhtf').propagate = False
  return sys.modules['libusb1']
