"""E2 over whole Test runs: pause a framework thread at a chosen line, perform
an operator action (abort, second abort, real SIGINT, handler on the main
thread) and observe the run through the E1 event log.
"""
import os
import signal
import sys
import threading
import time
import traceback

from vf import pause
from vf import progmodel as pm

_LAB = {}


def role(th):
  n = th.name
  if n.startswith('TestExecutorThread'):
    return 'exec'
  if 'PhaseExecutorThread' in n:
    return 'phase'
  if n == 'vf-main' or (n == 'MainThread' and _LAB.get('real_main')):
    return 'main'
  if 'PlugTearDownThread' in n:
    return 'plugtd'
  if n == 'vf-abort':
    return 'abort'
  return None


def lab():
  if 'engine' not in _LAB:
    H = pm.htf()
    from openhtf import plugs as plugs_mod
    from openhtf.core import (phase_executor, test_descriptor, test_executor,
                              test_state)
    from openhtf.util import threads
    files = [m.__file__ for m in (test_executor, phase_executor, threads,
                                  test_state, plugs_mod, test_descriptor)]
    eng = pause.Engine(files, role)
    eng.install()
    eng.enabled = False
    _LAB.update(engine=eng, files=files, H=H, td=test_descriptor)
  return _LAB


def teardown_phase_ids(prog):
  """Phases that sit (recursively) inside some group's teardown sequence."""
  out = set()
  for n, path in pm.walk(prog):
    if n[0] == 'P' and any(p == 'Gteardown' for p in path[::2]):
      out.add(n[1])
  return out


def stacks():
  frames = sys._current_frames()  # pylint: disable=protected-access
  out = {}
  for th in threading.enumerate():
    if role(th) or th.name.startswith('vf-'):
      f = frames.get(th.ident)
      if f is not None:
        out[th.name] = [(fs.name, fs.lineno) for fs in
                        traceback.extract_stack(f)[-6:]]
  return out


def _cleanup_abort(t):
  """Ends a run that nothing else will end; never blocks the caller (the
  Test's lock may be held by a deliberately deadlocked thread)."""
  def go():
    try:
      t.abort_from_sig_int()
      t.abort_from_sig_int()
    except Exception:  # pylint: disable=broad-except
      pass
  th = threading.Thread(target=go, name='vf-cleanup', daemon=True)
  th.start()
  th.join(3.0)


CURRENT = {}


def run(prog, cfg, target=None, action='abort', second=None, inline=False,
        yield_seed=None, yield_prob=0.3, abort_after_event=None,
        abort_in_thread=False, wait_s=6.0, join_s=25.0, real_sigint=False, late_cleanup_s=8.0):
  """Runs one scenario.

  target: ((role, qualname, line), hit) pause point or None.
  action: 'abort' | 'sigint' | None  (performed when the pause point fires; with
          inline=True the SIGINT *handler* is called inside the paused thread).
  second: None | ((role, qualname, line), hit) second pause point for a second
          abort, counted from the completion of the first action;
          or 'after_teardown_start' to abort again once a teardown body started.
  abort_after_event: (kind, pid) -> abort as soon as that event is logged
          (no pause point; used with yield injection / discovery of windows).
  abort_in_thread: with abort_after_event, the abort is performed by a thread
          of role 'abort' which can itself be the paused thread (target role
          'abort'): the aborting thread is then held at that line for 150 ms
          while the framework threads run on.
  """
  L = lab()
  eng, H, td = L['engine'], L['H'], L['td']
  td.Test.HANDLED_SIGINT_ONCE = False
  # (an earlier, deliberately hung schedule may have been abandoned inside the
  # SIGINT handler: in a real process that is the end, here the next case must
  # not look like a SIGINT nested in that handler)
  for flag in ('_HANDLING_SIGINT', '_SIGINT_PENDING'):
    if hasattr(td.Test, flag):
      setattr(td.Test, flag, False)
  # Every case starts from a clean process-level registry (a test left behind
  # by an earlier, deliberately hung schedule must not receive this abort).
  for k in list(td.Test.TEST_INSTANCES.keys()):
    td.Test.TEST_INSTANCES.pop(k, None)
  b = pm.Built(prog, cfg)
  t = b.test
  log = b.log
  CURRENT['log'] = log
  recs = []
  t.add_output_callbacks(lambda r: (log.add('callback', r.outcome.name
                                            if r.outcome else None,
                                            len(r.log_records)),
                                    recs.append(r)))
  result = {}

  conf = {}
  if cfg.get('cancel_timeout_s') is not None:
    conf['cancel_timeout_s'] = cfg['cancel_timeout_s']

  @pm._H['CONF'].save_and_restore(**conf)  # pylint: disable=protected-access
  def go():
    return t.execute(test_start=b.start)

  def main():
    try:
      result['ret'] = go()
    except KeyboardInterrupt:
      result['kbi'] = True
    except BaseException as e:  # pylint: disable=broad-except
      result['exc'] = '%s: %s' % (type(e).__name__, str(e)[:200])
    finally:
      log.add('execute_returned')

  def do_abort(tag='abort'):
    log.add(tag + '_call')
    try:
      t.abort_from_sig_int()
    finally:
      log.add(tag + '_ret')

  def inline_handler():
    # the SIGINT handler runs on the paused (main) thread at this very line
    log.add('abort_call')
    try:
      td.Test.handle_sig_int(signal.SIGINT, None)
    finally:
      log.add('abort_ret')

  crashes = []
  old_hook = threading.excepthook

  def hook(a):
    if a.exc_type.__name__ in ('ThreadTerminationError', 'SystemExit'):
      return
    crashes.append((a.exc_type.__name__,
                    traceback.extract_tb(a.exc_traceback)[-1].name,
                    getattr(a.thread, 'name', '?')))

  threading.excepthook = hook
  info = {'reached': False, 'blocked': False, 'second_reached': False}
  CURRENT['info'] = info
  eng.arm(target, yield_seed=yield_seed,
          yield_prob=yield_prob if yield_seed is not None else 0.0)
  if inline and target is not None:
    eng.inline_action = inline_handler
  else:
    eng.inline_action = None
  eng.enabled = True
  L['real_main'] = bool(real_sigint)
  old_sig = None
  if real_sigint:
    def wrapped(signum, frame):
      f = frame
      while f is not None:
        if (f.f_code.co_name == 'execute' and
            f.f_code.co_filename.endswith('test_descriptor.py')):
          info.setdefault('sigint_lines', []).append(f.f_lineno)
          break
        f = f.f_back
      log.add('abort_call' if not any(e[2] == 'abort_call' for e in log.events)
              else 'abort2_call')
      tag = 'abort_ret' if not any(e[2] == 'abort_ret' for e in log.events) \
          else 'abort2_ret'
      try:
        td.Test.handle_sig_int(signum, frame)
      finally:
        log.add(tag)
    old_sig = signal.signal(signal.SIGINT, wrapped)

    def sigint_action(tag='abort'):
      info['sigint_sent'] = info.get('sigint_sent', 0) + 1
      n = sum(1 for e in log.events if e[2].endswith('_ret') and
              e[2].startswith('abort'))
      # deliver to the main thread, as the kernel does for a terminal Ctrl-C
      ncalls = sum(1 for e in log.events if e[2].endswith('_call') and
                   e[2].startswith('abort'))
      signal.pthread_kill(threading.main_thread().ident, signal.SIGINT)
      t_start = time.monotonic()
      resent = 0
      while time.monotonic() - t_start < 4.0:
        if sum(1 for e in log.events if e[2].endswith('_ret') and
               e[2].startswith('abort')) > n:
          return True
        started = sum(1 for e in log.events if e[2].endswith('_call') and
                      e[2].startswith('abort')) > ncalls
        if (not started and resent < 3 and
            time.monotonic() - t_start > 0.8 * (resent + 1)):
          # CPython can miss a signal that lands just before the main thread
          # blocks in a lock wait (the C handler ran, the wait is not
          # interrupted): the operator would press Ctrl-C again.
          resent += 1
          info['sigint_resent'] = resent
          signal.pthread_kill(threading.main_thread().ident, signal.SIGINT)
        time.sleep(0.0005)
      return False

    do_abort = lambda tag='abort': sigint_action(tag)  # noqa: E731
  hang = None
  ctrl_done = threading.Event()

  def controller(mt_alive):
    try:
      _controller(mt_alive)
    finally:
      ctrl_done.set()

  def _controller(mt_alive):
    if abort_in_thread and abort_after_event is not None:
      t_end = time.monotonic() + wait_s
      kind, pid = abort_after_event
      hit = False
      while time.monotonic() < t_end and mt_alive() and not hit:
        hit = any(e[2] == kind and e[3] == pid for e in list(log.events))
        if not hit:
          time.sleep(0.0005)
      if not hit:
        return
      at = threading.Thread(target=do_abort, name='vf-abort', daemon=True)
      at.start()
      if target is not None:
        act = eng.run_action_at_pause(lambda: time.sleep(0.15), wait_s=wait_s,
                                      hold_s=0.3)
        info['reached'] = act['reached']
      else:
        info['reached'] = True
      at.join(join_s)
      info['abort_thread_alive'] = at.is_alive()
    elif target is not None and action == 'hold':
      # no operator action: the framework thread is merely held for a while
      act = eng.run_action_at_pause(lambda: time.sleep(0.15), wait_s=wait_s,
                                    hold_s=0.3)
      info['reached'] = act['reached']
    elif target is not None and not inline and action:
      act = eng.run_action_at_pause(do_abort, wait_s=wait_s, hold_s=0.25)
      info['reached'], info['blocked'] = act['reached'], act['blocked']
      if act.get('_done'):
        act['_done'].wait(join_s)
      if not act['reached'] and mt_alive():
        # the point was not reached; make sure a body that only ends by an
        # abort does not keep the run alive (not judged: no abort_call event)
        log.add('cleanup_abort')
        _cleanup_abort(t)
      if second is not None and act['reached']:
        if second == 'after_teardown_start':
          tds = teardown_phase_ids(prog)
          t_end = time.monotonic() + wait_s
          seen = False
          while time.monotonic() < t_end and not seen and mt_alive():
            seen = any(e[2] == 'start' and e[3] in tds
                       for e in list(log.events))
            time.sleep(0.001)
          if seen:
            info['second_reached'] = True
            do_abort('abort2')
        else:
          eng.arm(second)
          act2 = eng.run_action_at_pause(lambda: do_abort('abort2'),
                                         wait_s=wait_s, hold_s=0.25)
          info['second_reached'] = act2['reached']
          info['second_blocked'] = act2['blocked']
          if act2.get('_done'):
            act2['_done'].wait(join_s)
    elif target is not None and inline:
      info['reached'] = bool(eng.paused.wait(wait_s) or eng.fired)
    elif abort_after_event is not None:
      t_end = time.monotonic() + wait_s
      kind, pid = abort_after_event
      while time.monotonic() < t_end and mt_alive():
        if any(e[2] == kind and e[3] == pid for e in list(log.events)):
          info['reached'] = True
          do_abort()
          break
        time.sleep(0.0005)

  try:
    if real_sigint:
      alive = [True]
      ct = threading.Thread(target=controller, args=(lambda: alive[0],),
                            name='vf-ctrl', daemon=True)
      ct.start()
      main()
      alive[0] = False
      for _ in range(4):
        try:
          ctrl_done.wait(join_s)
          break
        except KeyboardInterrupt:
          # a (re-sent) SIGINT whose Python handler only ran after execute() had
          # returned: no test is registered any more, the default handler
          # raised here, in the harness.  The schedule was not realized.
          info['sigint_after_execute_returned'] = True
      mt = None
    else:
      mt = threading.Thread(target=main, name='vf-main', daemon=True)
      mt.start()
      controller(mt.is_alive)
      mt.join(late_cleanup_s)
      if mt.is_alive():
        # e.g. the abort was not one of a running test and a body only ends
        # when it is killed: end the run (events after this are not judged)
        log.add('cleanup_abort')
        _cleanup_abort(t)
        mt.join(join_s)
    if mt is not None and mt.is_alive():
      s1 = stacks()
      time.sleep(1.0)
      s2 = stacks()
      blocked_fns = ('_wait_for_tstate_lock', 'wait', 'join', 'acquire',
                     '__enter__', 'abort_from_sig_int', 'get', '_on_line',
                     'vjoin')
      all_blocked = all(st and st[-1][0] in blocked_fns
                        for name, st in s2.items()
                        if name not in ('vf-watchdog', 'vf-ctrl', 'vf-action',
                                        'vf-abort'))
      hang = {'same_stacks': s1 == s2 and all_blocked, 'stacks': s2}
      eng.release()
  finally:
    b.release.set()      # unkillable ('HU') bodies return now
    if old_sig is not None:
      signal.signal(signal.SIGINT, old_sig)
    L['real_main'] = False
    eng.release()
    eng.enabled = False
    eng.inline_action = None
    threading.excepthook = old_hook
    pm.prune_handlers()
  post = {'executor_set': t._executor is not None,  # pylint: disable=protected-access
          'registered': any(v is t for v in list(td.Test.TEST_INSTANCES.values()))}
  obs = {'events': list(log.events), 'result': result, 'crash': crashes,
         'post': post,
         'recs': recs, 'info': info, 'hang': hang, 'seen': dict(eng.seen),
         'yields': eng.yields, 'built': b}
  if recs:
    obs.update(pm.observe_record(recs[0]))
  return obs
