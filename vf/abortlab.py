"""E2 over whole Test runs: pause a framework thread at a chosen line, perform
an operator action (abort, second abort, real SIGINT, handler on the main
thread) and observe the run through the E1 event log.
"""
import os
import signal
import sys
import threading
import time
import traceback

from vf import pause
from vf import progmodel as pm

_LAB = {}


def role(th):
  n = th.name
  if n.startswith('TestExecutorThread'):
    return 'exec'
  if 'PhaseExecutorThread' in n:
    return 'phase'
  if n == 'vf-main':
    return 'main'
  if 'PlugTearDownThread' in n:
    return 'plugtd'
  return None


def lab():
  if 'engine' not in _LAB:
    H = pm.htf()
    from openhtf import plugs as plugs_mod
    from openhtf.core import (phase_executor, test_descriptor, test_executor,
                              test_state)
    from openhtf.util import threads
    files = [m.__file__ for m in (test_executor, phase_executor, threads,
                                  test_state, plugs_mod, test_descriptor)]
    eng = pause.Engine(files, role)
    eng.install()
    eng.enabled = False
    _LAB.update(engine=eng, files=files, H=H, td=test_descriptor)
  return _LAB


def teardown_phase_ids(prog):
  """Phases that sit (recursively) inside some group's teardown sequence."""
  out = set()
  for n, path in pm.walk(prog):
    if n[0] == 'P' and any(p == 'Gteardown' for p in path[::2]):
      out.add(n[1])
  return out


def stacks():
  frames = sys._current_frames()  # pylint: disable=protected-access
  out = {}
  for th in threading.enumerate():
    if role(th) or th.name.startswith('vf-'):
      f = frames.get(th.ident)
      if f is not None:
        out[th.name] = [(fs.name, fs.lineno) for fs in
                        traceback.extract_stack(f)[-6:]]
  return out


def run(prog, cfg, target=None, action='abort', second=None, inline=False,
        yield_seed=None, yield_prob=0.3, abort_after_event=None,
        wait_s=6.0, join_s=25.0):
  """Runs one scenario.

  target: ((role, qualname, line), hit) pause point or None.
  action: 'abort' | 'sigint' | None  (performed when the pause point fires; with
          inline=True the SIGINT *handler* is called inside the paused thread).
  second: None | ((role, qualname, line), hit) second pause point for a second
          abort, counted from the completion of the first action;
          or 'after_teardown_start' to abort again once a teardown body started.
  abort_after_event: (kind, pid) -> abort as soon as that event is logged
          (no pause point; used with yield injection / discovery of windows).
  """
  L = lab()
  eng, H, td = L['engine'], L['H'], L['td']
  td.Test.HANDLED_SIGINT_ONCE = False
  b = pm.Built(prog, cfg)
  t = b.test
  log = b.log
  recs = []
  t.add_output_callbacks(lambda r: (log.add('callback', r.outcome.name
                                            if r.outcome else None),
                                    recs.append(r)))
  result = {}

  def main():
    try:
      result['ret'] = t.execute(test_start=b.start)
    except KeyboardInterrupt:
      result['kbi'] = True
    except BaseException as e:  # pylint: disable=broad-except
      result['exc'] = '%s: %s' % (type(e).__name__, str(e)[:200])
    finally:
      log.add('execute_returned')

  def do_abort(tag='abort'):
    log.add(tag + '_call')
    try:
      t.abort_from_sig_int()
    finally:
      log.add(tag + '_ret')

  def inline_handler():
    # the SIGINT handler runs on the paused (main) thread at this very line
    log.add('abort_call')
    try:
      td.Test.handle_sig_int(signal.SIGINT, None)
    finally:
      log.add('abort_ret')

  crashes = []
  old_hook = threading.excepthook

  def hook(a):
    if a.exc_type.__name__ in ('ThreadTerminationError', 'SystemExit'):
      return
    crashes.append((a.exc_type.__name__,
                    traceback.extract_tb(a.exc_traceback)[-1].name,
                    getattr(a.thread, 'name', '?')))

  threading.excepthook = hook
  info = {'reached': False, 'blocked': False, 'second_reached': False}
  eng.arm(target, yield_seed=yield_seed,
          yield_prob=yield_prob if yield_seed is not None else 0.0)
  if inline and target is not None:
    eng.inline_action = inline_handler
  else:
    eng.inline_action = None
  eng.enabled = True
  mt = threading.Thread(target=main, name='vf-main', daemon=True)
  try:
    mt.start()
    if target is not None and not inline and action:
      act = eng.run_action_at_pause(do_abort, wait_s=wait_s, hold_s=0.25)
      info['reached'], info['blocked'] = act['reached'], act['blocked']
      if act.get('_done'):
        act['_done'].wait(join_s)
      if second is not None and act['reached']:
        if second == 'after_teardown_start':
          tds = teardown_phase_ids(prog)
          t_end = time.monotonic() + wait_s
          seen = False
          while time.monotonic() < t_end and not seen and mt.is_alive():
            seen = any(e[2] == 'start' and e[3] in tds for e in list(log.events))
            time.sleep(0.001)
          if seen:
            info['second_reached'] = True
            do_abort('abort2')
        else:
          eng.arm(second)
          act2 = eng.run_action_at_pause(lambda: do_abort('abort2'),
                                         wait_s=wait_s, hold_s=0.25)
          info['second_reached'] = act2['reached']
          info['second_blocked'] = act2['blocked']
          if act2.get('_done'):
            act2['_done'].wait(join_s)
    elif target is not None and inline:
      info['reached'] = eng.paused.wait(wait_s) or eng.fired
    elif abort_after_event is not None:
      t_end = time.monotonic() + wait_s
      kind, pid = abort_after_event
      while time.monotonic() < t_end and mt.is_alive():
        if any(e[2] == kind and e[3] == pid for e in list(log.events)):
          info['reached'] = True
          do_abort()
          break
        time.sleep(0.0005)
    mt.join(join_s)
    hang = None
    if mt.is_alive():
      s1 = stacks()
      time.sleep(1.0)
      s2 = stacks()
      hang = {'same_stacks': s1 == s2, 'stacks': s2}
      eng.release()
  finally:
    eng.release()
    eng.enabled = False
    eng.inline_action = None
    threading.excepthook = old_hook
    pm.prune_handlers()
  obs = {'events': list(log.events), 'result': result, 'crash': crashes,
         'recs': recs, 'info': info, 'hang': hang, 'seen': dict(eng.seen),
         'yields': eng.yields, 'built': b}
  if recs:
    obs.update(pm.observe_record(recs[0]))
  return obs
