"""Table behind MANIFEST.json (tools/gen_manifest.py writes the file)."""

SETUP_CMD = ('/venv/bin/python -c "import sys; assert sys.version_info >= (3, 12), sys.version; '
             'import attr, yaml, colorama" && command -v strace >/dev/null && '
             'PYTHONPATH=/repo /venv/bin/python -c "import openhtf; print(openhtf.__file__)"')

HOOKS = {
    'guard': 'OPENHTF_VERIF',
    'enable': ('no source hooks exist: checks import the unmodified working tree '
               '(PYTHONPATH=/repo) in fresh worker processes and observe it from '
               'outside (generated phases/plugs/callbacks, fake transports, '
               'sys.monitoring line events); OPENHTF_VERIF=1 is exported to workers '
               'but nothing in /repo reads it'),
    'baseline_off_cmd': '/verif/tools/baseline.sh',
    'source_commits': [],
    'add_only': True,
}

ENGINES = [
    {'name': 'vf', 'path': 'vf/harness.py',
     'serves_properties': ['C07', 'C13', 'C15', 'C16', 'C20'],
     'kind_free_text': ('runtime monitoring driver: 16 worker processes import the real '
                        'openhtf from /repo, run enumerated + seeded cases, monitors '
                        'decide each property from observed events; witnesses are '
                        'classified by mechanism against known_findings.json')},
]

NOTES = ('Technique family: runtime monitoring (see DESIGN.md). Exit codes: 0 held, '
         '1 violated (VIOLATION line + replay file), 2 inconclusive (a deciding '
         'monitor observed nothing or a worker died).')

CHECKS = {
    'C07': {
        'level': 'exploration',
        'technique': 'runtime oracle monitoring: exact-rational reference validator vs real validators over an exhaustive limit x probe pool plus seeded floats',
        'text': ('every validator built from a finite pool of limit tuples (ints, floats, bools, '
                 'typed numeric strings, +-inf, huge ints) is probed with every bound, its float '
                 'neighbours, +-0.0, +-inf, NaN, None, +-10**400, bools and strings; verdicts, '
                 'marginal verdicts, constructor verdicts and derived validators (deepcopy, '
                 'with_args, templates, registry) are compared with an exact Fraction oracle; '
                 'the pool product is run completely and seeded random float tuples extend it'),
        'note': ('trusts the oracle in vf/props/c07.py (written from the property statement); '
                 'exceptions on non-numeric probes are treated as "not accepted"; percent limits '
                 'have a 4-ulp don\'t-care band'),
    },
    'C20': {
        'level': 'exploration',
        'technique': 'runtime model-based monitoring: reference dictionary model vs real _Configuration after every operation of enumerated and seeded operation sequences',
        'text': ('all operation sequences of length <= 3 (quick) / <= 4 (thorough) over a 21-operation '
                 'alphabet (declare, redeclare, load*, _override, _allow_undeclared, files, flags, reset, '
                 'save_and_restore plain/with values/raising/nested, attribute assignment) plus seeded '
                 'sequences of length <= 30 are applied to a fresh real _Configuration; after every '
                 'operation all six read APIs are compared with the model for every key, and the '
                 'metadata[\'config\'] snapshot of a real Test run is compared with item reads'),
        'note': ('trusts the 60-line reference model in vf/props/c20.py; key universe of four valid '
                 'lower-case keys; flags injected through load_flag_values(Namespace)'),
    },
    'C13': {
        'level': 'fault_enumeration',
        'technique': 'runtime monitoring with fault injection: recording fake USB transport, exhaustive single-field/bit/truncation corruption of frames, sys.monitoring pause-point schedules of two writers/readers, yield-injection stress',
        'text': ('all 7 commands x edge arguments x payload sizes {0,1,2,maxdata-1,maxdata} are written through '
                 'the real AdbTransportAdapter into a recording transport and compared with an independently '
                 'packed header, then read back; every single-field replacement, each of the 192 header bit '
                 'flips, every header truncation 0..23 and payload truncation/extension/byte change of several '
                 'frames must be rejected unless the corrupted frame is still self-consistent; a writer/reader '
                 'is paused at every reached line of write_message/read_message while a second one performs a '
                 'full call (chunk log / returned messages must not interleave); time-outs expiring between '
                 'header and payload must still move the payload'),
        'note': ('preemption bound 1 over the lines reached, plus seeded yield injection; payloads are latin-1 str; '
                 'trusts the fake transport in vf/props/c13.py'),
    },
    'C16': {
        'level': 'exploration',
        'technique': 'runtime protocol-automaton monitoring: scripted fake bootloader records packets; returns/exceptions/callbacks of the real FastbootCommands compared with a reference automaton over all response sequences',
        'text': ('every FastbootCommands method is driven against a scripted fake bootloader with all response '
                 'sequences of length <= 4 (quick) / <= 5 (thorough) over {INFO, OKAY, DATA(size), DATA(other), '
                 'FAIL, garbage}; downloads use image sizes {0,1,c-1,c,c+1,2c-1,2c,2c+1,3c+5} from a file name, '
                 'a file object with and without length, with recording and raising progress callbacks; packets, '
                 'image bytes, chunk sizes, progress, INFO forwarding, number of reads, return values and '
                 'exception classes/text are compared with the automaton'),
        'note': ('trusts the 40-line automaton in vf/props/c16.py; FastbootDevice retry wrapper and erase() return '
                 'value are not claimed'),
    },
    'C15': {
        'level': 'exploration',
        'technique': 'runtime protocol-automaton monitoring: scripted fake ADB device; handshake automaton over all reply sequences; sequential reference model of the stream multiplexer over open/read/write/close histories',
        'text': ('connect() is run against every device reply sequence of length <= 4 (quick) / <= 6 (thorough) over '
                 '{CNXN, malformed CNXN, AUTH token, AUTH 2, AUTH 3, noise OKAY, noise WRTE, silence} with 0-2 recording '
                 'signers: the messages the fake device received and the returned connection / error class are compared '
                 'with the handshake automaton; single-threaded stream histories (exhaustive over a 10-operation alphabet '
                 'to length 3/4, directed id-exhaustion / wrap-around / 64-probe / drain / illegal-packet histories, seeded '
                 'random ones) are compared call by call with a sequential model, plus the multiset of host messages by '
                 '(command, local id, remote id) and id distinctness/range with STREAM_ID_LIMIT 8, 70 and the real limit'),
        'note': ('trusts the automaton and the sequential multiplexer model in vf/props/c15.py; silence is modelled as the '
                 'transport\'s USB time-out; multi-threaded use of a connection is C14'),
    },
}
