"""Table behind MANIFEST.json (tools/gen_manifest.py writes the file)."""

SETUP_CMD = ('/venv/bin/python -c "import sys; assert sys.version_info >= (3, 12), sys.version; '
             'import attr, yaml, colorama" && command -v strace >/dev/null && '
             'PYTHONPATH=/repo /venv/bin/python -c "import openhtf; print(openhtf.__file__)"')

HOOKS = {
    'guard': 'OPENHTF_VERIF',
    'enable': ('no source hooks exist: checks import the unmodified working tree '
               '(PYTHONPATH=/repo) in fresh worker processes and observe it from '
               'outside (generated phases/plugs/callbacks, fake transports, '
               'sys.monitoring line events); OPENHTF_VERIF=1 is exported to workers '
               'but nothing in /repo reads it'),
    'baseline_off_cmd': '/verif/tools/baseline.sh',
    'source_commits': [],
    'add_only': True,
}

ENGINES = [
    {'name': 'vf', 'path': 'vf/harness.py',
     'serves_properties': ['C01', 'C02', 'C03', 'C04', 'C05', 'C06', 'C10', 'C07', 'C08', 'C09', 'C11', 'C12', 'C13', 'C14', 'C15', 'C16', 'C17', 'C18', 'C19', 'C20'],
     'kind_free_text': ('runtime monitoring driver: 16 worker processes import the real '
                        'openhtf from /repo, run enumerated + seeded cases, monitors '
                        'decide each property from observed events; witnesses are '
                        'classified by mechanism against known_findings.json')},
]

NOTES = ('Technique family: runtime monitoring (see DESIGN.md). Exit codes: 0 held, '
         '1 violated (VIOLATION line + replay file), 2 inconclusive (a deciding '
         'monitor observed nothing or a worker died).')

CHECKS = {
    'C07': {
        'level': 'exploration',
        'technique': 'runtime oracle monitoring: exact-rational reference validator vs real validators over an exhaustive limit x probe pool plus seeded floats',
        'text': ('every validator built from a finite pool of limit tuples (ints, floats, bools, '
                 'typed numeric strings, +-inf, huge ints) is probed with every bound, its float '
                 'neighbours, +-0.0, +-inf, NaN, None, +-10**400, bools and strings; verdicts, '
                 'marginal verdicts, constructor verdicts and derived validators (deepcopy, '
                 'with_args, templates, registry) are compared with an exact Fraction oracle; '
                 'the pool product is run completely and seeded random float tuples extend it'),
        'note': ('trusts the oracle in vf/props/c07.py (written from the property statement); '
                 'exceptions on non-numeric probes are treated as "not accepted"; percent limits '
                 'have a 4-ulp don\'t-care band'),
    },
    'C20': {
        'level': 'exploration',
        'technique': 'runtime model-based monitoring: reference dictionary model vs real _Configuration after every operation of enumerated and seeded operation sequences',
        'text': ('all operation sequences of length <= 3 (quick) / <= 4 (thorough) over a 21-operation '
                 'alphabet (declare, redeclare, load*, _override, _allow_undeclared, files, flags, reset, '
                 'save_and_restore plain/with values/raising/nested, attribute assignment) plus seeded '
                 'sequences of length <= 30 are applied to a fresh real _Configuration; after every '
                 'operation all six read APIs are compared with the model for every key, and the '
                 'metadata[\'config\'] snapshot of a real Test run is compared with item reads'),
        'note': ('trusts the 60-line reference model in vf/props/c20.py; key universe of four valid '
                 'lower-case keys; flags injected through load_flag_values(Namespace)'),
    },
    'C13': {
        'level': 'fault_enumeration',
        'technique': 'runtime monitoring with fault injection: recording fake USB transport, exhaustive single-field/bit/truncation corruption of frames, sys.monitoring pause-point schedules of two writers/readers, yield-injection stress',
        'text': ('all 7 commands x edge arguments x payload sizes {0,1,2,maxdata-1,maxdata} are written through '
                 'the real AdbTransportAdapter into a recording transport and compared with an independently '
                 'packed header, then read back; every single-field replacement, each of the 192 header bit '
                 'flips, every header truncation 0..23 and payload truncation/extension/byte change of several '
                 'frames must be rejected unless the corrupted frame is still self-consistent; a writer/reader '
                 'is paused at every reached line of write_message/read_message while a second one performs a '
                 'full call (chunk log / returned messages must not interleave); time-outs expiring between '
                 'header and payload must still move the payload'),
        'note': ('preemption bound 1 over the lines reached, plus seeded yield injection; payloads are latin-1 str; '
                 'trusts the fake transport in vf/props/c13.py'),
    },
    'C16': {
        'level': 'exploration',
        'technique': 'runtime protocol-automaton monitoring: scripted fake bootloader records packets; returns/exceptions/callbacks of the real FastbootCommands compared with a reference automaton over all response sequences',
        'text': ('every FastbootCommands method is driven against a scripted fake bootloader with all response '
                 'sequences of length <= 4 (quick) / <= 5 (thorough) over {INFO, OKAY, DATA(size), DATA(other), '
                 'FAIL, garbage}; downloads use image sizes {0,1,c-1,c,c+1,2c-1,2c,2c+1,3c+5} from a file name, '
                 'a file object with and without length, with recording and raising progress callbacks; packets, '
                 'image bytes, chunk sizes, progress, INFO forwarding, number of reads, return values and '
                 'exception classes/text are compared with the automaton'),
        'note': ('trusts the 40-line automaton in vf/props/c16.py; FastbootDevice retry wrapper and erase() return '
                 'value are not claimed'),
    },
    'C15': {
        'level': 'exploration',
        'technique': 'runtime protocol-automaton monitoring: scripted fake ADB device; handshake automaton over all reply sequences; sequential reference model of the stream multiplexer over open/read/write/close histories',
        'text': ('connect() is run against every device reply sequence of length <= 4 (quick) / <= 6 (thorough) over '
                 '{CNXN, malformed CNXN, AUTH token, AUTH 2, AUTH 3, noise OKAY, noise WRTE, silence} with 0-2 recording '
                 'signers: the messages the fake device received and the returned connection / error class are compared '
                 'with the handshake automaton; single-threaded stream histories (exhaustive over a 10-operation alphabet '
                 'to length 3/4, directed id-exhaustion / wrap-around / 64-probe / drain / illegal-packet histories, seeded '
                 'random ones) are compared call by call with a sequential model, plus the multiset of host messages by '
                 '(command, local id, remote id) and id distinctness/range with STREAM_ID_LIMIT 8, 70 and the real limit'),
        'note': ('trusts the automaton and the sequential multiplexer model in vf/props/c15.py; silence is modelled as the '
                 'transport\'s USB time-out; multi-threaded use of a connection is C14'),
    },
    'C01': {
        'level': 'exploration',
        'technique': 'runtime monitoring of real runs: PASS-implication oracle over the observed call log/records/escaped exceptions, plus differential outcome oracle (reference interpreter) over enumerated programs x settings',
        'text': ('every node tree with <= 3 (quick) / <= 4 (thorough) nodes over the full reduced alphabet is built from real '
                 'openhtf objects and executed under a settings tuple derived from its index (both stop_on_first_failure '
                 'switches, allow_unset_measurements, failure_exceptions exact/superclass, test diagnosers, test_start) and, '
                 'for every fourth, default settings; directed programs cover executor failures, repeated attempts, all-skip, '
                 'vacuous and unset cases; seeded random rich programs x random settings extend it; a PASS is judged on the '
                 'observation alone (all declared phases ran or are excused by observed branch records/run_if, no FAIL/ERROR '
                 'record, no failed or disallowed-unset measurement, no failure diagnosis or failed subtest, not all SKIP, no '
                 'exception escaped the executor thread) and every outcome is compared with the reference interpreter'),
        'note': ('known finding F3 (non-final attempt of a repeated phase is terminal, final attempt passes -> PASS) is keyed by '
                 'mechanism in known_findings.json; ABORTED is C04; time-outs use the virtual clock'),
    },
    'C02': {
        'level': 'exploration',
        'technique': 'runtime differential monitoring: generated phase bodies log invocations; call log and phase/subtest/branch/checkpoint records of real runs compared with a reference interpreter of docs/event_sequence.md over exhaustively enumerated node trees',
        'text': ('all node trees with <= 3 nodes (full alphabet: 12 phase kinds, 8 checkpoint kinds, 2 branch conditions) and '
                 '<= 3 nodes (small alphabet) in the quick tier, <= 4 in the thorough tier (containers count as nodes), plus '
                 'directed nestings and seeded random rich trees of depth <= 3, are executed for real; bodies that execute, '
                 'their order and multiplicity, and all four record lists, diagnoses and diagnoser call counts must equal the '
                 'reference interpreter'),
        'note': ('trusts vf/progmodel.Model (written from docs/event_sequence.md; doc-silent rules r1-r12 pinned to observed '
                 'behaviour and listed in DESIGN.md); default settings only'),
    },
    'C05': {
        'level': 'exploration',
        'technique': 'runtime monitoring of real runs: counting predicates on invocation/record/diagnoser events plus per-record comparison with the documented outcome function',
        'text': ('one phase under test at five positions x per-invocation behaviour sequences (all of length <= 2 over ten result '
                 'codes plus selected longer ones) x repeat_limit x six repeat/stop options enumerated completely, measurement x '
                 'diagnoser x option and run_if products at selected positions, and seeded samples of the full product; checked: '
                 'one record per invocation, at most repeat_limit invocations, every re-invocation has a documented cause, a '
                 'false/raising run_if means no invocation and no record, every diagnoser ran once per eligible invocation, and '
                 'each record equals the documented function of what the invocation did'),
        'note': 'expected records come from vf/progmodel.Model.once; time-outs use the virtual clock',
    },
    'C08': {
        'level': 'fault_enumeration',
        'technique': 'runtime trace monitoring with fault injection: instrumented plug classes and phase bodies log constructor/tearDown/injection events; trace predicates over the event log under enumerated constructor/tearDown faults',
        'text': ('ten directed programs (plugs on test_start, in groups, under subtests/branches, with raising/timed-out/'
                 'stopping phases) are run under every single-plug fault (constructor raises, tearDown raises, tearDown hangs '
                 'killably / unkillably with a 50 ms plug_teardown_timeout_s) and every ordered pair of selected faults; seeded '
                 'random programs x plug assignments x fault maps extend it; predicates: at most one construction per class, '
                 'every phase received the run\'s instance under the requested name, every constructed instance torn down exactly '
                 'once after the last phase/diagnoser event and before the callbacks, faults in tearDown change neither outcome '
                 'nor the phases run nor other plugs\' tearDown, a constructor failure gives ERROR with no further phase, only '
                 'test_start\'s plugs exist while test_start runs'),
        'note': 'outcome/phase expectations come from the reference interpreter; abort timing is covered by C04',
    },
    'C09': {
        'level': 'exploration',
        'technique': 'runtime monitoring: recording (and raising) output callbacks plus post-return probes of Test.state, TEST_INSTANCES and the openhtf logger over exit paths and execute() histories; two execute() calls racing on one Test with the first held at each line (sys.monitoring); one abort at every line reached by the abort program family',
        'text': ('19 exit-path programs (vacuous, all-skip, exception, STOP, time-out, terminal test_start, plug constructor '
                 'failure, executor failure, ...) x 6 histories (single, twice, thrice, overlapping execute() from a phase body and '
                 'from a second thread, execute after an aborted run) x 1-4 callbacks x raising subsets, plus seeded random '
                 'programs/settings; judged: every callback called exactly once in registration order with the same finalized '
                 'record, record and phase-record completeness and time ordering, dut_id default, metadata test name and per-run '
                 'config snapshot, return value, and after return no executor, no SIGINT registration, no RecordHandler left, '
                 're-execution works, overlapping execute() refused without disturbing the running test'),
        'note': 'raising callbacks raise Exception subclasses; KeyboardInterrupt paths belong to C04',
    },
    'C03': {
        'level': 'exploration',
        'technique': 'runtime trace monitoring: per-group predicates over the body event log and recorded setup results; workloads = enumerated behaviour assignments on nesting skeletons, seeded group-rich programs, and sys.monitoring pause-point schedules with one operator abort (a framework thread held while the abort completes, and the aborting thread held at each line of its own path)',
        'text': ('(a) six nesting skeletons (group in sequence / subtest / branch / group main / group teardown / subtest in '
                 'main) with every single and (sampled in quick, all in thorough) pair of non-default behaviours over their '
                 'phases, plus seeded random group-rich programs, run for real (time-outs under the virtual clock); (b) eight '
                 'group programs with cooperative slow bodies are run once per reached (thread role, function, line, hit) with '
                 'that thread paused while a controller performs one complete abort (quick: 40 seeded points per program, '
                 'thorough: every point, hits <= 4); per group instance: entered iff all setup results recorded non-terminal; '
                 'entered => every teardown phase executed exactly once, after main stopped, before any following node and '
                 'before plug tearDown, not killed by a single abort, terminal teardown results propagate; not entered / not '
                 'reached => no main or teardown body ran'),
        'note': ('preemption bound 1 over reached lines; groups in a teardown sequence under an already failed subtest are '
                 'don\'t-care; trusts vf/grouporacle.py'),
    },
    'C04': {
        'level': 'exploration',
        'technique': 'runtime trace monitoring under controlled schedules: sys.monitoring pause points over the executor/phase/main threads with operator actions (abort call, real SIGINT in a child process, SIGINT handler on the main thread at a line of execute(), second abort; the aborting thread itself held at each line of its path; every reached line covered by one simple abort), plus yield-injection stress',
        'text': ('ten programs (test_start, nested groups, subtests, repeats, failing main/teardown, branches, a body that only '
                 'ends when killed, long teardowns, plugs) are run once per sampled (quick) or every (thorough, hits <= 3) '
                 'reached (thread role, function, line, hit) with that thread paused while the action completes; trace '
                 'predicates: execute() returns or re-raises KeyboardInterrupt (stack-sampled deadlock witness otherwise), no '
                 'test_start/setup/main body starts after the abort call returned, nothing starts after a second abort or after '
                 'finalization, entered groups\' teardown and every plug tearDown run exactly once, outcome ABORTED when the '
                 'abort returned before plug tearDown began, callbacks exactly once with a finalized record, never two bodies at '
                 'once, a running cooperative body is asked to terminate, post-state (no executor, not registered)'),
        'note': ('preemption bound 1 (2 sampled for double aborts) over reached lines; known findings F6/F18 (handler on the main '
                 'thread while execute() is outside _executor.wait()) are keyed by region of Test.execute in known_findings.json; '
                 'real-SIGINT schedules run in child processes because a self-deadlocked main thread cannot be abandoned'),
    },
    'C06': {
        'level': 'exploration',
        'technique': 'runtime model-based monitoring: per-operation snapshots of (outcome, marginal, value) taken inside the phase body through the public PhaseState, compared with a reference measurement that applies the real validators to its own recorded value',
        'text': ('histories of scalar sets, coordinate sets (overrides, wrong-length and unhashable coordinates), undeclared '
                 'names and dimensioned-without-coordinates over 14 declarations (scalar/1-D/2-D; marginal ranges, regex, '
                 'percent, custom, raising and conditional validators; precision and transform) with values from ints, floats '
                 'around limits, None, NaN, +-inf, strings, bools; all histories of length <= 2/3 over a reduced alphabet plus '
                 'seeded ones up to length 8; after every operation and in the final PhaseRecord: recorded value = transform of '
                 'the last assignment per coordinate in first-assignment order, outcome/marginal as decided by the validators on '
                 'that value, rejections change nothing, raising validators give FAIL and surface at the assignment (scalar) or '
                 'as a phase error at phase end (dimensioned), nothing stays PARTIALLY_SET'),
        'note': 'validator verdicts are taken from deep copies of the declared validators (their own correctness is C07)',
    },
    'C17': {
        'level': 'fault_enumeration',
        'technique': 'runtime monitoring with fault and crash-point injection: destination path inspected after every injected exception (serializer / k-th write / close / move / rename, for every k) and after SIGKILL at every file-system system call of the callback (strace attach + inject, positions taken from a dry traced run)',
        'text': ('OutputToJSON, OutputToFile (pickle) and atomic_write are run on real records of 1-3 phases with the '
                 'destination absent or holding an old complete record and the staging directory on the same file system; '
                 'faults: serializer raises after k chunks and k-th write raises for every k up to 400, close raises, '
                 'shutil.move / os.rename raise, a real mid-stream serializer failure (attachments already closed), no fault '
                 '(byte-for-byte comparison and file name for brace / percent / callable patterns); crash points: the callback '
                 'runs in a child process that strace kills at each of its file-system system calls (2 writer variants in the '
                 'quick tier, 12 in the thorough tier); after each fault the destination must be absent (if it was), old, or '
                 'the complete new serialization'),
        'note': ('write/close faults are injected through the documented extension points (open_file, '
                 'serialize_test_record) and module attribute shims; needs ptrace (strace -p) in the sandbox'),
    },
    'C10': {
        'level': 'exploration',
        'technique': 'runtime differential monitoring: independent from-scratch renderer of the public attributes vs the cached base-type views (live PhaseState/TestState reads inside the phase body, final TestRecord) and strict parsing of OutputToJSON bytes under serialisation histories',
        'text': ('live histories (all of length <= 2, hashed subset of length 3/4, seeded up to length 8) of set / override / '
                 'coordinate set / attach / log / read over five measurements (precision, transform, validator that raises on '
                 'non-numbers, 1-D, 2-D) with values None, bool, int, float incl. NaN and +-inf, str, enums, nested '
                 'lists/tuples/str-keyed dicts; every read compares PhaseState.as_base_types() and TestState.as_base_types() '
                 'with the renderer; final records of directed and seeded E1 programs (subtests, branches, checkpoints, '
                 'diagnoses, outcome details, logs) are compared; every sequence of length <= 3 over {as_base_types, '
                 'OutputToJSON inline / not inline / allow_nan} is run on one record: strict JSON, decoded structure equals the '
                 'renderer, attachments round-trip through base64, as_base_types() stays base types'),
        'note': 'trusts vf/render.py (written from the documented conversion rules); tuples and lists are identified',
    },
    'C19': {
        'level': 'exploration',
        'technique': 'runtime history monitoring: uniquely numbered messages emitted through run, foreign and framework loggers are looked up in each run\'s log_records (exactly once, per-thread order, fields, redaction, no foreign ids); sys.monitoring pause points in logs.py (the held thread logs / ends a run / starts a run) while another run ends/starts/logs; whole runs with the executor thread held at each line and a tap on the openhtf logger; yield-injection stress; handler counts',
        'text': ('capture layer: 8 uid shapes x 11 logger kinds (own / child / phase / plug loggers, framework loggers, '
                 'another run\'s loggers, look-alike and prefix-sharing names) and 14 message/argument shapes x 3 MAC spellings '
                 '(MAC in msg, in args, split across args, in non-str and mapping args, twice); whole Test runs through '
                 'test.logger, plug logger, state logger and a framework logger for every shape; schedules: run B\'s logging '
                 'thread paused at every reached line of logs.py (2 hits) while run A ends / a run starts / run A logs / run A '
                 'ends with a third run active; stress: two runs x 2-3 logging threads under yield injection while short-lived '
                 'runs churn; 1-20 consecutive runs counting RecordHandlers and logging after the end'),
        'note': ('MAC = six colon-separated hex octets in either case; across threads any interleaving is accepted, per '
                 'thread the emission order must hold; preemption bound 1 over logs.py lines'),
    },
    'C18': {
        'level': 'exploration',
        'technique': 'runtime monitoring under controlled schedules: gate scheduler (sys.monitoring line gates + cooperative locks) enumerating all preemption-bounded interleavings of watchers and updaters with a quiescence oracle; protocol-following watcher threads attached to whole Test runs with logical lost-update witnesses at quiescent points',
        'text': ('(a) every line-level interleaving of W watchers x U updaters (W,U in {1,2}) on a minimal '
                 'SubscribableStateMixin subclass and on UserInput (start_prompt / respond / remove_prompt), preemption bound '
                 '3 for 1x1 down to 1 for 2x2 in the quick tier (unbounded 1x1 and bounds 2-4 in the thorough tier), split over '
                 '16 DFS parts; at quiescence a watcher whose snapshot differs from the final state must hold a set event; (b) '
                 'real Test runs with 1-3 watcher threads (snapshot, wait on the event, repeat), with and without yield '
                 'injection, with DEBUG/INFO framework logging on and off: the run blocks at ten quiescent points (status '
                 'RUNNING, running phase, scalar and dimensioned measurement values, log record, attachment, DUT id, phase '
                 'finished, next phase, all phases finished during plug tearDown) and a frontend-aware plug prompt is answered '
                 'through wait_for_plug_update; a watcher with an unset event and a snapshot lacking a change that is complete '
                 'is a lost update; every watcher must end on COMPLETED; snapshots must not raise'),
        'note': ('the mixin\'s _lock / UserInput._cond are replaced on the instance by cooperative locks; wall-clock time-outs '
                 'only guard the harness (inconclusive), verdicts come from logical witnesses'),
    },
    'C14': {
        'level': 'exploration',
        'technique': 'runtime history monitoring under controlled schedules: reactive fake ADB device with uniquely tagged bytes; per-stream byte logs and device-side message log judged after runs in which one host thread is held at a chosen line (sys.monitoring), under yield-injection stress, under every device-side merge order, and with the device withholding an OKAY while writers retry (device-side count of un-OKAYed WRTEs)',
        'text': ('1-3 streams are opened concurrently; each has a reader and a writer thread (host payload up to 400 bytes with '
                 'maxdata 64); the device answers OPEN with OKAY followed at once by all its WRTE messages and closes after it '
                 'received the host bytes; schedules: one thread role held 150 ms at a sampled (quick: 60 per scenario) or every '
                 '(thorough, hits <= 3) reached line of adb_protocol.py / adb_message.py, seeded yield injection, and all 20 '
                 'merge orders of two streams\' device messages; judged: bytes read per stream equal the device\'s bytes in '
                 'order, one OKAY(local, remote) per device WRTE, host chunks <= maxdata, never a second WRTE before the OKAY, '
                 'host bytes arrive intact, exactly one CLSE per stream, no call ends by its time-out although the device had '
                 'sent all it waited for (lost wake-up witness), no thread hangs'),
        'note': ('preemption bound 1 plus stress; 6 s call time-outs serve only as the end of a lost-wake-up witness; trusts '
                 'vf/fakeadb.py'),
    },
    'C12': {
        'level': 'exploration',
        'technique': 'runtime monitoring under virtual time (phase_executor.time and PhaseExecutorThread.join replaced by a discrete-event clock) plus sys.monitoring pause-point schedules of kill() against a KillableThread subclass',
        'text': ('(t) every combination of position {plain, group setup, main, teardown} x time-out {10 s, 1 s, 0, default} x body '
                 'end {deadline-2P, -eps, +eps, +P-eps, +P+eps, never (killable), never (unkillable), unkillable then acting '
                 'later} x repeat_on_timeout x own result: no TIMEOUT and own result kept before the deadline, TIMEOUT at or '
                 'after deadline+P (either in between), what follows starts within deadline+P of virtual time and within a real '
                 'watchdog, teardown phases and plug tearDown still run, outcome TIMEOUT, re-invocation only with '
                 'repeat_on_timeout, an abandoned body\'s later measurement / log / STOP does not reach another phase\'s record; '
                 '(k) kill() performed while the thread is held at every reached line of threads.py (2 hits), the killer held '
                 'at every line of kill(), kill before start, mid-body, twice, after exit, with a raising body: body prevented '
                 'or killed, no effect once the running lock is released, finish handler always completes, no '
                 'ThreadTerminationError in a bystander thread'),
        'note': ('P is read from the module; leaving the `with self._running_lock` block counts as "body still running"; thread-id '
                 'reuse in async_raise is out of reach'),
    },
    'C11': {
        'level': 'exploration',
        'technique': 'runtime monitoring: deep structural fingerprints of declared objects before/after derive, modify and execute operations; record comparison across repeated runs with in-phase pristine-state probes; concurrent test pairs with distinct markers under yield injection',
        'text': ('all 27 x 14 pairs of (derive operation, modification of the derived object\'s public surface incl. running '
                 'it) on a richly declared source phase: the source fingerprint must not change and the derived object must '
                 'not be the source; directed and seeded E1 programs x settings executed 2-3 times on one Test: fingerprint of '
                 'tree/options/test_start unchanged by execute(), every later record equal to the first modulo time stamps, '
                 'and a probe phase sees an empty state dict, no diagnosis result, no earlier measurement, log line or '
                 'metadata entry at the start of every run; pairs of tests with distinct plug classes and marker values '
                 'executed concurrently (barriers + seeded yield injection): neither record (record-logger lines, '
                 'measurements, attachments, diagnoses, DUT id) nor any in-phase view (state dict, get_measurement, '
                 'get_attachment, plug) contains the other test\'s marker'),
        'note': ('caches are excluded from fingerprints; framework-logger lines are shared by design (C19); known finding F10b '
                 '(shared list entries) is keyed by mechanism'),
    },
}
