"""Shared check driver: shards, aggregation, known findings, evidence, verdicts.

Parent side (``./check <ID> --tier quick|thorough``):
  * spawns N worker subprocesses (``python -m vf.worker``), each of which
    imports the real openhtf from the tree under test (``VERIF_REPO``, default
    /repo) and runs its stripe of the property module's cases;
  * unions what the workers' monitors observed, classifies every witness by
    *mechanism* against known_findings.json, writes evidence/<ID>.json and
    replays/<ID>/*.json, prints the verdict lines and exits 0 / 1 / 2.

Worker side: see ``run_shard``.

Property module interface (vf/props/cXX.py):
  PROPERTY  = 'C07'
  LEVEL     = 'exploration' | 'fault_enumeration' | ...
  RULE      = how cases are generated and what makes one distinct/non-trivial
  ASSUMPTIONS = [...]
  REQUIRED_COUNTERS = ['probes', ...]   # zero => inconclusive
  PLAN      = {'quick': {...}, 'thorough': {...}}  # workers, budget_s, ...
  def enumerated(tier):       yields JSON-able cases that must all run
  def sampled(tier, rng):     yields JSON-able cases until the budget ends
  def run_case(case) -> dict: {'sig': hashable-or-None,
                               'violations': [{'mechanism':..., 'detail':...}],
                               'counters': {...}}
  def classify(...)           not needed: mechanisms come from run_case.
"""
import hashlib
import importlib
import json
import os
import random
import subprocess
import sys
import tempfile
import time

VERIF = os.path.dirname(os.path.dirname(os.path.abspath(__file__)))
PY = sys.executable if 'venv' in sys.executable else '/venv/bin/python'


def repo_root():
  return os.path.abspath(os.environ.get('VERIF_REPO', '/repo'))


def assert_root(module):
  """A worker that looks at the wrong tree proves nothing."""
  root = repo_root()
  path = os.path.abspath(module.__file__)
  if not path.startswith(root + os.sep):
    raise SystemExit('root guard: %s is not under %s' % (path, root))


def stable_hash(obj):
  data = json.dumps(obj, sort_keys=True, default=repr).encode()
  return hashlib.blake2b(data, digest_size=8).hexdigest()


def load_module(prop):
  return importlib.import_module('vf.props.' + prop.lower())


# ---------------------------------------------------------------- worker side
def run_shard(prop, tier, seed, shard, nshards, out_path, only_case=None):
  """Runs this worker's stripe of cases and writes one JSON summary."""
  mod = load_module(prop)
  plan = mod.PLAN[tier]
  budget = float(os.environ.get('VERIF_BUDGET_S', plan.get('budget_s', 60)))
  t0 = time.monotonic()
  res = {
      'evaluations': 0, 'sigs': set(), 'samples': [], 'witnesses': [],
      'counters': {}, 'enum_total': 0, 'enum_done': 0, 'sampled_done': 0,
      'notes': [],
  }
  if hasattr(mod, 'setup'):
    mod.setup()

  case_limit = float(os.environ.get('VERIF_CASE_LIMIT_S',
                                    plan.get('case_limit_s', 180)))
  current = {'case': None, 't': time.monotonic()}

  def watchdog():
    # A case that never returns would stall the whole worker until the wall
    # limit: report it (inconclusive, with the case) and leave.
    import faulthandler
    while True:
      time.sleep(2)
      if current['case'] is not None and (
          time.monotonic() - current['t'] > case_limit):
        res['notes'].append('case exceeded %ss: %s' % (
            case_limit, json.dumps(current['case'], default=repr)[:600]))
        res['counters']['harness_errors'] = res['counters'].get(
            'harness_errors', 0) + 1
        res['sigs'] = sorted(res['sigs'])
        res['wall_s'] = time.monotonic() - t0
        try:
          faulthandler.dump_traceback(all_threads=True)
          with open(out_path, 'w') as f:
            json.dump(res, f, default=repr)
        finally:
          os._exit(0)

  import threading
  threading.Thread(target=watchdog, name='vf-watchdog', daemon=True).start()

  def one(case, kind):
    current['case'], current['t'] = case, time.monotonic()
    try:
      r = mod.run_case(case)
    except Exception as e:  # harness failure, not a verdict on openhtf
      import traceback
      res['notes'].append('harness-error: %r in case %s\n%s' % (
          e, json.dumps(case, default=repr)[:300], traceback.format_exc()[-1500:]))
      res['counters']['harness_errors'] = res['counters'].get(
          'harness_errors', 0) + 1
      return
    current['case'] = None
    res['evaluations'] += r.get('evaluations', 1)
    sig = r.get('sig')
    if sig is not None:
      for s in (sig if isinstance(sig, (list, set, tuple)) and r.get('multi_sig') else [sig]):
        res['sigs'].add(s if isinstance(s, str) and len(s) <= 16 else stable_hash(s))
    for k, v in r.get('counters', {}).items():
      res['counters'][k] = res['counters'].get(k, 0) + v
    if len(res['samples']) < 3 and r.get('sample', True):
      res['samples'].append(r.get('sample_repr', case))
    for w in r.get('violations', []):
      if len(res['witnesses']) < 400:
        res['witnesses'].append({'mechanism': w['mechanism'],
                                 'detail': w.get('detail'),
                                 'case': w.get('case', case), 'kind': kind})
      res['counters']['violations_seen'] = res['counters'].get(
          'violations_seen', 0) + 1

  if only_case is not None:
    one(only_case, 'replay')
  else:
    for i, case in enumerate(mod.enumerated(tier)):
      if i % nshards != shard:
        continue
      res['enum_total'] += 1
      one(case, 'enumerated')
      res['enum_done'] += 1
    rng = random.Random((seed * 1000003 + shard) & 0xffffffff)
    limit = plan.get('sampled_per_worker', 0)
    if limit:
      for case in mod.sampled(tier, rng):
        if res['sampled_done'] >= limit or time.monotonic() - t0 > budget:
          break
        one(case, 'sampled')
        res['sampled_done'] += 1
  if hasattr(mod, 'teardown'):
    try:
      mod.teardown()
    except Exception:  # pylint: disable=broad-except
      pass
  res['sigs'] = sorted(res['sigs'])
  res['wall_s'] = time.monotonic() - t0
  with open(out_path, 'w') as f:
    json.dump(res, f, default=repr)


# ---------------------------------------------------------------- parent side
def _known(prop):
  path = os.path.join(VERIF, 'known_findings.json')
  if not os.path.exists(path):
    return {}
  with open(path) as f:
    entries = json.load(f)['findings']
  return {e['key']: e for e in entries
          if e['property'] == prop and e.get('status') == 'known'}


def worker_env():
  env = dict(os.environ)
  env['PYTHONPATH'] = repo_root() + os.pathsep + VERIF
  env['PYTHONDONTWRITEBYTECODE'] = '1'
  env['PIP_NO_INDEX'] = '1'
  env.setdefault('PYTHONHASHSEED', '0')
  env.setdefault('OPENHTF_VERIF', '1')
  return env


def main_check(prop, tier, seed, replay=None):
  mod = load_module(prop)
  plan = mod.PLAN[tier]
  nshards = 1 if replay else int(os.environ.get('VERIF_WORKERS',
                                                 plan.get('workers', 16)))
  wall_limit = plan.get('wall_limit_s', 1800)
  t0 = time.monotonic()
  tmp = tempfile.mkdtemp(prefix='vf-%s-' % prop)
  procs = []
  env = worker_env()
  env['VERIF_SEED'] = str(seed)
  for shard in range(nshards):
    out = os.path.join(tmp, 'shard%d.json' % shard)
    cmd = [PY, '-X', 'dev', '-W', 'ignore', '-m', 'vf.worker', prop, tier,
           str(seed), str(shard), str(nshards), out]
    if replay:
      cmd.append(os.path.abspath(replay))
    log = open(os.path.join(tmp, 'shard%d.log' % shard), 'wb')
    procs.append((shard, out, log, subprocess.Popen(
        cmd, cwd=VERIF, env=env, stdout=log, stderr=subprocess.STDOUT)))

  agg = {'evaluations': 0, 'sigs': set(), 'samples': [], 'witnesses': [],
         'counters': {}, 'enum_total': 0, 'enum_done': 0, 'sampled_done': 0,
         'notes': []}
  problems = []
  for shard, out, log, p in procs:
    remaining = max(5.0, wall_limit - (time.monotonic() - t0))
    try:
      rc = p.wait(timeout=remaining)
    except subprocess.TimeoutExpired:
      p.kill()
      p.wait()
      rc = 'watchdog'
    log.close()
    if rc != 0 or not os.path.exists(out):
      tail = ''
      try:
        with open(log.name, 'rb') as f:
          tail = f.read()[-1500:].decode('utf8', 'replace')
      except OSError:
        pass
      problems.append('worker %d ended with %r: %s' % (shard, rc, tail))
      continue
    with open(out) as f:
      r = json.load(f)
    agg['evaluations'] += r['evaluations']
    agg['sigs'].update(r['sigs'])
    agg['samples'].extend(r['samples'][:2])
    agg['witnesses'].extend(r['witnesses'])
    agg['notes'].extend(r['notes'])
    for k in ('enum_total', 'enum_done', 'sampled_done'):
      agg[k] += r[k]
    for k, v in r['counters'].items():
      agg['counters'][k] = agg['counters'].get(k, 0) + v
  import shutil
  if os.environ.get('VERIF_KEEP_LOGS'):
    shutil.copytree(tmp, os.environ['VERIF_KEEP_LOGS'], dirs_exist_ok=True)
  shutil.rmtree(tmp, ignore_errors=True)

  known = _known(prop)
  by_mech = {}
  for w in agg['witnesses']:
    by_mech.setdefault(w['mechanism'], []).append(w)
  new = {m: ws for m, ws in by_mech.items() if m not in known}
  out_root = os.environ.get('VERIF_OUT', VERIF)
  replay_dir = os.path.join(out_root, 'replays', prop)
  lines = []
  if not replay:
    for m, ws in sorted(by_mech.items()):
      ws.sort(key=lambda w: len(json.dumps(w['case'], default=repr)))
      if m in known:
        lines.append('KNOWN-FINDING: property=%s %s [%s; %d witness(es) this run]'
                     % (prop, known[m]['what'], m, len(ws)))
      else:
        os.makedirs(replay_dir, exist_ok=True)
        path = os.path.join(replay_dir, '%s.json' % _slug(m))
        with open(path, 'w') as f:
          json.dump({'property': prop, 'mechanism': m, 'tier': tier,
                     'seed': seed, 'case': ws[0]['case'],
                     'detail': ws[0]['detail'],
                     'other_witnesses': len(ws) - 1}, f, indent=1, default=repr)
        lines.append('VIOLATION property=%s replay=%s' % (prop, path))
        lines.append('  mechanism=%s detail=%s' % (
            m, json.dumps(ws[0]['detail'], default=repr)[:600]))
    for m in sorted(set(known) - set(by_mech)):
      lines.append('NOTE: known finding %s of %s not reproduced by this run'
                   % (m, prop))
  else:
    for m, ws in sorted(by_mech.items()):
      tag = 'KNOWN-FINDING:' if m in known else 'VIOLATION'
      lines.append('%s property=%s replay=%s mechanism=%s detail=%s' % (
          tag, prop, replay, m, json.dumps(ws[0]['detail'], default=repr)[:800]))
    if not by_mech:
      lines.append('replay: no violation reproduced')

  inconclusive = list(problems)
  if agg['counters'].get('harness_errors'):
    inconclusive.append('%d harness errors: %s' % (
        agg['counters']['harness_errors'], agg['notes'][:2]))
  if not replay:
    for c in getattr(mod, 'REQUIRED_COUNTERS', []):
      if not agg['counters'].get(c):
        inconclusive.append('deciding monitor counter %r stayed at zero' % c)
    if agg['enum_done'] != agg['enum_total']:
      inconclusive.append('enumeration incomplete')

  wall = time.monotonic() - t0
  if not replay:
    coverage = {
        'evaluations': agg['evaluations'],
        'distinct_nontrivial': len(agg['sigs']),
        'rule': mod.RULE,
        'samples': agg['samples'][:6] or ['<none>'],
        'exhaustive': bool(getattr(mod, 'EXHAUSTIVE', {}).get(tier, False)
                           and agg['enum_done'] == agg['enum_total']
                           and not problems),
        'enumerated_cases': agg['enum_done'],
        'sampled_cases': agg['sampled_done'],
        'monitor_counters': dict(sorted(agg['counters'].items())),
        'witness_mechanisms': {m: len(ws) for m, ws in by_mech.items()},
        'known_findings_matched': sorted(m for m in by_mech if m in known),
        'workers': nshards,
        'tree': repo_root(),
    }
    if hasattr(mod, 'extra_coverage'):
      coverage.update(mod.extra_coverage(tier, agg))
    ev = {
        'property_id': prop, 'tier': tier, 'seed': seed, 'level': mod.LEVEL,
        'coverage': coverage,
        'assumptions': list(getattr(mod, 'ASSUMPTIONS', [])),
        'wall_s': round(wall, 2),
        'violations': sum(len(ws) for ws in new.values()),
        'verdict': ('violated' if new else
                    'inconclusive' if inconclusive else 'held'),
        'inconclusive_reasons': inconclusive,
    }
    os.makedirs(os.path.join(out_root, 'evidence'), exist_ok=True)
    with open(os.path.join(out_root, 'evidence', prop + '.json'), 'w') as f:
      json.dump(ev, f, indent=1, default=repr)

  for l in lines:
    print(l)
  print('%s tier=%s seed=%d: %d evaluations (%d enumerated, %d sampled), '
        '%d distinct, %.1fs; counters=%s' % (
            prop, tier, seed, agg['evaluations'], agg['enum_done'],
            agg['sampled_done'], len(agg['sigs']), wall,
            json.dumps(dict(sorted(agg['counters'].items())))))
  if new:
    return 1
  if inconclusive:
    for r in inconclusive:
      print('INCONCLUSIVE property=%s: %s' % (prop, r))
    return 2
  print('HELD property=%s on everything explored' % prop)
  return 0


def _slug(s):
  keep = ''.join(ch if ch.isalnum() or ch in '-_.' else '_' for ch in s)
  return keep[:80]
