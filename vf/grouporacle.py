"""Trace predicates for PhaseGroup semantics (C03, reused by C04).

Independent of the reference interpreter: decisions are taken from the
recorded *results* of a group's setup phases and from the event log
(start / end of generated phase bodies, plug tearDown, callbacks).

Shape assumption (guaranteed by the C03/C04 generators): the teardown list of
every judged group starts with at least one direct phase and setup lists
contain only phases.  A setup phase whose run_if is the constant False is a
no-op; one whose run_if raises is reached when the predicate was evaluated and
ends the setup.  A group without (effective) setup phases counts as entered
once one of its main phases was started or had its run_if evaluated (nothing
is concluded about it otherwise).
"""
from vf import progmodel as pm

NON_TERMINAL = ('CONTINUE', 'FAIL_AND_CONTINUE', 'SKIP')


def phases_in(nodes):
  return [n[1] for n, _ in pm.walk(nodes) if n[0] == 'P']


def groups(prog):
  """Yields dicts describing every group instance of the program."""
  order = [n[1] for n, _ in pm.walk(prog) if n[0] == 'P']
  pos = {pid: i for i, pid in enumerate(order)}

  def rec(nodes, ctx_sub, in_td, siblings_after):
    for i, n in enumerate(nodes):
      later = phases_in(nodes[i + 1:])
      k = n[0]
      if k == 'G':
        _, s, m, t = n
        inner = set(phases_in([n]))
        last = max([pos[p] for p in inner]) if inner else -1
        yield {
            'setup': [x[1] for x in s if x[0] == 'P'],
            'setup_all_phases': all(x[0] == 'P' for x in s),
            'teardown_direct': [x[1] for x in t if x[0] == 'P'],
            'main_all': phases_in(m),
            'teardown_all': phases_in(t),
            'following': [p for p in order if pos[p] > last],
            'following_direct': later + siblings_after,
            'subtest': ctx_sub, 'in_td': in_td,
            'td_opts': {x[1]: x[2] for x in t if x[0] == 'P'},
            'setup_opts': {x[1]: x[2] for x in s if x[0] == 'P'},
            'teardown_nodes': t,
        }
        yield from rec(s, ctx_sub, in_td, [])
        yield from rec(m, ctx_sub, in_td, [])
        yield from rec(t, ctx_sub, True, [])
      elif k == 'S':
        yield from rec(n[1], ctx_sub, in_td, later + siblings_after)
      elif k == 'T':
        yield from rec(n[2], n[1], in_td, [])
      elif k == 'B':
        yield from rec(n[4], ctx_sub, in_td, later + siblings_after)
      elif k == 'BX':
        yield from rec(n[2], ctx_sub, in_td, later + siblings_after)

  yield from rec(prog, None, False, [])


def judge(prog, obs, allow_missing_following=False, sof=False):
  """Returns (violations, counters).  obs needs 'events' and 'phases'."""
  ev = obs['events']
  recs = obs['phases']
  viol = []
  c = {'groups_judged': 0, 'groups_entered': 0, 'groups_not_entered': 0,
       'groups_unreached': 0, 'groups_dont_care': 0,
       'teardown_phases_judged': 0}
  starts = {}
  run_if_seen = {e[3] for e in ev if e[2] == 'run_if'}
  first_start = {}
  last_end = {}
  hung = set()
  for e in ev:
    kind = e[2]
    if kind == 'start':
      starts[e[3]] = starts.get(e[3], 0) + 1
      first_start.setdefault(e[3], e[0])
    elif kind in ('hang', 'hang_unkillable'):
      # ('hang_unkillable': a body blocked in a C wait that the executor
      # abandons after cancel_timeout_s; it unwinds whenever the harness
      # releases it, possibly before the event log is read)
      hung.add((e[3], e[4]))
  last_event = {}
  for e in ev:
    if e[2] in ('start', 'end', 'raised'):
      if e[2] != 'start' and (e[3], e[4]) in hung:
        continue    # a killed / abandoned body may unwind late
      last_event[e[3]] = e[0]
      if e[2] == 'end':
        last_end[e[3]] = e[0]
  plug_tds = [e[0] for e in ev if e[2] == 'plug_td']
  rec_idx = {}
  for i, r in enumerate(recs):
    rec_idx.setdefault(r[0], []).append(i)

  def bad(mech, **d):
    if len(viol) < 6:
      viol.append({'mechanism': mech, 'detail': d})

  for g in groups(prog):
    if not g['teardown_direct'] or not g['setup_all_phases']:
      continue
    setup_eff = [x for x in g['setup']
                 if g['setup_opts'][x].get('run_if') is not False]
    if not setup_eff:
      touched = [p for p in g['main_all'] if starts.get(p) or p in run_if_seen]
      if not touched:
        continue
      s0 = 'no-setup:' + (g['main_all'] + g['teardown_all'])[0]
    else:
      s0 = setup_eff[0]
    c['groups_judged'] += 1
    inside = g['setup'] + g['main_all'] + g['teardown_all']
    if setup_eff and s0 not in rec_idx and s0 not in run_if_seen:
      c['groups_unreached'] += 1
      ran = [p for p in inside if starts.get(p)]
      if ran:
        bad('unreached-group-ran-phases', group=s0, ran=ran[:4])
      continue
    sub = g['subtest']
    failed_before = False
    if sub is not None and setup_eff and s0 in rec_idx:
      first = rec_idx[s0][0]
      failed_before = any(r[2] == 'FAIL_SUBTEST' and r[3] == sub
                          for r in recs[:first])
      if recs[first][1] == 'SKIP' and recs[first][2] == 'SKIP' and not starts.get(s0):
        failed_before = True
    complete = True
    setup_fail_subtest = False
    for s in setup_eff:
      if s not in rec_idx or not starts.get(s):
        complete = False
        continue
      last = recs[rec_idx[s][-1]]
      if last[2] == 'FAIL_SUBTEST':
        setup_fail_subtest = True
      elif last[2] not in NON_TERMINAL:
        complete = False
      elif sof and last[1] == 'FAIL':
        complete = False     # stop_on_first_failure turns the failure into a STOP
    if g['in_td'] and (failed_before or setup_fail_subtest) and complete:
      c['groups_dont_care'] += 1
      continue
    entered = complete and not failed_before and not setup_fail_subtest
    if not entered:
      c['groups_not_entered'] += 1
      ran = [p for p in g['main_all'] + g['teardown_all'] if starts.get(p)]
      if ran:
        bad('group-not-entered-but-main-or-teardown-ran', group=s0,
            ran=ran[:4], setup=[recs[rec_idx[s][-1]][:3] for s in setup_eff
                                if s in rec_idx])
      continue
    c['groups_entered'] += 1
    main_last = max([last_event[p] for p in g['main_all'] if p in last_event]
                    or [-1])
    td_ends = []
    for t in g['teardown_direct']:
      c['teardown_phases_judged'] += 1
      n = starts.get(t, 0)
      if g['td_opts'][t].get('run_if') not in (None, True):
        continue     # the predicate decides (False) or ends this node (raises)
      trecs = [recs[i] for i in rec_idx.get(t, [])]
      if n > 1 and n == len(trecs) and all(r[2] == 'REPEAT' for r in trecs[:-1]):
        n = 1    # one execution of the node; the body asked to be repeated
      if n != 1:
        bad('teardown-ran-%s' % ('zero-times' if n == 0 else 'more-than-once'),
            group=s0, teardown=t, count=n)
        continue
      killed = [e for e in ev if e[2] == 'raised' and e[3] == t and
                e[5] == 'ThreadTerminationError' and (e[3], e[4]) not in hung]
      if killed and not obs.get('second_abort'):
        bad('teardown-body-killed-without-second-abort', group=s0, teardown=t)
      if first_start[t] < main_last:
        bad('teardown-before-main-stopped', group=s0, teardown=t)
      if t in last_end:
        td_ends.append(last_end[t])
    # every teardown node, not only the direct phases: sequences, branches
    # (evaluated once; children run iff taken), checkpoints (evaluated, not
    # skipped), nested groups (reached), phases nested in those
    branches, cps = obs.get('branches'), obs.get('checkpoints')

    def node_ok(n, direct):
      k = n[0]
      if k == 'P':
        if direct or n[2].get('run_if') is not None:
          return
        c['teardown_phases_judged'] += 1
        t = n[1]
        cnt = starts.get(t, 0)
        trecs = [recs[i] for i in rec_idx.get(t, [])]
        if cnt > 1 and cnt == len(trecs) and all(r[2] == 'REPEAT'
                                                 for r in trecs[:-1]):
          cnt = 1
        if cnt != 1:
          bad('nested-teardown-phase-ran-%s' % (
              'zero-times' if cnt == 0 else 'more-than-once'), group=s0,
              teardown=t, count=cnt)
        elif first_start[t] < main_last:
          bad('teardown-before-main-stopped', group=s0, teardown=t)
      elif k == 'S':
        for ch in n[1]:
          node_ok(ch, False)
      elif k == 'B' and branches is not None:
        c['teardown_branches_judged'] = c.get('teardown_branches_judged', 0) + 1
        mine = [b for b in branches if b[0] == n[1]]
        if len(mine) != 1:
          bad('teardown-branch-evaluated-%d-times' % len(mine), group=s0,
              branch=n[1])
        elif mine[0][1]:
          for ch in n[4]:
            node_ok(ch, False)
        else:
          ran = [p for p in phases_in(n[4]) if starts.get(p)]
          if ran:
            bad('branch-not-taken-but-children-ran', group=s0, branch=n[1])
      elif k == 'C' and cps is not None:
        c['teardown_checkpoints_judged'] = c.get(
            'teardown_checkpoints_judged', 0) + 1
        mine = [x for x in cps if x[0] == n[1]]
        if len(mine) != 1:
          bad('teardown-checkpoint-evaluated-%d-times' % len(mine), group=s0,
              checkpoint=n[1])
        elif mine[0][1] == 'SKIP':
          bad('teardown-checkpoint-skipped', group=s0, checkpoint=n[1])
      elif k == 'G':
        head = n[1][0] if n[1] else None
        if (head and head[0] == 'P' and head[2].get('run_if') is None and
            head[1] not in rec_idx):
          bad('teardown-subgroup-not-reached', group=s0, subgroup=head[1])

    if not obs.get('second_abort'):
      for tn in g['teardown_nodes']:
        node_ok(tn, True)
    if td_ends:
      td_done = max(td_ends)
      early = [p for p in g['following'] if p in first_start
               and first_start[p] < td_done]
      if early:
        bad('node-after-group-started-before-teardown-finished', group=s0,
            early=early[:4])
      if plug_tds and min(plug_tds) < td_done:
        bad('plug-teardown-before-group-teardown-finished', group=s0)
    # terminal result inside teardown propagates outward
    term_td = [t for t in g['teardown_all'] if t in rec_idx and
               recs[rec_idx[t][-1]][2] not in NON_TERMINAL + ('FAIL_SUBTEST',
                                                              'REPEAT')]
    if term_td and not g['in_td']:
      if obs.get('outcome') == 'PASS':
        bad('terminal-teardown-result-did-not-propagate:PASS', group=s0,
            teardown=term_td[:3])
      ran = [p for p in g['following_direct'] if starts.get(p)]
      if ran:
        bad('terminal-teardown-result-did-not-propagate:later-node-ran',
            group=s0, ran=ran[:4])
  return viol, c
