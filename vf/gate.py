"""Gate scheduler: every controlled thread stops at every line of the (tiny)
code under test and proceeds only when the controller grants it a step, so a
DFS over *all* interleavings (optionally preemption-bounded) is possible
without any timing.  Locks of the object under test are replaced on the
instance by cooperative try-locks that report "blocked" to the scheduler.
"""
import sys
import threading

TOOL = 4
_mon = sys.monitoring


class Sched:

  def __init__(self):
    self.cv = threading.Condition()
    self.state = {}
    self.grant = None
    self.steps = 0

  def reset(self):
    self.state = {}
    self.grant = None

  def yield_point(self, where):
    me = threading.current_thread()
    if me not in self.state:
      return
    with self.cv:
      self.state[me] = ('ready', where)
      self.cv.notify_all()
      while self.grant is not me:
        self.cv.wait()
      self.grant = None
      self.state[me] = ('running', where)
      self.steps += 1

  def block(self, lock):
    me = threading.current_thread()
    if me not in self.state:
      return False
    with self.cv:
      self.state[me] = ('blocked', lock)
      self.cv.notify_all()
      while self.grant is not me:
        self.cv.wait()
      self.grant = None
      self.state[me] = ('running', None)
    return True

  def done(self):
    me = threading.current_thread()
    with self.cv:
      self.state[me] = ('done', None)
      self.cv.notify_all()


S = Sched()


class CoopLock:
  """Non-reentrant cooperative lock."""

  def __init__(self):
    self.l = threading.Lock()

  def locked(self):
    return self.l.locked()

  def acquire(self, blocking=True, timeout=-1):
    while not self.l.acquire(False):
      if not blocking:
        return False
      if not S.block(self):
        self.l.acquire()
        return True
    return True

  def release(self):
    self.l.release()

  def __enter__(self):
    self.acquire()
    return self

  def __exit__(self, *a):
    self.release()


class CoopRLock:
  """Reentrant cooperative lock with the Condition methods UserInput uses."""

  def __init__(self):
    self.l = threading.Lock()
    self.owner = None
    self.count = 0

  def locked(self):
    return self.l.locked() and self.owner is not threading.current_thread()

  def acquire(self, blocking=True, timeout=-1):
    me = threading.current_thread()
    if self.owner is me:
      self.count += 1
      return True
    while not self.l.acquire(False):
      if not S.block(self):
        self.l.acquire()
        break
    self.owner = me
    self.count = 1
    return True

  def release(self):
    self.count -= 1
    if self.count == 0:
      self.owner = None
      self.l.release()

  def __enter__(self):
    self.acquire()
    return self

  def __exit__(self, *a):
    self.release()

  def notifyAll(self):  # pylint: disable=invalid-name
    pass

  notify_all = notifyAll


_installed = {'codes': set(), 'on': False}


def _on_line(code, line):
  S.yield_point((code.co_qualname, line))


def instrument(funcs):
  if not _installed['on']:
    _mon.use_tool_id(TOOL, 'vf-gate')
    _mon.register_callback(TOOL, _mon.events.LINE, _on_line)
    _installed['on'] = True
  for f in funcs:
    code = getattr(f, '__code__', f)
    if code not in _installed['codes']:
      _installed['codes'].add(code)
      _mon.set_local_events(TOOL, code, _mon.events.LINE)


def uninstall():
  if _installed['on']:
    for c in _installed['codes']:
      _mon.set_local_events(TOOL, c, 0)
    _mon.register_callback(TOOL, _mon.events.LINE, None)
    _mon.free_tool_id(TOOL)
    _installed['on'] = False
    _installed['codes'] = set()


class Deadlock(Exception):
  pass


def run_schedule(make_threads, prefix):
  """make_threads() -> (list of (name, callable), finish()) where finish()
  returns the oracle verdict at quiescence.  Choices come from `prefix`, then
  the default policy (keep running the last thread, else lowest index).
  Returns (trace of (enabled, chosen, last), verdict)."""
  S.reset()
  specs, finish = make_threads()
  ths = []

  def wrap(fn):
    def r():
      S.yield_point(('start', 0))
      try:
        fn()
      finally:
        S.done()
    return r

  for name, fn in specs:
    ths.append(threading.Thread(target=wrap(fn), name=name, daemon=True))
  for t in ths:
    S.state[t] = ('new', None)
  for t in ths:
    t.start()
  trace = []
  last = None
  step = 0
  while True:
    with S.cv:
      while any(S.state[t][0] in ('new', 'running') for t in ths) or \
          S.grant is not None:
        S.cv.wait()
      enabled = [i for i, t in enumerate(ths)
                 if S.state[t][0] == 'ready' or
                 (S.state[t][0] == 'blocked' and not S.state[t][1].locked())]
      if not enabled:
        if all(S.state[t][0] == 'done' for t in ths):
          break
        raise Deadlock([(t.name, S.state[t][0]) for t in ths])
      if step < len(prefix):
        c = prefix[step]
      else:
        c = last if last in enabled else enabled[0]
      if c not in enabled:
        raise RuntimeError('schedule prefix not replayable', prefix, step)
      trace.append((tuple(enabled), c, last))
      last = c
      step += 1
      S.grant = ths[c]
      S.cv.notify_all()
  for t in ths:
    t.join(5)
  return trace, finish()


def children(trace, prefix_len, bound):
  """Alternative prefixes branching at positions >= prefix_len (each complete
  schedule is generated exactly once), within the preemption bound."""
  out = []
  pre_cost = 0
  costs = []
  for (enabled, chosen, last) in trace:
    costs.append(pre_cost)
    if last is not None and last in enabled and chosen != last:
      pre_cost += 1
  for i in range(prefix_len, len(trace)):
    enabled, chosen, last = trace[i]
    for alt in enabled:
      if alt == chosen:
        continue
      cost = 1 if (last is not None and last in enabled and alt != last) else 0
      if bound is None or costs[i] + cost <= bound:
        out.append([c for (_, c, _) in trace[:i]] + [alt])
  return out


def explore(make_threads, bound, part=0, parts=1, frontier_size=48,
            max_schedules=None):
  """DFS over all schedules within the bound; returns dict with counts and
  the violating prefixes.  Work is split deterministically into `parts`."""
  viols = []
  n = 0
  distinct = set()
  # expand a common frontier breadth-first (counted by part 0 only)
  frontier = [[]]
  expanded = []
  while frontier and len(frontier) + len(expanded) < frontier_size:
    prefix = frontier.pop(0)
    trace, verdict = run_schedule(make_threads, prefix)
    if part == 0:
      n += 1
      distinct.add(tuple(c for (_, c, _) in trace))
      if verdict:
        viols.append((prefix, verdict))
    expanded.append(prefix)
    frontier.extend(children(trace, len(prefix), bound))
  mine = [p for i, p in enumerate(frontier) if i % parts == part]
  stack = list(mine)
  while stack:
    if max_schedules is not None and n >= max_schedules:
      break
    prefix = stack.pop()
    trace, verdict = run_schedule(make_threads, prefix)
    n += 1
    distinct.add(tuple(c for (_, c, _) in trace))
    if verdict:
      viols.append((prefix, verdict))
    stack.extend(children(trace, len(prefix), bound))
  return {'schedules': n, 'distinct': len(distinct), 'violations': viols,
          'complete': not stack}
