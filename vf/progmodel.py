"""E1 — program model: JSON test programs, builder for real openhtf objects,
observation of a run, reference interpreter, enumerators and generators.

Program grammar (JSON lists):
  ['P', pid, beh]                       phase
  ['C', cid, kind, action]              checkpoint; kind in 'last'|'all'|'sub'|[cond, [results]]
  ['S', [nodes]]                        sequence
  ['T', name, [nodes]]                  subtest
  ['B', name, cond, [results], [nodes]] branch
  ['BX', name, [nodes]]                 branch whose condition object is mistyped
                                        (raises inside the executor thread)
  ['G', [setup], [main], [teardown]]    group
beh keys: r (result code or list per invocation: C CC F K S U R X XK BAD T),
  m ('pass'|'fail'|'unset'|'marginal'), ds (list of diagnoser specs, each a
  list of [result, is_failure] or 'RAISE'), run_if (True|False|'raise'),
  opts (PhaseOptions kwargs), plugs ([class index]).
cfg keys: sof ('opt'|'conf'), fexc ('exact'|'super'), allow_unset, tdiag
  ('pass'|'fail'|'raise'), start (phase node), plugs (fault spec, C08).
"""
import contextlib
import io
import itertools
import logging
import threading
import time
import traceback

_H = {}


def htf():
  """Imports openhtf lazily (worker side only) and applies harness hygiene."""
  if 'htf' not in _H:
    import openhtf
    from openhtf.core import phase_branches, phase_descriptor, phase_executor
    from openhtf.core import test_record
    from openhtf.util import configuration, console_output
    from vf import harness, vclock
    harness.assert_root(openhtf)
    console_output.CLI_QUIET = True

    class R(openhtf.DiagResultEnum):
      D1 = 'd1'
      D2 = 'd2'
      D3 = 'd3'
      D4 = 'd4'

    class TR(openhtf.DiagResultEnum):
      T1 = 't1'
      T2 = 't2'

    _H.update(htf=openhtf, pb=phase_branches, pd=phase_descriptor,
              pe=phase_executor, tr=test_record, CONF=configuration.CONF,
              R=R, TR=TR, vc=vclock.install(phase_executor))
  return _H['htf']


def prune_handlers():
  """Test.configure() adds one NullHandler per call; keep the list short so a
  worker that runs 10^5 tests does not slow down (harness hygiene only)."""
  lg = logging.getLogger('openhtf')
  nulls = [h for h in lg.handlers if type(h) is logging.NullHandler]
  if len(nulls) > 4:
    for h in nulls[2:]:
      lg.removeHandler(h)


class EventLog:
  """Global monotonic sequence numbers for everything the monitors record."""

  def __init__(self):
    self._lock = threading.Lock()
    self._n = itertools.count()
    self.events = []

  def add(self, *ev):
    with self._lock:
      n = next(self._n)
      self.events.append((n, threading.current_thread().name) + ev)
      return n


class Boom(ValueError):
  pass


# ------------------------------------------------------------------ builder
class Built:
  """Real openhtf objects for one program plus the recording context."""

  def __init__(self, prog, cfg):
    H = htf()
    self.prog, self.cfg = prog, cfg
    self.log = EventLog()
    self.ctr = {}
    self.release = threading.Event()    # ends bodies of behaviour 'HU'
    self.diag_calls = {}
    self.recs = []
    self.plug_classes = {}
    self.nodes = [self.node(n) for n in prog]
    self.test = H.Test(*self.nodes)
    kw = {}
    if cfg.get('sof') == 'opt':
      kw['stop_on_first_failure'] = True
    if cfg.get('fexc') == 'exact':
      kw['failure_exceptions'] = [Boom]
    elif cfg.get('fexc') == 'super':
      kw['failure_exceptions'] = [LookupError, ValueError]
    if kw:
      self.test.configure(**kw)
    td = cfg.get('tdiag')
    if td:
      TR = _H['TR']

      @H.TestDiagnoser(TR)
      def tdiag(rec, store, _td=td):
        self.log.add('tdiag')
        if _td == 'raise':
          raise KeyError('test diagnoser boom')
        return H.Diagnosis(TR.T1, 'x', is_failure=(_td in ('fail', 'fail_then_ok')))

      self.test.add_test_diagnosers(tdiag)
      if td == 'fail_then_ok':
        # a second test diagnoser reports the same result again, as a mere note
        @H.TestDiagnoser(TR)
        def tdiag_note(rec, store):
          return H.Diagnosis(TR.T1, 'note')

        self.test.add_test_diagnosers(tdiag_note)
    self.start = self.node(cfg['start']) if cfg.get('start') else None
    if cfg.get('dut') and self.start is None:
      dut = cfg['dut']
      self.start = lambda: dut

  # plug classes are created per case (fresh class objects)
  def plug_class(self, idx):
    idx = plug_index(idx)
    if idx not in self.plug_classes:
      H = htf()
      fault = (self.cfg.get('plugs') or {}).get(str(idx))
      log = self.log

      class P(H.plugs.BasePlug):
        _vf_idx = idx

        _vf_ctor_calls = [0]

        def __init__(self):
          log.add('plug_ctor', idx, id(self))
          type(self)._vf_ctor_calls[0] += 1
          if fault == 'ctor_raise' or (fault == 'ctor_raise_once' and
                                       type(self)._vf_ctor_calls[0] == 1):
            raise RuntimeError('plug %d ctor boom' % idx)
          if fault == 'ctor_exit':
            raise SystemExit('plug %d: fixture not connected' % idx)

        def tearDown(self):
          t0 = time.monotonic()
          log.add('plug_td', idx, id(self))
          if fault == 'td_raise':
            raise RuntimeError('plug %d tearDown boom' % idx)
          if fault == 'td_slow':
            # a tearDown with a little work to do: 50 scheduler yields, far
            # below any time-out, but enough for a premature kill to land
            try:
              for _ in range(50):
                time.sleep(0)
              log.add('plug_td_done', idx, id(self))
            except BaseException:
              log.add('plug_td_killed', idx, id(self), time.monotonic() - t0)
              raise
          if fault == 'td_hang':
            log.add('plug_td_hang', idx)
            while True:
              time.sleep(0.005)
          if fault == 'td_hang_unkillable':
            log.add('plug_td_hang', idx)
            threading.Event().wait()

      if fault == 'td_instance':
        # the class keeps BasePlug's no-op tearDown; the instance binds its own
        # (a wrapper plug doing `self.tearDown = self.driver.close`)
        class P(H.plugs.BasePlug):  # pylint: disable=function-redefined
          _vf_idx = idx

          def __init__(self):
            log.add('plug_ctor', idx, id(self))
            self.tearDown = lambda: log.add('plug_td', idx, id(self))

      # cfg['plug_same_name'] = [[i, j], ...]: distinct classes i and j carry
      # the same module and class name (e.g. made by one class factory)
      shown = idx
      for grp in (self.cfg.get('plug_same_name') or []):
        if idx in grp:
          shown = min(grp)
      P.__name__ = 'Plug%d' % shown
      P.__qualname__ = 'Plug%d' % shown
      self.plug_classes[idx] = P
    return self.plug_classes[idx]

  def node(self, n):
    H = htf()
    pb, pd, R = _H['pb'], _H['pd'], _H['R']
    k = n[0]
    if k == 'P':
      return self.phase(n)
    if k == 'C':
      _, cid, kind, action = n
      act = {'S': H.PhaseResult.STOP, 'U': H.PhaseResult.FAIL_SUBTEST}[action]
      if kind == 'last':
        return H.PhaseFailureCheckpoint.last(cid, action=act)
      if kind == 'all':
        return H.PhaseFailureCheckpoint.all_previous(cid, action=act)
      if kind == 'sub':
        return H.PhaseFailureCheckpoint.subtest_previous(cid, action=act)
      cond, results = kind
      dc = H.DiagnosisCondition(condition=pb.ConditionOn[cond],
                                diagnosis_results=tuple(R[r] for r in results))
      return H.DiagnosisCheckpoint(cid, dc, action=act)
    if k == 'S':
      return H.PhaseSequence(*[self.node(c) for c in n[1]])
    if k == 'T':
      return H.Subtest(n[1], *[self.node(c) for c in n[2]])
    if k == 'B':
      _, name, cond, results, nodes = n
      dc = H.DiagnosisCondition(condition=pb.ConditionOn[cond],
                                diagnosis_results=tuple(R[r] for r in results))
      return H.BranchSequence(dc, *[self.node(c) for c in nodes], name=name)
    if k == 'BX':
      # a diagnosis result passed where a DiagnosisCondition is expected
      return H.BranchSequence(R.D4, *[self.node(c) for c in n[2]], name=n[1])
    if k == 'G':
      _, s, m, t = n
      return H.PhaseGroup(setup=[self.node(c) for c in s] or None,
                          main=[self.node(c) for c in m] or None,
                          teardown=[self.node(c) for c in t] or None)
    raise ValueError(n)

  def phase(self, n):
    H = htf()
    pd, R = _H['pd'], _H['R']
    _, pid, beh = n
    PR = H.PhaseResult
    log, ctr, vc = self.log, self.ctr, _H['vc']
    release = self.release
    plug_idx = list(beh.get('plugs') or [])

    def body(test, **plug_args):
      inv = ctr.get(pid, 0)
      ctr[pid] = inv + 1
      log.add('start', pid, inv,
              {a: id(p) for a, p in plug_args.items()} if plug_args else None)
      try:
        if beh.get('mon') and test is not None:
          # monitored phase: the body is longer than one sampling interval
          mon = test.measurements['mon_' + pid]
          t_end = time.monotonic() + 10
          while not mon.is_value_set and time.monotonic() < t_end:
            time.sleep(0.0005)
        m = beh.get('m')
        if m and m != 'unset':
          test.measurements['m_' + pid] = {'pass': 5, 'fail': 50,
                                           'marginal': 9.5}[m]
        r = beh.get('r', 'C')
        if isinstance(r, list):
          r = r[min(inv, len(r) - 1)]
        if beh.get('slow'):
          # cooperative (killable) delay in real time
          t_end = time.monotonic() + beh['slow']
          while time.monotonic() < t_end:
            time.sleep(0.0005)
        if r == 'H':
          log.add('hang', pid, inv)
          while True:
            time.sleep(0.0005)
        if r == 'HU':
          # blocked in a C wait: a kill request has no effect until the
          # harness releases it (Built.release), after which it just returns
          log.add('hang_unkillable', pid, inv)
          try:
            with vc.cv:          # the virtual clock must not wait for this body
              vc.hung.add(threading.current_thread())
              vc.cv.notify_all()
            release.wait(60)
          except BaseException:  # pylint: disable=broad-except
            pass
          return None
        if r == 'T':
          log.add('hang', pid, inv)
          while True:
            vc.vsleep(1.0)
        if r == 'X':
          raise Boom('boom ' + pid)
        if r == 'XK':
          raise KeyError('boom ' + pid)
        if r == 'BAD':
          return 42
        if r in ('BAD0', 'BADF', 'BADS', 'BADL'):
          # falsy values that are neither None nor a PhaseResult
          return {'BAD0': 0, 'BADF': False, 'BADS': '', 'BADL': []}[r]
        return {'C': None, 'CC': PR.CONTINUE, 'F': PR.FAIL_AND_CONTINUE,
                'K': PR.SKIP, 'S': PR.STOP, 'U': PR.FAIL_SUBTEST,
                'R': PR.REPEAT}[r]
      except BaseException as e:
        log.add('raised', pid, inv, type(e).__name__)
        raise
      finally:
        log.add('end', pid, inv)

    if beh.get('noarg'):
      # a phase function without the positional `test` argument: openhtf
      # passes it neither a TestApi nor the state
      inner = body

      def body(**plug_args):  # pylint: disable=function-redefined
        return inner(None, **plug_args)
    body.__name__ = pid
    body.__qualname__ = pid
    if beh.get('mon') and not beh.get('noarg'):
      # @monitors wraps the bare function; everything else is declared on the
      # wrapper it returns (the monitor adds the measurement 'mon_<pid>', which
      # has a sample by the time the body continues)
      from openhtf.core import monitors

      def sampler(test):
        return 1.5
      body = monitors.monitors('mon_' + pid, sampler, poll_interval_ms=2)(body)
    ph = pd.PhaseDescriptor.wrap_or_copy(body)
    for ent in plug_idx:
      # an int i asks for plug class i as argument 'plug<i>'; a string such as
      # '0b' asks for the same class 0 under a second name 'plug0b'
      ph = H.plugs.plug(**{'plug%s' % ent: self.plug_class(plug_index(ent))})(ph)
    if beh.get('with_args'):
      # keyword values given with with_args(); a name that is also a plug
      # argument must still be bound to the plug ("plugs override extra_kwargs")
      ph = ph.with_args(**{k: v for k, v in beh['with_args'].items()})
    if 'm' in beh and beh.get('mdim'):
      # a dimensioned measurement (only ever left unset by the generated bodies)
      ph = H.measures(H.Measurement('m_' + pid).with_dimensions('x').in_range(
          0, 10, marginal_maximum=9))(ph)
    elif 'm' in beh:
      ph = H.measures(H.Measurement('m_' + pid).in_range(
          0, 10, marginal_maximum=9))(ph)
    for di, spec in enumerate(beh.get('ds') or []):
      ph = H.diagnose(self.diagnoser(pid, di, spec))(ph)
    opts = dict(beh.get('opts') or {})
    ri = beh.get('run_if')
    if ri is not None:
      def run_if(_ri=ri):
        log.add('run_if', pid)
        if isinstance(_ri, list):      # stateful: one entry per evaluation
          # counted in self.ctr, which callers clear between runs of one Built
          k = ctr[('run_if', pid)] = ctr.get(('run_if', pid), 0) + 1
          _ri = _ri[min(k, len(_ri)) - 1]
        if _ri == 'raise':
          raise RuntimeError('run_if boom')
        if _ri == 'exit':
          # a BaseException that is not an Exception, on the executor thread
          log.add('exit_raised', pid)
          raise SystemExit('run_if exit')
        return bool(_ri)
      opts['run_if'] = run_if
    r = beh.get('r', 'C')
    if r == 'T' or (isinstance(r, list) and 'T' in r):
      opts.setdefault('timeout_s', 10)
    if opts and beh.get('stack') and 'repeat_limit' in opts:
      # options given by two decorator layers: the repeat limit first, the rest
      # (or just the name) on top; a later layer must not undo an earlier one
      ph = H.PhaseOptions(repeat_limit=opts.pop('repeat_limit'))(ph)
      ph = H.PhaseOptions(**opts)(ph) if opts else H.PhaseOptions(name=pid)(ph)
    elif opts:
      ph = H.PhaseOptions(**opts)(ph)
    return ph

  def diagnoser(self, pid, di, spec):
    H = htf()
    R = _H['R']
    calls = self.diag_calls
    log = self.log

    # a dict spec {'af': 1, 'shape': 'single'|'list'|'tuple'|'gen', 'ds': [...]}
    # declares the diagnoser with always_fail=True and chooses how the
    # diagnoses are handed back
    af = isinstance(spec, dict)
    shape = spec.get('shape', 'list') if af else 'list'
    entries = spec['ds'] if af else spec

    @H.PhaseDiagnoser(R, name='diag_%s_%d' % (pid, di), always_fail=af)
    def diag(phase_record, _spec=entries):
      calls[(pid, di)] = calls.get((pid, di), 0) + 1
      log.add('diag', pid, di)
      if _spec == 'RAISE':
        raise RuntimeError('diag boom')
      out = [H.Diagnosis(R[e[0]], 'x', is_failure=bool(e[1]),
                         is_internal=bool(e[2:] and e[2])) for e in _spec]
      if shape == 'single':
        return out[0] if out else None
      if shape == 'tuple':
        return tuple(out)
      if shape == 'gen':
        return (d for d in out)
      return out

    return diag


def settle(limit_s=2.0):
  """Waits until no TestExecutor thread is alive any more, so that whatever
  a finished run's executor thread still logs has been logged."""
  t_end = time.monotonic() + limit_s
  while time.monotonic() < t_end:
    if not any(th.name.startswith('TestExecutorThread')
               for th in threading.enumerate()):
      return True
    time.sleep(0.0005)
  return False


def plug_index(ent):
  if isinstance(ent, int):
    return ent
  import re
  return int(re.match(r'\d+', str(ent)).group(0))


def res_name(outcome):
  if outcome is None:
    return None
  r = outcome.phase_result
  if r is None:
    return 'TIMEOUT'
  if isinstance(r, htf().PhaseResult):
    return r.name
  return 'EXC'


def run_real(prog, cfg, callbacks=None, keep=False):
  """Builds and executes the program; returns the observation dict."""
  H = htf()
  CONF = _H['CONF']
  b = Built(prog, cfg)
  recs = b.recs
  t = b.test
  t.add_output_callbacks(lambda r: (b.log.add('callback', 0), recs.append(r)))
  for cb in callbacks or []:
    t.add_output_callbacks(cb)
  crashes = []
  old_hook = threading.excepthook

  def hook(a):
    if issubclass(a.exc_type, SystemExit):
      return
    if a.exc_type.__name__ == 'ThreadTerminationError':
      return
    if getattr(a.thread, 'name', '').endswith('_MonitorThread'):
      # the sampling thread of a monitored phase that timed out: it samples
      # until the abandoned body thread stops it; not an executor thread
      return
    last = traceback.extract_tb(a.exc_traceback)[-1]
    crashes.append((a.exc_type.__name__, last.name,
                    getattr(a.thread, 'name', '?')))

  threading.excepthook = hook
  conf = {}
  if cfg.get('sof') == 'conf':
    conf['stop_on_first_failure'] = True
  if cfg.get('allow_unset'):
    conf['allow_unset_measurements'] = True
  if cfg.get('plug_td_timeout') is not None:
    conf['plug_teardown_timeout_s'] = cfg['plug_td_timeout']
  exc = None
  ret = None
  try:
    @CONF.save_and_restore(**conf)
    def go():
      return t.execute(test_start=b.start)
    try:
      ret = go()
    except Exception as e:  # pylint: disable=broad-except
      exc = '%s: %s' % (type(e).__name__, str(e)[:200])
  finally:
    b.release.set()
    threading.excepthook = old_hook
    prune_handlers()
  for e in b.log.events:
    if e[2] == 'exit_raised':     # threading.excepthook is not told about SystemExit
      crashes.append(('SystemExit', 'run_if', 'TestExecutorThread'))
  obs = {'crash': crashes, 'exc': exc, 'ret': ret,
         'calls': [e[3] for e in b.log.events if e[2] == 'start'],
         'ncallbacks': len(recs)}
  if recs:
    rec = recs[0]
    obs.update(observe_record(rec))
  obs['tdiag_calls'] = sum(1 for e in b.log.events if e[2] == 'tdiag')
  obs['diag_calls'] = {'%s/%d' % k: v for k, v in sorted(b.diag_calls.items())}
  if keep:
    obs['_built'] = b
    obs['_events'] = list(b.log.events)
  return obs


def observe_record(rec):
  return {
      'outcome': rec.outcome.name if rec.outcome else None,
      'phases': [[p.name, p.outcome.name if p.outcome else None,
                  res_name(p.result), p.subtest_name,
                  sorted(r.name for r in p.diagnosis_results),
                  sorted(r.name for r in p.failure_diagnosis_results)]
                 for p in rec.phases],
      'subtests': [[s.name, s.outcome.name] for s in rec.subtests],
      'branches': [[br.name, br.branch_taken] for br in rec.branches],
      'checkpoints': [[c.name, res_name(c.result), c.subtest_name]
                      for c in rec.checkpoints],
      # ('mon_<pid>' is the measurement a @monitors wrapper adds)
      'meas': [[p.name, sorted((m.name, m.outcome.name)
                               for m in p.measurements.values()
                               if not m.name.startswith('mon_'))]
               for p in rec.phases
               if any(not n.startswith('mon_') for n in p.measurements)],
      'diagnoses': sorted((d.result.name, bool(d.is_failure))
                          for d in rec.diagnoses),
      'details': sorted(d.code for d in rec.outcome_details),
  }


# ------------------------------------------------------- reference interpreter
class Model:
  """Executable reading of docs/event_sequence.md + PhaseResult/PhaseOptions
  docstrings + the outcome rules of C01/C05 (doc-silent rules r1-r12 are
  marked)."""

  def __init__(self, cfg):
    self.cfg = cfg
    self.calls = []
    self.phases = []
    self.subtests = []
    self.branches = []
    self.checkpoints = []
    self.meas = []
    self.diags = set()
    self.diagnoses = []
    self.failure_diag = False
    self.terminal = None       # (kind, exception class name or None)
    self.ctr = {}
    self.diag_calls = {}
    self.crashed = False
    self.sof = bool(cfg.get('sof'))

  # -- helpers
  def term(self, kind, exc=None):
    if self.terminal is None:
      self.terminal = (kind, exc)
    return 'TERM'

  def node(self, n, sub, td):
    return getattr(self, 'n_' + n[0])(n, sub, td)

  def seq(self, nodes, sub, td):
    if td:
      ret = 'CONT'
      for n in nodes:
        if self.crashed:
          return 'TERM'
        if self.node(n, sub, True) == 'TERM':
          ret = 'TERM'
      return ret
    for n in nodes:
      if self.crashed:
        return 'TERM'
      if self.node(n, sub, False) == 'TERM':
        return 'TERM'
    return 'CONT'

  def failing(self, sub):
    return bool(sub and sub['outcome'] == 'FAIL')

  def cond(self, c, results):
    vals = [r in self.diags for r in results]
    return {'ALL': all(vals), 'ANY': any(vals), 'NOT_ANY': not any(vals),
            'NOT_ALL': not all(vals)}[c]

  # -- containers
  def n_S(self, n, sub, td):
    return self.seq(n[1], sub, td)

  def n_T(self, n, sub, td):
    rec = {'name': n[1], 'outcome': 'PASS'}
    if self.failing(sub):
      rec['outcome'] = 'FAIL'                       # (r3)
    ret = self.seq(n[2], rec, td)
    if self.crashed:
      return 'TERM'                                 # record never written
    if ret == 'TERM':
      rec['outcome'] = 'STOP'
    self.subtests.append([rec['name'], rec['outcome']])   # (r4)
    return ret

  def n_B(self, n, sub, td):
    _, name, c, results, nodes = n
    if not td and self.failing(sub):
      return 'CONT'                                 # (r1) no record
    taken = self.cond(c, results)
    ret = self.seq(nodes, sub, td) if taken else 'CONT'
    if self.crashed:
      return 'TERM'
    self.branches.append([name, taken])
    return ret

  def n_BX(self, n, sub, td):
    # The mistyped condition is touched as soon as the node is reached (even
    # under a failed subtest): the executor thread dies here.
    self.crashed = True
    return 'TERM'

  def n_G(self, n, sub, td):
    _, s, m, t = n
    if td:
      if s and self.seq(s, sub, True) == 'TERM':
        return 'TERM'
      mret = self.seq(m, sub, True) if m else 'CONT'
      if self.crashed:
        return 'TERM'
      tret = self.seq(t, sub, True) if t else 'CONT'
      return 'TERM' if 'TERM' in (mret, tret) else 'CONT'
    entered_failing = self.failing(sub)
    if s and self.seq(s, sub, False) == 'TERM':
      return 'TERM'
    skip_td = entered_failing or self.failing(sub)
    mret = self.seq(m, sub, False) if m else 'CONT'
    if self.crashed:
      return 'TERM'   # a crashed executor runs no teardown (finding F1 class)
    tret = self.seq(t, sub, not skip_td) if t else 'CONT'
    return 'TERM' if 'TERM' in (mret, tret) else 'CONT'

  # -- checkpoint
  def n_C(self, n, sub, td):
    _, cid, kind, action = n
    subname = sub['name'] if sub else None
    if not td and self.failing(sub):
      self.checkpoints.append([cid, 'SKIP', subname])       # (r2)
      return 'CONT'
    exc = None
    try:
      if kind in ('last', 'all', 'sub'):
        if not self.phases:
          raise LookupError('NoPhasesFoundError')           # (r5)
        if kind == 'last':
          hit = self.phases[-1][1] == 'FAIL'
        elif kind == 'sub' and sub:
          hit = any(p[1] == 'FAIL' and p[3] == sub['name'] for p in self.phases)
        else:
          hit = any(p[1] == 'FAIL' for p in self.phases)    # (r6)
      else:
        hit = self.cond(*kind)
      res = {'S': 'STOP', 'U': 'FAIL_SUBTEST'}[action] if hit else 'CONTINUE'
      if res == 'FAIL_SUBTEST' and not sub:
        raise LookupError('InvalidPhaseResultError')        # (r7)
    except LookupError as e:
      res = 'EXC'
      exc = str(e)
    self.checkpoints.append([cid, res, subname])
    if res == 'STOP':
      return self.term('STOP')
    if res == 'EXC':
      return self.term('EXC', exc)
    if res == 'FAIL_SUBTEST':
      sub['outcome'] = 'FAIL'
    return 'CONT'

  # -- phase
  def n_P(self, n, sub, td, is_start=False):
    _, pid, beh = n
    subname = sub['name'] if sub else None
    if not td and self.failing(sub):
      self.phases.append([pid, 'SKIP', 'SKIP', subname, [], []])
      if 'm' in beh:
        self.meas.append([pid, [('m_' + pid, 'UNSET')]])
      return 'CONT'
    opts = beh.get('opts') or {}
    limit = opts.get('repeat_limit') or 3
    count = 1
    last_recorded = None
    while True:
      last = count >= limit
      recorded = None
      ri = beh.get('run_if')
      if isinstance(ri, list):
        ri = ri[min(count, len(ri)) - 1]
      if ri == 'exit':
        self.crashed = True      # SystemExit on the executor thread
        return 'TERM'
      if ri == 'raise':
        final, exc = 'EXC', 'RuntimeError'                   # (r10)
      elif ri is False:
        final, exc = 'SKIP', None                            # (r11)
      else:
        final, recorded, exc = self.once(pid, beh, sub, last)
      if recorded is not None:
        last_recorded = recorded
      rep = False
      if final == 'TIMEOUT' and opts.get('repeat_on_timeout'):
        rep = True
      elif final == 'REPEAT':
        rep = True
      elif opts.get('force_repeat'):
        rep = True
      elif opts.get('repeat_on_measurement_fail'):
        rep = recorded is not None and recorded[1] == 'FAIL'
      if rep and not last:
        count += 1
        continue
      break
    # (r8, r12; r15: the last record the phase wrote decides, also when a
    # later attempt was skipped by a run_if that turned false)
    if (self.sof and not is_start and last_recorded is not None and
        last_recorded[1] == 'FAIL'):
      final, exc = 'STOP', None
    if final in ('STOP', 'EXC', 'TIMEOUT'):
      return self.term(final, exc)
    if final == 'FAIL_SUBTEST':
      sub['outcome'] = 'FAIL'
    return 'CONT'

  def once(self, pid, beh, sub, last):
    subname = sub['name'] if sub else None
    n = self.ctr.get(pid, 0)
    self.ctr[pid] = n + 1
    self.calls.append(pid)
    r = beh.get('r', 'C')
    if isinstance(r, list):
      r = r[min(n, len(r) - 1)]
    res = {'C': 'CONTINUE', 'CC': 'CONTINUE', 'F': 'FAIL_AND_CONTINUE',
           'K': 'SKIP', 'S': 'STOP', 'U': 'FAIL_SUBTEST', 'R': 'REPEAT',
           'X': 'EXC', 'XK': 'EXC', 'BAD': 'EXC', 'T': 'TIMEOUT',
           'BAD0': 'EXC', 'BADF': 'EXC', 'BADS': 'EXC', 'BADL': 'EXC'}[r]
    exc = {'X': 'Boom', 'XK': 'KeyError'}.get(
        r, 'InvalidPhaseResultError' if r.startswith('BAD') else None)
    if res == 'FAIL_SUBTEST' and not sub:
      res, exc = 'EXC', 'InvalidPhaseResultError'            # (r7)
    hit_limit = res == 'REPEAT' and last
    m = beh.get('m')
    # a body that raises or hangs has still made its assignment first
    m_outcome = None
    if m:
      m_outcome = {'pass': 'PASS', 'marginal': 'PASS', 'fail': 'FAIL',
                   'unset': 'UNSET'}[m]
    meas_ok = (m_outcome in (None, 'PASS') or
               (m_outcome == 'UNSET' and self.cfg.get('allow_unset')))
    if res in ('EXC', 'STOP', 'TIMEOUT') or hit_limit:
      outcome = 'ERROR'
    elif res in ('REPEAT', 'SKIP'):
      outcome = 'SKIP'
    elif res in ('FAIL_SUBTEST', 'FAIL_AND_CONTINUE'):
      outcome = 'FAIL'
    elif not meas_ok:
      outcome = 'FAIL'
      if (beh.get('opts') or {}).get('stop_on_measurement_fail'):
        res = 'STOP'
    else:
      outcome = 'PASS'
    dres, dfail = [], []
    if res not in ('REPEAT', 'SKIP'):
      for di, spec in enumerate(beh.get('ds') or []):
        self.diag_calls['%s/%d' % (pid, di)] = self.diag_calls.get(
            '%s/%d' % (pid, di), 0) + 1
        if spec == 'RAISE':
          if res not in ('EXC', 'STOP', 'TIMEOUT'):
            res, exc = 'EXC', 'RuntimeError'
          continue
        always_fail = isinstance(spec, dict)
        ents = spec['ds'] if always_fail else spec
        if always_fail and spec.get('shape') == 'single':
          ents = ents[:1]
        for ent in ents:
          name, isf = ent[0], ent[1] or always_fail
          self.diags.add(name)
          if not (ent[2:] and ent[2]):
            # an internal diagnosis is in the store and on the phase record
            # but is not serialized into the test record's diagnoses
            self.diagnoses.append((name, bool(isf)))
          if isf:
            dfail.append(name)
            self.failure_diag = True
          else:
            dres.append(name)
    if outcome != 'ERROR':
      if res in ('EXC', 'STOP', 'TIMEOUT'):
        outcome = 'ERROR'
      elif outcome == 'PASS' and dfail:
        outcome = 'FAIL'
    rec = [pid, outcome, res, subname, sorted(dres), sorted(dfail)]
    self.phases.append(rec)
    if m:
      self.meas.append([pid, [('m_' + pid, m_outcome)]])
    final = 'STOP' if hit_limit else res
    return final, rec, exc

  # -- whole run
  def run(self, prog):
    cfg = self.cfg
    tdiag_calls = 0
    start_terminal = False
    if cfg.get('start'):
      if self.n_P(cfg['start'], None, False, is_start=True) == 'TERM':
        start_terminal = True
    plug_fail = False
    if not start_terminal:
      self.seq(prog, None, False)
      if not self.crashed and cfg.get('tdiag'):            # (r9)
        tdiag_calls = 1
        td = cfg['tdiag']
        if td == 'raise':
          if self.terminal is None:
            self.terminal = ('EXC', 'KeyError')
        else:
          self.diagnoses.append(('T1', td in ('fail', 'fail_then_ok')))
          if td in ('fail', 'fail_then_ok'):
            self.failure_diag = True
          if td == 'fail_then_ok':
            self.diagnoses.append(('T1', False))
    out = self.finish()
    details = []
    t = self.terminal
    if t:
      details = [{'EXC': t[1], 'STOP': 'STOP', 'TIMEOUT': 'TIMEOUT'}[t[0]]]
    elif out == 'ERROR' and not self.crashed:
      details = ['ALL_SKIPPED']
    return {'crash': self.crashed, 'calls': self.calls, 'outcome': out,
            'ret': out == 'PASS', 'phases': self.phases,
            'subtests': self.subtests, 'branches': self.branches,
            'checkpoints': self.checkpoints, 'meas': self.meas,
            'diagnoses': sorted(self.diagnoses), 'tdiag_calls': tdiag_calls,
            'diag_calls': dict(sorted(self.diag_calls.items())),
            'details': details}

  def failure_exception(self, name):
    f = self.cfg.get('fexc')
    if f == 'exact':
      return name == 'Boom'
    if f == 'super':
      return name in ('Boom', 'KeyError')   # ValueError and LookupError listed
    return False

  def finish(self):
    t = self.terminal
    if t:
      if t[0] == 'EXC':
        return 'FAIL' if self.failure_exception(t[1]) else 'ERROR'
      if t[0] == 'TIMEOUT':
        return 'TIMEOUT'
      return 'FAIL'
    if self.crashed:
      return 'CRASH'   # any outcome but PASS is acceptable (see compare)
    if not self.phases:
      if self.failure_diag or any(s[1] == 'FAIL' for s in self.subtests):
        return 'FAIL'
      return 'PASS'
    if any(p[1] == 'FAIL' for p in self.phases):
      return 'FAIL'
    if all(p[1] == 'SKIP' for p in self.phases):
      return 'ERROR'
    if self.failure_diag:
      return 'FAIL'
    if any(s[1] == 'FAIL' for s in self.subtests):
      return 'FAIL'
    return 'PASS'


def run_model(prog, cfg):
  return Model(cfg).run(prog)


COMPARE_KEYS = ['calls', 'outcome', 'ret', 'phases', 'subtests', 'branches',
                'checkpoints', 'meas', 'diagnoses', 'tdiag_calls',
                'diag_calls']


def norm(x):
  """JSON-like normal form (tuples -> lists) for comparisons."""
  if isinstance(x, (list, tuple)):
    return [norm(e) for e in x]
  if isinstance(x, dict):
    return {k: norm(v) for k, v in x.items()}
  return x


def diff(real, model, keys=COMPARE_KEYS):
  """Returns the list of observation keys on which run and model disagree."""
  out = []
  crashed = bool(model['crash'])
  for k in keys:
    if crashed and k in ('outcome', 'ret'):
      # an executor failure may end in any outcome except PASS
      if real.get('outcome') == 'PASS' or real.get('ret') is True:
        out.append(k)
      continue
    if norm(real.get(k)) != norm(model[k]):
      out.append(k)
  if bool(real.get('crash')) != crashed:
    out.append('crash')
  return out


# ------------------------------------------------------------ enumeration
def leaf_alphabet(which):
  """Returns (phase behaviours, checkpoint kinds, branch conditions)."""
  if which == 'full':
    phases = []
    for r in ('C', 'F', 'K', 'S', 'U', 'X'):
      phases.append({'r': r})
      phases.append({'r': r, 'ds': [[['D1', 0]]]})
    cps = [[k, a] for k in ('last', 'all', 'sub', ['ANY', ['D1']])
           for a in ('S', 'U')]
    conds = [['ANY', ['D1']], ['NOT_ANY', ['D1']]]
  else:
    phases = [{'r': 'C'}, {'r': 'F'}, {'r': 'U'}, {'r': 'X'},
              {'r': 'C', 'ds': [[['D1', 0]]]}, {'r': 'C', 'ds': [[['D2', 1]]]},
              {'r': 'C', 'ds': [[['D1', 0, 1]]]}]
    cps = [['last', 'U'], [['ANY', ['D1']], 'S']]
    conds = [['ANY', ['D1']]]
  return phases, cps, conds


def enum_programs(which, max_nodes):
  """All programs (lists of nodes) with 1..max_nodes nodes over the alphabet.
  Containers count as nodes; a group distributes children over three slots."""
  phases, cps, conds = leaf_alphabet(which)
  leaves = [('P', b) for b in phases] + [('C', c) for c in cps]

  def forests(n):
    """All ordered forests with exactly n nodes."""
    if n == 0:
      yield []
      return
    for first_size in range(1, n + 1):
      for first in trees(first_size):
        for rest in forests(n - first_size):
          yield [first] + rest

  def trees(n):
    if n == 1:
      for kind, x in leaves:
        yield (kind, x)
    inner = n - 1
    if n >= 1:
      for f in forests(inner):
        if n > 1 or True:
          yield ('S', f)
          yield ('T', f)
          for c in conds:
            yield ('B', c, f)
      # group: split the forest of `inner` nodes over three slots
      for a in range(inner + 1):
        for b in range(inner - a + 1):
          c = inner - a - b
          for fa in forests(a):
            for fb in forests(b):
              for fc in forests(c):
                yield ('G', fa, fb, fc)

  def label(tree, ids):
    k = tree[0]
    if k == 'P':
      return ['P', 'p%d' % next(ids), dict(tree[1])]
    if k == 'C':
      return ['C', 'c%d' % next(ids), tree[1][0], tree[1][1]]
    if k == 'S':
      return ['S', [label(t, ids) for t in tree[1]]]
    if k == 'T':
      return ['T', 't%d' % next(ids), [label(t, ids) for t in tree[1]]]
    if k == 'B':
      return ['B', 'b%d' % next(ids), tree[1][0], tree[1][1],
              [label(t, ids) for t in tree[2]]]
    if k == 'G':
      return ['G'] + [[label(t, ids) for t in part] for part in tree[1:]]
    raise ValueError(k)

  for n in range(1, max_nodes + 1):
    for f in forests(n):
      ids = itertools.count()
      yield [label(t, ids) for t in f]


def count_programs(which, max_nodes):
  return sum(1 for _ in enum_programs(which, max_nodes))


# ------------------------------------------------------------ random generator
def gen_node(rng, depth, ids, rich=True):
  kinds = ['P', 'P', 'P', 'P', 'C', 'S', 'T', 'B', 'G', 'G']
  k = rng.choice(kinds) if depth > 0 else rng.choice(['P', 'P', 'P', 'C'])
  if k == 'P':
    return gen_phase(rng, ids, rich)
  if k == 'C':
    kind = rng.choice(['last', 'all', 'sub', ['ANY', ['D1']],
                       ['ALL', ['D1', 'D3']], ['NOT_ANY', ['D2']],
                       ['NOT_ALL', ['D1', 'D2']]])
    return ['C', 'c%d' % next(ids), kind, rng.choice(['S', 'U'])]
  kids = lambda lo, hi: [gen_node(rng, depth - 1, ids, rich)
                         for _ in range(rng.randint(lo, hi))]
  if k == 'S':
    return ['S', kids(0, 3)]
  if k == 'T':
    return ['T', 't%d' % next(ids), kids(0, 4)]
  if k == 'B':
    return ['B', 'b%d' % next(ids),
            rng.choice(['ALL', 'ANY', 'NOT_ANY', 'NOT_ALL']),
            rng.choice([['D1'], ['D2'], ['D1', 'D3'], []]), kids(0, 3)]
  return ['G', kids(0, 2), kids(0, 3), kids(0, 2)]


def gen_phase(rng, ids, rich=True):
  pid = 'p%d' % next(ids)
  beh = {}
  beh['r'] = rng.choice(['C', 'C', 'C', 'C', 'CC', 'F', 'K', 'S', 'U', 'X',
                         'R', ['R', 'C'], ['R', 'R', 'F'], 'BAD', 'BAD0', 'BADS'])
  if rng.random() < .3:
    beh['m'] = rng.choice(['pass', 'fail', 'unset', 'marginal'])
  if rng.random() < .35:
    n = rng.choice([1, 1, 1, 2])
    beh['ds'] = [rng.choice([[['D1', 0]], [['D2', 1]], [['D1', 0, 1]],
                             [['D1', 0], ['D3', 0, 1]], 'RAISE', [],
                             {'af': 1, 'shape': 'list', 'ds': [['D2', 0]]},
                             {'af': 1, 'shape': 'single', 'ds': [['D2', 0]]}])
                 for _ in range(n)]
  if rich:
    if rng.random() < .1:
      beh['run_if'] = rng.choice([False, False, True, 'raise', [True, False],
                                  [True, False, True], [False, True], 'exit'])
    if rng.random() < .2:
      beh['opts'] = rng.choice([
          {'force_repeat': True}, {'repeat_on_measurement_fail': True},
          {'repeat_limit': 2}, {'repeat_limit': 1},
          {'stop_on_measurement_fail': True},
          {'force_repeat': True, 'repeat_limit': 2},
          {'repeat_on_measurement_fail': True, 'repeat_limit': 4}])
    if rng.random() < .08:
      beh['r'] = rng.choice(['T', ['T', 'C'], ['T', 'T', 'C'], 'XK'])
      if rng.random() < .5 and beh['r'] != 'XK':
        beh.setdefault('opts', {})
        beh['opts'] = dict(beh['opts'], repeat_on_timeout=True)
  return ['P', pid, beh]


def gen_program(rng, depth=3, width=4, rich=True):
  ids = itertools.count()
  return [gen_node(rng, depth, ids, rich) for _ in range(rng.randint(1, width))]


def gen_cfg(rng):
  cfg = {}
  s = rng.choice([None, None, None, 'opt', 'conf'])
  if s:
    cfg['sof'] = s
  f = rng.choice([None, None, 'exact', 'super'])
  if f:
    cfg['fexc'] = f
  if rng.random() < .3:
    cfg['allow_unset'] = True
  td = rng.choice([None, None, None, 'pass', 'fail', 'raise'])
  if td:
    cfg['tdiag'] = td
  if rng.random() < .3:
    beh = {'r': rng.choice(['C', 'C', 'C', 'F', 'S', 'X', 'K', 'T', 'U'])}
    if rng.random() < .3:
      beh['m'] = rng.choice(['pass', 'fail'])
    cfg['start'] = ['P', 'start', beh]
  return cfg


def walk(prog):
  """Yields (node, path) for every node of a program."""
  def rec(n, path):
    yield n, path
    k = n[0]
    if k == 'S':
      for i, c in enumerate(n[1]):
        yield from rec(c, path + ('S', i))
    elif k == 'T':
      for i, c in enumerate(n[2]):
        yield from rec(c, path + ('T', i))
    elif k == 'B':
      for i, c in enumerate(n[4]):
        yield from rec(c, path + ('B', i))
    elif k == 'BX':
      for i, c in enumerate(n[2]):
        yield from rec(c, path + ('BX', i))
    elif k == 'G':
      for part, nodes in zip(('setup', 'main', 'teardown'), n[1:]):
        for i, c in enumerate(nodes):
          yield from rec(c, path + ('G' + part, i))
  for i, n in enumerate(prog):
    yield from rec(n, ('top', i))
