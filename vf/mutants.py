"""Hand-written mutants used by tools/selftest.py (each must be caught by the
quick tier of its property's check)."""

MUTANTS = []


def M(prop, mid, file, old, new, what, count=1):
  MUTANTS.append({'property': prop, 'id': mid, 'file': file, 'old': old,
                  'new': new, 'what': what, 'count': count})


# ---------------------------------------------------------------- C07
M('C07', 'c07-max-exclusive', 'openhtf/util/validators.py',
  "    if self._maximum is not None and value > self.maximum:\n      return False\n    return True",
  "    if self._maximum is not None and value >= self.maximum:\n      return False\n    return True",
  'InRange upper bound becomes exclusive')
M('C07', 'c07-drop-nan', 'openhtf/util/validators.py',
  "    if _is_nan(value):\n      return False\n    if self._minimum is not None and value < self.minimum:",
  "    if self._minimum is not None and value < self.minimum:",
  'InRange.__call__ no longer rejects NaN')
M('C07', 'c07-asym-percent', 'openhtf/util/validators.py',
  "    return abs(self.expected * self.percent / 100.0)",
  "    return self.expected * self.percent / 100.0",
  'percent tolerance not symmetric for negative expected values')
M('C07', 'c07-ctor-skip', 'openhtf/util/validators.py',
  "      raise ValueError('Marginal maximum cannot be greater than the maximum')\n    if (marginal_minimum is not None and marginal_maximum is not None and\n        isinstance(marginal_minimum, numbers.Number) and\n        isinstance(marginal_maximum, numbers.Number) and\n        marginal_minimum > marginal_maximum):\n      raise ValueError(\n          'Marginal minimum cannot be greater than the marginal maximum')\n\n    self._minimum = minimum\n    self._maximum = maximum\n    self._marginal_minimum = marginal_minimum\n    self._marginal_maximum = marginal_maximum\n    self._type = type",
  "      raise ValueError('Marginal maximum cannot be greater than the maximum')\n\n    self._minimum = minimum\n    self._maximum = maximum\n    self._marginal_minimum = marginal_minimum\n    self._marginal_maximum = marginal_maximum\n    self._type = type",
  'InRange constructor no longer rejects marginal minimum > marginal maximum')
M('C07', 'c07-marginal-exclusive', 'openhtf/util/validators.py',
  "        self.maximum >= value >= self.marginal_maximum):",
  "        self.maximum >= value > self.marginal_maximum):",
  'marginal band excludes the marginal limit itself')
M('C07', 'c07-regex-search', 'openhtf/util/validators.py',
  "    return self._compiled.match(str(value)) is not None",
  "    return self._compiled.search(str(value)) is not None",
  'regex matched anywhere instead of from the start')
M('C07', 'c07-withargs-drops-type', 'openhtf/util/validators.py',
  "        marginal_maximum=util.format_string(self._marginal_maximum, kwargs),\n        type=self._type,",
  "        marginal_maximum=util.format_string(self._marginal_maximum, kwargs),\n        type=None,",
  'with_args loses the declared type')

# ---------------------------------------------------------------- C20
M('C20', 'c20-loaded-over-flag', 'openhtf/util/configuration.py',
  "    if item in self._flag_values:\n      if item in self._loaded_values:",
  "    if item in self._flag_values and item not in self._loaded_values:\n      if item in self._loaded_values:",
  'loaded value wins over flag value')
M('C20', 'c20-restore-partial', 'openhtf/util/configuration.py',
  "        self._loaded_values = saved_config  # pylint: disable=attribute-defined-outside-init",
  "        self._loaded_values.update(saved_config)",
  'save_and_restore only restores keys present at call time, new keys leak')
M('C20', 'c20-reset-clears-flags', 'openhtf/util/configuration.py',
  "    self._loaded_values = {}\n    if self._flags.config_file is not None:",
  "    self._loaded_values = {}\n    self._flag_values = {}\n    if self._flags.config_file is not None:",
  'reset drops flag values too')
M('C20', 'c20-asdict-loaded-last', 'openhtf/util/configuration.py',
  "    retval.update(self._loaded_values)\n",
  "",
  '_asdict ignores loaded values')
M('C20', 'c20-contains-ignores-flags', 'openhtf/util/configuration.py',
  "             name in self._loaded_values or name in self._flag_values))",
  "             name in self._loaded_values))",
  '`in` ignores flag-provided values')
M('C20', 'c20-override-false-ignored', 'openhtf/util/configuration.py',
  "              value, key, self._loaded_values[key])\n          continue",
  "              value, key, self._loaded_values[key])",
  '_override=False still overrides')

# ---------------------------------------------------------------- C13
M('C13', 'c13-no-writer-lock', 'openhtf/plugs/usb/adb_message.py',
  "    with self._writer_lock:\n      self._transport.write(message.header, timeout.remaining_ms)",
  "    if True:\n      self._transport.write(message.header, timeout.remaining_ms)",
  'write_message no longer serialises writers')
M('C13', 'c13-no-reader-lock', 'openhtf/plugs/usb/adb_message.py',
  "    with self._reader_lock:\n      raw_header = self._transport.read(",
  "    if True:\n      raw_header = self._transport.read(",
  'read_message no longer serialises readers')
M('C13', 'c13-skip-length-test', 'openhtf/plugs/usb/adb_message.py',
  "    if (len(data) != self.data_length or\n        message.data_crc32 != self.data_checksum):",
  "    if (message.data_crc32 != self.data_checksum):",
  'payload length no longer compared with the header')
M('C13', 'c13-skip-checksum', 'openhtf/plugs/usb/adb_message.py',
  "    if (len(data) != self.data_length or\n        message.data_crc32 != self.data_checksum):",
  "    if (len(data) != self.data_length):",
  'payload checksum no longer compared with the header')
M('C13', 'c13-drop-payload-on-timeout', 'openhtf/plugs/usb/adb_message.py',
  "        timeout = timeouts.PolledTimeout.from_millis(10)\n      self._transport.write(message.data, timeout.remaining_ms)",
  "        return\n      self._transport.write(message.data, timeout.remaining_ms)",
  'payload not sent when the timeout expired after the header')
M('C13', 'c13-magic-wrong', 'openhtf/plugs/usb/adb_message.py',
  "    self.magic = self._command ^ 0xFFFFFFFF",
  "    self.magic = self._command ^ 0xFFFFFFFE",
  'magic field is not command xor 0xFFFFFFFF')
M('C13', 'c13-lock-released-early', 'openhtf/plugs/usb/adb_message.py',
  "        timeout = timeouts.PolledTimeout.from_millis(10)\n      self._transport.write(message.data, timeout.remaining_ms)",
  "        timeout = timeouts.PolledTimeout.from_millis(10)\n    self._transport.write(message.data, timeout.remaining_ms)",
  'payload written after the writer lock was released')

# ---------------------------------------------------------------- C16
M('C16', 'c16-chunk-plus-one', 'openhtf/plugs/usb/fastboot_protocol.py',
  "      tmp = data.read(FASTBOOT_DOWNLOAD_CHUNK_SIZE_KB * 1024)",
  "      tmp = data.read(FASTBOOT_DOWNLOAD_CHUNK_SIZE_KB * 1024 + 1)",
  'chunks one byte larger than configured')
M('C16', 'c16-send-before-size-check', 'openhtf/plugs/usb/fastboot_protocol.py',
  "    if accepted_size != source_len:\n      raise usb_exceptions.FastbootTransferError(\n          'Device refused to download %s bytes of data (accepts %s bytes)' %\n          (source_len, accepted_size))\n    self._write(source_file, accepted_size, progress_callback)",
  "    self._write(source_file, source_len, progress_callback)\n    if accepted_size != source_len:\n      raise usb_exceptions.FastbootTransferError(\n          'Device refused to download %s bytes of data (accepts %s bytes)' %\n          (source_len, accepted_size))",
  'image sent before the announced size is compared')
M('C16', 'c16-fail-as-info', 'openhtf/plugs/usb/fastboot_protocol.py',
  "      elif header == 'FAIL':\n        info_cb(FastbootMessage(remaining, header))\n        raise usb_exceptions.FastbootRemoteFailureError('FAIL: %s' % remaining)",
  "      elif header == 'FAIL':\n        info_cb(FastbootMessage(remaining, header))",
  'FAIL treated like INFO')
M('C16', 'c16-progress-abort', 'openhtf/plugs/usb/fastboot_protocol.py',
  "        _LOG.exception('Progress callback raised an exception. %s',\n                       progress_callback)\n        continue",
  "        raise",
  'raising progress callback aborts the transfer')
M('C16', 'c16-progress-not-cumulative', 'openhtf/plugs/usb/fastboot_protocol.py',
  "      current += yield",
  "      current = yield",
  'progress reports chunk size instead of cumulative bytes')
M('C16', 'c16-mismatch-ignored', 'openhtf/plugs/usb/fastboot_protocol.py',
  "        if header != expected_header:\n          raise usb_exceptions.FastbootStateMismatchError(",
  "        if header != expected_header and header != 'DATA':\n          raise usb_exceptions.FastbootStateMismatchError(",
  'out-of-place DATA accepted as final response')
M('C16', 'c16-arg-sep', 'openhtf/plugs/usb/fastboot_protocol.py',
  "      command = '%s:%s' % (command, arg)",
  "      command = '%s %s' % (command, arg)",
  'command and argument joined by a space')
M('C16', 'c16-size-decimal', 'openhtf/plugs/usb/fastboot_protocol.py',
  "    self._protocol.send_command('download', '%08x' % source_len)",
  "    self._protocol.send_command('download', '%08d' % source_len)",
  'image size announced in decimal')
M('C16', 'c16-info-after-okay-swallowed', 'openhtf/plugs/usb/fastboot_protocol.py',
  "      if header == 'INFO':\n        info_cb(FastbootMessage(remaining, header))",
  "      if header == 'INFO':\n        if not remaining.endswith('3'): info_cb(FastbootMessage(remaining, header))",
  'one particular INFO packet is not forwarded')

# ---------------------------------------------------------------- C15
M('C15', 'c15-read-for-stream-by-id', 'openhtf/plugs/usb/adb_protocol.py',
  "    while (not timeout.has_expired() and self._stream_transport_map.get(\n        stream_transport.local_id) is stream_transport):",
  "    while (not timeout.has_expired() and\n           stream_transport.local_id in self._stream_transport_map):",
  'a closed stream whose id was reused keeps reading the transport (F31 regression)')
M('C15', 'c15-close-by-id', 'openhtf/plugs/usb/adb_protocol.py',
  "      if (self._stream_transport_map.get(stream_transport.local_id) is\n          stream_transport):",
  "      if stream_transport.local_id in self._stream_transport_map:",
  'closing a stale handle removes the newer stream that reuses its id (F31 regression)')
M('C15', 'c15-sign-non-token', 'openhtf/plugs/usb/adb_protocol.py',
  "      if msg.arg0 != cls.AUTH_TOKEN:\n        raise usb_exceptions.AdbProtocolError('Bad AUTH response: %s' % msg)\n",
  "",
  'signs AUTH challenges that are not TOKEN challenges')
M('C15', 'c15-pubkey-twice', 'openhtf/plugs/usb/adb_protocol.py',
  "    # None of the keys worked, so send a public key.\n",
  "    adb_transport.write_message(adb_message.AdbMessage(command='AUTH', arg0=cls.AUTH_RSAPUBLICKEY, arg1=0, data=rsa_keys[0].get_public_key() + '\\0'), timeout)\n",
  'public key offered twice')
M('C15', 'c15-reuse-live-id', 'openhtf/plugs/usb/adb_protocol.py',
  "        if local_id not in list(self._stream_transport_map.keys()):",
  "        if local_id not in list(self._stream_transport_map.keys()) or local_id == 3:",
  'a live local id (3) may be handed out again')
M('C15', 'c15-id-limit-inclusive', 'openhtf/plugs/usb/adb_protocol.py',
  "              range(self._last_id_used, STREAM_ID_LIMIT),",
  "              range(self._last_id_used, STREAM_ID_LIMIT + 1),",
  'local id may equal the id limit')
M('C15', 'c15-no-clse-on-close', 'openhtf/plugs/usb/adb_protocol.py',
  "        if stream_transport.remote_id:\n          self.transport.write_message(\n              adb_message.AdbMessage('CLSE', stream_transport.local_id,",
  "        if stream_transport.remote_id and False:\n          self.transport.write_message(\n              adb_message.AdbMessage('CLSE', stream_transport.local_id,",
  'close no longer sends CLSE')
M('C15', 'c15-clse-reply-yields-stream', 'openhtf/plugs/usb/adb_protocol.py',
  "    if not stream_transport.ensure_opened(timeout):\n      return None",
  "    stream_transport.ensure_opened(timeout)",
  'a CLSE reply to OPEN still yields a stream object')
M('C15', 'c15-keys-reversed', 'openhtf/plugs/usb/adb_protocol.py',
  "    for rsa_key in rsa_keys:\n      if msg.arg0 != cls.AUTH_TOKEN:",
  "    for rsa_key in reversed(rsa_keys):\n      if msg.arg0 != cls.AUTH_TOKEN:",
  'keys tried in reverse order')
M('C15', 'c15-no-drain', 'openhtf/plugs/usb/adb_protocol.py',
  "    # The stream is no longer in the map, so it's closed, but check for any\n    # queued messages.\n    try:\n      return stream_transport.message_queue.get_nowait()\n    except queue.Empty:\n      raise usb_exceptions.AdbStreamClosedError(",
  "    if True:\n      raise usb_exceptions.AdbStreamClosedError(",
  'queued messages of a closed stream are dropped instead of drained')
M('C15', 'c15-id-not-released', 'openhtf/plugs/usb/adb_protocol.py',
  "        del self._stream_transport_map[stream_transport.local_id]\n",
  "        self._stream_transport_map[-stream_transport.local_id] = self._stream_transport_map.pop(stream_transport.local_id)\n        self._stream_transport_map[stream_transport.local_id] = None if stream_transport.local_id == 4 else self._stream_transport_map.pop(-stream_transport.local_id) and None\n        self._stream_transport_map.pop(stream_transport.local_id) if stream_transport.local_id != 4 else None\n",
  'local id 4 is never released on close')
M('C15', 'c15-connect-ignores-maxdata', 'openhtf/plugs/usb/adb_protocol.py',
  "    if msg.command == 'CNXN':\n      return cls(adb_transport, msg.arg1, msg.data)\n\n    # We got an AUTH response",
  "    if msg.command == 'CNXN':\n      return cls(adb_transport, MAX_ADB_DATA, msg.data)\n\n    # We got an AUTH response",
  'maxdata not taken from the device CNXN')
M('C15', 'c15-noise-not-ignored', 'openhtf/plugs/usb/adb_protocol.py',
  "    msg = adb_transport.read_until(('AUTH', 'CNXN'), timeout)\n    if msg.command == 'CNXN':\n      return cls(adb_transport, msg.arg1, msg.data)\n\n    # We got an AUTH response",
  "    msg = adb_transport.read_message(timeout)\n    if msg.command == 'CNXN':\n      return cls(adb_transport, msg.arg1, msg.data)\n\n    # We got an AUTH response",
  'unrelated packets before CNXN are treated as AUTH')

# ---------------------------------------------------------------- C01
M('C01', 'c01-drop-all-skip-rule', 'openhtf/core/test_state.py',
  "    elif all(\n        phase.outcome == test_record.PhaseOutcome.SKIP for phase in phases\n    ):",
  "    elif False:",
  'all-phases-skipped no longer gives ERROR')
M('C01', 'c01-ignore-diagnoses', 'openhtf/core/test_state.py',
  "    elif any(d.is_failure for d in self.test_record.diagnoses):\n      self._finalize(test_record.Outcome.FAIL)",
  "    elif False:\n      self._finalize(test_record.Outcome.FAIL)",
  'failure diagnoses no longer fail the test')
M('C01', 'c01-last-terminal-wins', 'openhtf/core/test_executor.py',
  "    if outcome.is_terminal:\n      if not self._last_outcome:\n        self._last_outcome = outcome\n        self._last_execution_unit = phase.name",
  "    if outcome.is_terminal:\n      if True:\n        self._last_outcome = outcome\n        self._last_execution_unit = phase.name",
  'a later terminal phase (in teardown) overrides the first terminal event')
M('C01', 'c01-internal-error-forgotten', 'openhtf/core/test_executor.py',
  "      self._internal_error = phase_executor.ExceptionInfo(*sys.exc_info())\n",
  "",
  'executor failure is finalized from the records so far')
M('C01', 'c01-subtest-fail-ignored', 'openhtf/core/test_state.py',
  "    elif any(\n        s.outcome == test_record.SubtestOutcome.FAIL\n        for s in self.test_record.subtests\n    ):\n      self._finalize(test_record.Outcome.FAIL)",
  "    elif False:\n      self._finalize(test_record.Outcome.FAIL)",
  'a failed subtest no longer fails the test')
M('C01', 'c01-conf-sof-ignored', 'openhtf/core/test_executor.py',
  "        self.running_test_state.test_options.stop_on_first_failure\n        or CONF.stop_on_first_failure",
  "        self.running_test_state.test_options.stop_on_first_failure",
  'CONF.stop_on_first_failure is ignored')
M('C01', 'c01-failure-exception-exact-only', 'openhtf/core/test_state.py',
  "      if isinstance(outcome.phase_result.exc_val, failure_exception):",
  "      if type(outcome.phase_result.exc_val) is failure_exception:",
  'failure_exceptions no longer matches subclasses')
M('C01', 'c01-timeout-as-error', 'openhtf/core/test_state.py',
  "      self._finalize(test_record.Outcome.TIMEOUT)",
  "      self._finalize(test_record.Outcome.ERROR)",
  'phase timeout gives ERROR instead of TIMEOUT')
M('C01', 'c01-unset-allowed-always', 'openhtf/core/test_state.py',
  "    if CONF.allow_unset_measurements:\n      allowed_outcomes.add(measurements.Outcome.UNSET)",
  "    if True:\n      allowed_outcomes.add(measurements.Outcome.UNSET)",
  'unset measurements never fail a phase')
M('C01', 'c01-test-diag-error-swallowed', 'openhtf/core/test_executor.py',
  "        # Record the equivalent failure outcome and exit early.\n        self._last_outcome = phase_executor.PhaseExecutionOutcome(\n            phase_executor.ExceptionInfo(*sys.exc_info()))\n        self._last_execution_unit = str(diagnoser.name)",
  "        pass",
  'a raising test diagnoser no longer gives ERROR')

# ---------------------------------------------------------------- C02
M('C02', 'c02-skip-teardown-after-terminal-main', 'openhtf/core/test_executor.py',
  "    else:\n      main_ret = _ExecutorReturn.CONTINUE\n    if group.teardown:",
  "    else:\n      main_ret = _ExecutorReturn.CONTINUE\n    if group.teardown and main_ret == _ExecutorReturn.CONTINUE:",
  'group teardown skipped when main was terminal')
M('C02', 'c02-fail-subtest-escapes', 'openhtf/core/test_executor.py',
  "      subtest_rec.outcome = test_record.SubtestOutcome.FAIL\n    return _ExecutorReturn.CONTINUE\n\n  def _execute_checkpoint",
  "      pass\n    return _ExecutorReturn.CONTINUE\n\n  def _execute_checkpoint",
  'FAIL_SUBTEST from a phase no longer fails the subtest')
M('C02', 'c02-any-all-swapped', 'openhtf/core/phase_branches.py',
  "    ConditionOn.ALL: all,\n    ConditionOn.ANY: any,",
  "    ConditionOn.ALL: any,\n    ConditionOn.ANY: all,",
  'ALL and ANY conditions swapped')
M('C02', 'c02-branch-recorded-twice', 'openhtf/core/test_executor.py',
  "    self.running_test_state.test_record.add_branch_record(branch_rec)\n    return ret",
  "    self.running_test_state.test_record.add_branch_record(branch_rec)\n    if branch_taken: self.running_test_state.test_record.add_branch_record(branch_rec)\n    return ret",
  'a taken branch is recorded twice')
M('C02', 'c02-sequence-continues-after-terminal', 'openhtf/core/test_executor.py',
  "      exe_ret = self._execute_node(node, subtest_rec, False)\n      if exe_ret != _ExecutorReturn.CONTINUE:\n        return exe_ret\n    return _ExecutorReturn.CONTINUE",
  "      exe_ret = self._execute_node(node, subtest_rec, False)\n      if exe_ret != _ExecutorReturn.CONTINUE and not isinstance(node, phase_branches.Checkpoint):\n        return exe_ret\n    return _ExecutorReturn.CONTINUE",
  'a sequence does not stop at a terminal checkpoint')
M('C02', 'c02-nested-subtest-not-inherit', 'openhtf/core/test_executor.py',
  "      if outer_subtest_rec and outer_subtest_rec.is_fail:\n        subtest_rec.outcome = test_record.SubtestOutcome.FAIL\n",
  "",
  'a subtest nested in a failed subtest runs its phases')
M('C02', 'c02-group-entered-after-subtest-fail-teardown-runs', 'openhtf/core/test_executor.py',
  "    skip_teardown = (not in_teardown and subtest_rec is not None and\n                     subtest_rec.is_fail)\n    if group.setup:",
  "    skip_teardown = False\n    if group.setup:",
  'teardown of a group entered after the subtest failed is run instead of skipped')
M('C02', 'c02-checkpoint-last-uses-any', 'openhtf/core/phase_branches.py',
  "      return self._phase_failed(phase_records[-1])",
  "      return any(self._phase_failed(p) for p in phase_records[-2:])",
  'LAST checkpoint also looks at the phase before the last')
M('C02', 'c02-subtest-checkpoint-global', 'openhtf/core/phase_branches.py',
  "        if (phase_rec.subtest_name == subtest_rec.name and\n            self._phase_failed(phase_rec)):",
  "        if (self._phase_failed(phase_rec)):",
  'SUBTEST checkpoint looks at phases outside the subtest')
M('C02', 'c02-teardown-stops-at-terminal', 'openhtf/core/test_executor.py',
  "        ret = _more_critical(ret, self._execute_node(node, subtest_rec, True))\n",
  "        ret = _more_critical(ret, self._execute_node(node, subtest_rec, True))\n        if ret == _ExecutorReturn.TERMINAL: break\n",
  'teardown sequence stops at its first terminal node')

# ---------------------------------------------------------------- C05
M('C05', 'c05-limit-off-by-one', 'openhtf/core/phase_executor.py',
  "      is_last_repeat = repeat_count >= repeat_limit",
  "      is_last_repeat = repeat_count > repeat_limit",
  'one invocation more than repeat_limit')
M('C05', 'c05-fail-subtest-outside-ok', 'openhtf/core/phase_executor.py',
  "    if (phase_return is phase_descriptor.PhaseResult.FAIL_SUBTEST and\n        not self._subtest_rec):\n      raise InvalidPhaseResultError(\n          'Phase returned FAIL_SUBTEST but a subtest is not running.')",
  "    if (phase_return is phase_descriptor.PhaseResult.FAIL_SUBTEST and\n        not self._subtest_rec):\n      phase_return = phase_descriptor.PhaseResult.FAIL_AND_CONTINUE",
  'FAIL_SUBTEST outside a subtest treated as FAIL_AND_CONTINUE')
M('C05', 'c05-diagnosers-stop-after-raise', 'openhtf/core/test_state.py',
  "    for diagnoser in self.diagnosers:\n      self._execute_phase_diagnoser(diagnoser)",
  "    for diagnoser in self.diagnosers:\n      self._execute_phase_diagnoser(diagnoser)\n      if self.phase_record.result.raised_exception: break",
  'later diagnosers skipped after one raised')
M('C05', 'c05-run-if-record-written', 'openhtf/core/phase_executor.py',
  "        return PhaseExecutionOutcome(phase_descriptor.PhaseResult.SKIP), None\n\n\n    override_result = None",
  "        self.skip_phase(phase_desc, subtest_rec)\n        return PhaseExecutionOutcome(phase_descriptor.PhaseResult.SKIP), None\n\n\n    override_result = None",
  'a false run_if writes a SKIP record')
M('C05', 'c05-repeat-on-any-fail', 'openhtf/core/phase_executor.py',
  "    elif phase_execution_outcome.is_repeat:\n      return True",
  "    elif phase_execution_outcome.is_repeat or phase_execution_outcome.is_fail_and_continue:\n      return True",
  'FAIL_AND_CONTINUE re-invokes the phase')
M('C05', 'c05-stop-on-mf-no-stop', 'openhtf/core/test_state.py',
  "      if self.options.stop_on_measurement_fail:",
  "      if False:",
  'stop_on_measurement_fail ignored')
M('C05', 'c05-marginal-fails', 'openhtf/core/test_state.py',
  "    return all(meas.outcome in allowed_outcomes\n               for meas in self.phase_record.measurements.values())",
  "    return all(meas.outcome in allowed_outcomes and not meas.marginal\n               for meas in self.phase_record.measurements.values())",
  'a marginal measurement fails the phase')
M('C05', 'c05-diag-on-skip', 'openhtf/core/test_state.py',
  "    if result.is_repeat or result.is_skip:\n      return\n    for diagnoser in self.diagnosers:",
  "    if result.is_repeat:\n      return\n    for diagnoser in self.diagnosers:",
  'diagnosers run for SKIP invocations')
M('C05', 'c05-repeat-limit-stop-is-skip', 'openhtf/core/test_state.py',
  "    if result is None or result.is_terminal or self.hit_repeat_limit:",
  "    if result is None or result.is_terminal:",
  'exceeding the repeat limit recorded as SKIP instead of ERROR')

# ---------------------------------------------------------------- C09
M('C09', 'c09-break-after-raising-callback', 'openhtf/core/test_descriptor.py',
  "            _LOG.error('Output callback %s raised:\\n%s\\nContinuing anyway...',\n                       output_cb, stacktrace)",
  "            _LOG.error('Output callback %s raised:\\n%s\\nContinuing anyway...',\n                       output_cb, stacktrace)\n            break",
  'remaining callbacks skipped after one raises')
M('C09', 'c09-forget-remove-handler', 'openhtf/core/test_state.py',
  "    logs.remove_record_handler(self.execution_uid)",
  "    pass",
  'record log handler never removed')
M('C09', 'c09-leave-executor-set', 'openhtf/core/test_descriptor.py',
  "        self._executor.close()\n        self._executor = None",
  "        self._executor.close()",
  'Test keeps its executor after execute()')
M('C09', 'c09-no-default-dut', 'openhtf/core/test_executor.py',
  "      self.test_state.test_record.dut_id = self._test_options.default_dut_id",
  "      pass",
  'default DUT id not applied')
M('C09', 'c09-still-registered', 'openhtf/core/test_descriptor.py',
  "        del self.TEST_INSTANCES[self.uid]\n",
  "",
  'test stays registered for SIGINT')
M('C09', 'c09-overlap-allowed', 'openhtf/core/test_descriptor.py',
  "      if self._executor:\n        raise InvalidTestStateError('Test already running', self._executor)",
  "      if False:\n        raise InvalidTestStateError('Test already running', self._executor)",
  'overlapping execute() not refused')
M('C09', 'c09-return-true-on-fail', 'openhtf/core/test_descriptor.py',
  "    return final_state.test_record.outcome == htf_test_record.Outcome.PASS",
  "    return final_state.test_record.outcome in (htf_test_record.Outcome.PASS, htf_test_record.Outcome.TIMEOUT)",
  'execute() returns True for TIMEOUT')
M('C09', 'c09-config-snapshot-missing', 'openhtf/core/test_descriptor.py',
  "      self._test_desc.metadata['config'] = CONF._asdict()",
  "      self._test_desc.metadata.setdefault('config', CONF._asdict())",
  'config snapshot taken only on the first run')
M('C09', 'c09-callbacks-before-finalize-on-error', 'openhtf/core/test_state.py',
  "    self.test_record.end_time_millis = util.time_millis()\n    self._status = self.Status.COMPLETED",
  "    if test_outcome != test_record.Outcome.TIMEOUT: self.test_record.end_time_millis = util.time_millis()\n    self._status = self.Status.COMPLETED",
  'end time missing on TIMEOUT records')
M('C09', 'c09-callback-once-more', 'openhtf/core/test_descriptor.py',
  "        for output_cb in self._test_options.output_callbacks:\n          try:\n            output_cb(final_state.test_record)",
  "        for output_cb in self._test_options.output_callbacks:\n          try:\n            output_cb(final_state.test_record)\n            if final_state.test_record.outcome == htf_test_record.Outcome.ABORTED: output_cb(final_state.test_record)",
  'callbacks called twice for ABORTED runs')

# ---------------------------------------------------------------- C08
M('C08', 'c08-double-teardown-on-ctor-failure', 'openhtf/plugs/__init__.py',
  "                     plug_instance)\n    self._plugs_by_type.clear()\n    self._plugs_by_name.clear()",
  "                     plug_instance)",
  'tear_down_plugs no longer forgets the plugs: the constructor-failure path tears down twice')
M('C08', 'c08-skip-teardown-when-start-terminal', 'openhtf/core/test_executor.py',
  "  def _execute_test_teardown(self) -> None:\n    # Plug teardown does not affect the test outcome.\n    self.running_test_state.plug_manager.tear_down_plugs()",
  "  def _execute_test_teardown(self) -> None:\n    # Plug teardown does not affect the test outcome.\n    if not (self._last_execution_unit == 'TestStart'): self.running_test_state.plug_manager.tear_down_plugs()",
  'plugs not torn down when test_start was terminal')
M('C08', 'c08-clear-before-teardown', 'openhtf/plugs/__init__.py',
  "    _LOG.debug('Tearing down all plugs.')\n    for plug_type, plug_instance in self._plugs_by_type.items():",
  "    _LOG.debug('Tearing down all plugs.')\n    for plug_type, plug_instance in list(self._plugs_by_type.items())[:2]:",
  'only the first two plugs are torn down')
M('C08', 'c08-all-plugs-before-test-start', 'openhtf/core/test_executor.py',
  "    if self._initialize_plugs(\n        plug_types=[phase_plug.cls for phase_plug in self._test_start.plugs]):",
  "    if self._initialize_plugs():",
  'all plugs are constructed before test_start runs')
M('C08', 'c08-new-instance-per-phase', 'openhtf/plugs/__init__.py',
  "    return {name: self._plugs_by_type[cls] for name, cls in plug_name_map}",
  "    return {name: (self._plugs_by_type[cls] if name != 'plug1' else cls()) for name, cls in plug_name_map}",
  'one plug class gets a fresh instance for every phase')
M('C08', 'c08-ctor-failure-continues', 'openhtf/core/test_executor.py',
  "      if self._initialize_plugs():\n        return",
  "      if self._initialize_plugs():\n        pass",
  'phases still run after a plug constructor failure')
M('C08', 'c08-hang-blocks-others', 'openhtf/plugs/__init__.py',
  "      if thread.is_alive():\n        thread.kill()\n        _LOG.warning('Killed tearDown for plug %s after timeout.',\n                     plug_instance)",
  "      if thread.is_alive():\n        thread.kill()\n        _LOG.warning('Killed tearDown for plug %s after timeout.',\n                     plug_instance)\n        break",
  'a hanging tearDown prevents the remaining plugs from being torn down')

# ---------------------------------------------------------------- C03
M('C03', 'c03-skip-teardown-after-terminal-main', 'openhtf/core/test_executor.py',
  "    else:\n      main_ret = _ExecutorReturn.CONTINUE\n    if group.teardown:",
  "    else:\n      main_ret = _ExecutorReturn.CONTINUE\n    if group.teardown and main_ret == _ExecutorReturn.CONTINUE:",
  'group teardown skipped when main was terminal')
M('C03', 'c03-teardown-abortable', 'openhtf/core/test_executor.py',
  "        if self._full_abort.is_set():\n          return _ExecutorReturn.TERMINAL",
  "        if self._abort.is_set():\n          return _ExecutorReturn.TERMINAL",
  'a single abort skips the remaining teardown nodes')
M('C03', 'c03-teardown-runs-without-setup', 'openhtf/core/test_executor.py',
  "      if setup_ret != _ExecutorReturn.CONTINUE:\n        return setup_ret",
  "      if setup_ret != _ExecutorReturn.CONTINUE:\n        if group.teardown: self._execute_sequence(group.teardown, subtest_rec, True)\n        return setup_ret",
  'teardown runs although setup did not complete')
M('C03', 'c03-teardown-terminal-not-propagated', 'openhtf/core/test_executor.py',
  "    return _more_critical(main_ret, teardown_ret)",
  "    return main_ret",
  'a terminal result inside teardown does not propagate outward')
M('C03', 'c03-teardown-kill-allowed', 'openhtf/core/test_executor.py',
  "    with self._teardown_phases_lock:\n      for node in phase_sequence.nodes:",
  "    if True:\n      for node in phase_sequence.nodes:",
  'teardown phases no longer hold the lock that keeps a single abort from killing them')
M('C03', 'c03-teardown-stops-at-terminal', 'openhtf/core/test_executor.py',
  "        ret = _more_critical(ret, self._execute_node(node, subtest_rec, True))\n",
  "        ret = _more_critical(ret, self._execute_node(node, subtest_rec, True))\n        if ret == _ExecutorReturn.TERMINAL: break\n",
  'teardown sequence stops at its first terminal node')

# ---------------------------------------------------------------- C04
M('C04', 'c04-abort-rereads-executor', 'openhtf/core/test_descriptor.py',
  "        _LOG.error('Test state: %s', executor.test_state)\n        executor.abort()",
  "        _LOG.error('Test state: %s', self._executor.test_state)\n        self._executor.abort()",
  'abort_from_sig_int dereferences self._executor again after testing it (F28 regression)')
M('C04', 'c04-last-run-phase-name-rereads', 'openhtf/core/test_state.py',
  "    phase_state = self.running_phase_state\n    if phase_state:\n      return phase_state.name",
  "    if self.running_phase_state:\n      return self.running_phase_state.name",
  'last_run_phase_name reads running_phase_state twice (F29 regression)')
M('C04', 'c04-thread-started-outside-lock', 'openhtf/core/phase_executor.py',
  "        phase_thread.start()\n        self._current_phase_thread = phase_thread\n",
  "        self._current_phase_thread = phase_thread\n      phase_thread.start()\n",
  'phase thread published under the lock but started after it is released (seeded C04-1)')
M('C04', 'c04-abort-forgotten-in-phase-once', 'openhtf/core/phase_executor.py',
  "        if self._stopping.is_set() or (abort_requested and abort_requested()):",
  "        if self._stopping.is_set():",
  'abort request no longer tested under the phase-thread lock (F5 window reopened)')
M('C04', 'c04-outcome-not-aborted', 'openhtf/core/test_executor.py',
  "    if self._abort.is_set():\n      self.logger.debug('Finishing test with outcome ABORTED.')\n      self.running_test_state.abort()\n    elif",
  "    if False:\n      self.logger.debug('Finishing test with outcome ABORTED.')\n      self.running_test_state.abort()\n    elif",
  'an aborted run is finalized from the phase outcomes instead of ABORTED')
M('C04', 'c04-join-instead-of-event', 'openhtf/core/test_executor.py',
  "    self._finished.wait(timeout)",
  "    self.join(timeout)",
  'wait() uses Thread.join again (real SIGINT finalizes early)')
M('C04', 'c04-second-abort-not-forced', 'openhtf/core/test_executor.py',
  "      self._full_abort.set()\n      self._stop_phase_executor(force=True)",
  "      self._full_abort.set()\n      self._stop_phase_executor(force=False)",
  'second abort does not cancel the running teardown phase')
M('C04', 'c04-no-kill-on-abort', 'openhtf/core/phase_executor.py',
  "    if phase_thread.is_alive():\n      phase_thread.kill()\n",
  "    if phase_thread.is_alive():\n      pass\n",
  'the running phase body is not asked to terminate')
M('C04', 'c04-plug-teardown-skipped-on-abort', 'openhtf/core/test_executor.py',
  "    # Plug teardown does not affect the test outcome.\n    self.running_test_state.plug_manager.tear_down_plugs()",
  "    # Plug teardown does not affect the test outcome.\n    if not self._abort.is_set(): self.running_test_state.plug_manager.tear_down_plugs()",
  'plugs not torn down after an abort')
M('C04', 'c04-test-start-abort-ignored', 'openhtf/core/test_executor.py',
  "        self._test_start, self._run_phases_with_profiling,\n        abort_requested=self._abort.is_set\n    )",
  "        self._test_start, self._run_phases_with_profiling\n    )",
  'test_start may start after an abort returned')
M('C04', 'c04-stop-flag-not-reset', 'openhtf/core/test_executor.py',
  "      # Resetting so phase_exec can run teardown phases.\n      phase_exec.reset_stop()",
  "      # Resetting so phase_exec can run teardown phases.\n      pass",
  'stop flag stays set: teardown phases of entered groups never run after an abort')
M('C04', 'c04-teardown-uses-first-abort', 'openhtf/core/test_executor.py',
  "        abort_requested=(self._full_abort.is_set\n                         if in_teardown else self._abort.is_set),",
  "        abort_requested=self._abort.is_set,",
  'teardown phases are cancelled by the first abort already')
M('C04', 'c04-abort-does-not-stop-phase', 'openhtf/core/test_executor.py',
  "    self._abort.set()\n    self._stop_phase_executor()",
  "    self._abort.set()",
  'first abort only sets the flag; the running body is never asked to terminate')

# ---------------------------------------------------------------- C06
M('C06', 'c06-validate-before-transform', 'openhtf/core/measurements.py',
  "    if self.transform_fn:\n      value = self.transform_fn(value)\n\n    if self.is_value_set:",
  "    raw = value\n    if self.transform_fn:\n      value = self.transform_fn(value)\n      value = raw if isinstance(raw, float) and raw > 9 else value\n\n    if self.is_value_set:",
  'some values are recorded untransformed')
M('C06', 'c06-keep-partially-set', 'openhtf/core/test_state.py',
  "      if measurement.outcome is measurements.Outcome.PARTIALLY_SET:\n        try:\n          measurement.validate()",
  "      if measurement.outcome is measurements.Outcome.PARTIALLY_SET and len(measurement.measured_value.value_dict) > 1:\n        try:\n          measurement.validate()",
  'a dimensioned measurement with one cell stays PARTIALLY_SET')
M('C06', 'c06-marginal-sticky', 'openhtf/core/measurements.py',
  "    self.marginal = False\n    try:",
  "    try:",
  'marginal flag never reset (F7 regression)')
M('C06', 'c06-override-keeps-first', 'openhtf/core/measurements.py',
  "    self.value_dict[coordinates] = value\n",
  "    self.value_dict.setdefault(coordinates, value)\n",
  'overriding a coordinate keeps the first value')
M('C06', 'c06-wrong-coords-accepted', 'openhtf/core/measurements.py',
  "    if coordinates_len != self.num_dimensions:\n      raise InvalidDimensionsError(",
  "    if coordinates_len > self.num_dimensions:\n      raise InvalidDimensionsError(",
  'too few coordinates are accepted')
M('C06', 'c06-conditional-always', 'openhtf/core/test_state.py',
  "        if diag_store.has_diagnosis_result(cv.result):\n          m.with_validator(cv.validator)",
  "        if True:\n          m.with_validator(cv.validator)",
  'conditional validators applied even without the diagnosis')
M('C06', 'c06-validator-exception-passes', 'openhtf/core/measurements.py',
  "      self.outcome = Outcome.FAIL\n      raise\n    finally:",
  "      self.outcome = Outcome.PASS\n      raise\n    finally:",
  'a raising validator leaves the measurement PASS')
M('C06', 'c06-any-instead-of-all', 'openhtf/core/measurements.py',
  "      if all(v(self._measured_value.value) for v in self.validators):",
  "      if any(v(self._measured_value.value) for v in self.validators) or not self.validators:",
  'one accepting validator is enough')
M('C06', 'c06-dim-validation-error-swallowed', 'openhtf/core/test_state.py',
  "          else:\n            self.phase_record.result = phase_executor.PhaseExecutionOutcome(\n                phase_executor.ExceptionInfo(*sys.exc_info()))\n\n    # Set final values on the PhaseRecord.",
  "          else:\n            pass\n\n    # Set final values on the PhaseRecord.",
  'a validator raising at phase end no longer surfaces as a phase error')
M('C06', 'c06-order-by-last-assignment', 'openhtf/core/measurements.py',
  "    self.value_dict[coordinates] = value\n",
  "    self.value_dict.pop(coordinates, None)\n    self.value_dict[coordinates] = value\n",
  'an overridden coordinate moves to the end (order of last assignment)')

# ---------------------------------------------------------------- C17
M('C17', 'c17-publish-in-finally', 'openhtf/output/callbacks/__init__.py',
  "      except BaseException:\n        # Never publish a partially written record.\n        if hasattr(output_file, 'discard'):\n          output_file.discard()\n        else:\n          output_file.close()\n        raise\n      else:\n        output_file.close()",
  "      finally:\n        output_file.close()",
  'staged file published even when serialization failed (F13 regression)')
M('C17', 'c17-write-in-place', 'openhtf/output/callbacks/__init__.py',
  "    self.temp = tempfile.NamedTemporaryFile(delete=False)",
  "    self.temp = open(filename, 'wb')",
  'record written directly to the destination path')
M('C17', 'c17-copy-instead-of-rename', 'openhtf/output/callbacks/__init__.py',
  "    shutil.move(self.temp.name, self.filename)\n\n  def discard",
  "    shutil.copyfile(self.temp.name, self.filename)\n    os.remove(self.temp.name)\n\n  def discard",
  'staged file copied to the destination instead of renamed')
M('C17', 'c17-atomic-write-rename-in-finally', 'openhtf/util/atomic_write.py',
  "    os.rename(tmpf.name, filename)\n  finally:\n    try:\n      os.remove(tmpf.name)",
  "  finally:\n    try:\n      os.rename(tmpf.name, filename)\n      os.remove(tmpf.name)",
  'atomic_write publishes whatever was written even if the body raised')
M('C17', 'c17-atomic-write-in-place', 'openhtf/util/atomic_write.py',
  "    with open(tmpf.name, 'w') as curfile:",
  "    with open(filename, 'w') as curfile:",
  'atomic_write writes to the destination directly')
M('C17', 'c17-bytes-as-chunks', 'openhtf/output/callbacks/__init__.py',
  "      elif isinstance(serialized_record, bytes):\n        # bytes is Iterable too, but iterating it yields ints.\n        outfile.write(serialized_record)\n",
  "",
  'bytes serialization iterated as ints again (F21 regression)')
M('C17', 'c17-json-drops-last-chunk', 'openhtf/output/callbacks/__init__.py',
  "        for chunk in serialized_record:\n          outfile.write(chunk.encode() if isinstance(chunk, str) else chunk)",
  "        prev = None\n        for chunk in serialized_record:\n          if prev is not None: outfile.write(prev.encode() if isinstance(prev, str) else prev)\n          prev = chunk",
  'last chunk of the serialization never written')

# ---------------------------------------------------------------- C10
M('C10', 'c10-cache-before-transform', 'openhtf/core/measurements.py',
  "    # Apply transform function if it is set.\n    if self.transform_fn:\n      value = self.transform_fn(value)\n\n    # Update the cached rendering with the value that is actually recorded.\n    if is_override:\n      _LOG.warning(\n          'Overriding previous measurement %s[%s] value of %s with %s',\n          self.name, coordinates, self.value_dict[coordinates], value)\n      self._cached_basetype_values = None\n    elif self._cached_basetype_values is not None:\n      self._cached_basetype_values.append(\n          data.convert_to_base_types(coordinates + (value,)))\n",
  '    raw_value = value\n    if self.transform_fn:\n      value = self.transform_fn(value)\n\n    if is_override:\n      self._cached_basetype_values = None\n    elif self._cached_basetype_values is not None:\n      self._cached_basetype_values.append(\n          data.convert_to_base_types(coordinates + (raw_value,)))\n',
  'dimensioned cache holds the pre-transform value (F9a regression)')
M('C10', 'c10-checkpoints-missing', 'openhtf/core/test_record.py',
  "        'checkpoints': self._cached_checkpoints,\n",
  "",
  'checkpoint records not rendered (F9b regression)')
M('C10', 'c10-partially-set-outcome-stale', 'openhtf/core/measurements.py',
  "        if self._cached:\n          self._cached['outcome'] = self.outcome.name\n      else:\n        self.validate()",
  "      else:\n        self.validate()",
  'live outcome stays UNSET while PARTIALLY_SET (F9c regression)')
M('C10', 'c10-attachments-written-into-cache', 'openhtf/output/callbacks/json_factory.py',
  "    as_dict = dict(as_dict)\n    as_dict['phases'] = [\n        dict(phase, attachments=dict(original_phase.attachments))\n        for phase, original_phase in zip(as_dict['phases'], test_rec.phases)\n    ]",
  "    for phase, original_phase in zip(as_dict['phases'], test_rec.phases):\n      for name, attachment in original_phase.attachments.items():\n        phase['attachments'][name] = attachment",
  'JSON conversion mutates the cached rendering (F9d regression)')
M('C10', 'c10-no-notify-after-raising-validation', 'openhtf/core/measurements.py',
  "    try:\n      if self.dimensions:\n        self.outcome = Outcome.PARTIALLY_SET\n        if self._cached:\n          self._cached['outcome'] = self.outcome.name\n      else:\n        self.validate()\n    finally:\n      # The value is stored even if its validation raised: tell the watchers.\n      if self._notification_cb:\n        self._notification_cb()",
  "    if self.dimensions:\n      self.outcome = Outcome.PARTIALLY_SET\n      if self._cached:\n        self._cached['outcome'] = self.outcome.name\n    else:\n      self.validate()\n    if self._notification_cb:\n      self._notification_cb()",
  'no update notification when validation raised (F9e regression)')
M('C10', 'c10-outcome-cache-not-refreshed', 'openhtf/core/measurements.py',
  "    finally:\n      if self._cached:\n        self._cached['outcome'] = self.outcome.name  # pytype: disable=bad-return-type",
  "    finally:\n      pass",
  'cached outcome not refreshed after validate()')
M('C10', 'c10-override-keeps-cached-list', 'openhtf/core/measurements.py',
  "          self.name, coordinates, self.value_dict[coordinates], value)\n      self._cached_basetype_values = None",
  "          self.name, coordinates, self.value_dict[coordinates], value)",
  'cached list not invalidated when a coordinate is overridden')
M('C10', 'c10-scalar-cache-first-value', 'openhtf/core/measurements.py',
  "    self._cached_value = data.convert_to_base_types(value)\n    self.is_value_set = True",
  "    if not self.is_value_set: self._cached_value = data.convert_to_base_types(value)\n    self.is_value_set = True",
  'scalar cached value keeps the first assignment')
M('C10', 'c10-log-record-not-cached', 'openhtf/core/test_record.py',
  "    self.log_records.append(log_record)\n    self._cached_log_records.append(log_record._asdict())",
  "    self.log_records.append(log_record)\n    if log_record.level >= 30: self._cached_log_records.append(log_record._asdict())",
  'log records below WARNING missing from the rendering')
M('C10', 'c10-nan-token', 'openhtf/util/data.py',
  "    if json_safe and (math.isinf(as_float) or math.isnan(as_float)):\n      return str(as_float)",
  "    if json_safe and (math.isinf(as_float)):\n      return str(as_float)",
  'NaN written as a bare NaN token')
M('C10', 'c10-attachment-live-cache-missing', 'openhtf/core/test_state.py',
  "    self._cached['attachments'][name] = attach_record._asdict()",
  "    pass",
  'attachments missing from the live phase view')

# ---------------------------------------------------------------- C19
M('C19', 'c19-finished-before-final-log', 'openhtf/core/test_executor.py',
  "  def run(self) -> None:\n    try:\n      super(TestExecutor, self).run()\n    finally:",
  "  def _thread_finished(self) -> None:\n    self._finished.set()\n\n  def run(self) -> None:\n    try:\n      super(TestExecutor, self).run()\n    finally:",
  'completion signalled before the executor thread logged its last message (F30 regression)')
M('C19', 'c19-uid-prefix-match', 'openhtf/util/logs.py',
  "    return match.group('test_uid') == self.test_uid",
  "    return match.group('test_uid').startswith(self.test_uid)",
  'uid compared by prefix: another run whose uid extends this one leaks in')
M('C19', 'c19-forget-remove-handler', 'openhtf/util/logs.py',
  "        htf_logger.handlers = [\n            h for h in htf_logger.handlers if h is not handler\n        ]\n        break",
  "        break",
  'record handler never removed')
M('C19', 'c19-inplace-remove', 'openhtf/util/logs.py',
  "        htf_logger.handlers = [\n            h for h in htf_logger.handlers if h is not handler\n        ]\n        break",
  "        htf_logger.handlers.remove(handler)\n        break",
  'handler removed in place again (F15 regression)')
M('C19', 'c19-framework-logs-dropped', 'openhtf/util/logs.py',
  "    # Keep framework logs.\n    if not match:\n      return True",
  "    # Keep framework logs.\n    if not match:\n      return record.name.startswith('openhtf.core')",
  'framework messages outside openhtf.core are dropped')
M('C19', 'c19-mac-args-only-str', 'openhtf/util/logs.py',
  "      record.msg = self.MAC_REPLACE_RE.sub(self.MAC_REPLACEMENT,\n                                           record.getMessage())\n      record.args = ()",
  "      if isinstance(record.msg, str):\n        record.msg = self.MAC_REPLACE_RE.sub(self.MAC_REPLACEMENT, record.msg)\n        record.args = tuple([\n            self.MAC_REPLACE_RE.sub(self.MAC_REPLACEMENT, str(arg))\n            if isinstance(arg, str) else arg for arg in record.args\n        ])\n      else:\n        record.msg = self.MAC_REPLACE_RE.sub(self.MAC_REPLACEMENT,\n                                             record.getMessage())",
  'MAC filter rewrites msg and args separately again (F14 regression)')
M('C19', 'c19-mac-case-sensitive', 'openhtf/util/logs.py',
  '        """, re.IGNORECASE | re.VERBOSE)',
  '        """, re.VERBOSE)',
  'lower-case MACs not redacted')
M('C19', 'c19-level-name-lost', 'openhtf/util/logs.py',
  "          record.levelno,\n          record.name,",
  "          logging.INFO,\n          record.name,",
  'every record stored with level INFO')
M('C19', 'c19-timestamp-seconds', 'openhtf/util/logs.py',
  "          int(record.created * 1000),",
  "          int(record.created) * 1000,",
  'timestamp truncated to seconds')
M('C19', 'c19-emit-twice-on-warning', 'openhtf/util/logs.py',
  "      self._test_record.add_log_record(log_record)\n      self._notify_update()",
  "      self._test_record.add_log_record(log_record)\n      if record.levelno >= 30: self._test_record.add_log_record(log_record)\n      self._notify_update()",
  'warnings are recorded twice')
M('C19', 'c19-handler-added-in-place-no-lock', 'openhtf/util/logs.py',
  "    return match.group('test_uid') == self.test_uid",
  "    return match.group('test_uid') == self.test_uid or record.name.endswith('.phase.p')",
  'phase loggers named p of other runs leak in')

# ---------------------------------------------------------------- C18
M('C18', 'c18-snapshot-before-register', 'openhtf/util/__init__.py',
  "    event = threading.Event()\n    with self._lock:\n      self._update_events.add(event)\n    return self._asdict(), event",
  "    event = threading.Event()\n    state = self._asdict()\n    with self._lock:\n      self._update_events.add(event)\n    return state, event",
  'state snapshot taken before the event is registered')
M('C18', 'c18-clear-before-set', 'openhtf/util/__init__.py',
  "      for event in self._update_events:\n        event.set()\n      self._update_events.clear()",
  "      events = list(self._update_events)\n      self._update_events.clear()\n    for event in events[:1]:\n      event.set()",
  'only the first registered watcher is woken')
M('C18', 'c18-measurement-no-notify', 'openhtf/core/test_state.py',
  "    self._update_measurements.add(measurement_name)\n    self.test_state.notify_update()",
  "    self._update_measurements.add(measurement_name)",
  'measurement assignments are not followed by a notification')
M('C18', 'c18-phase-start-no-notify', 'openhtf/core/test_state.py',
  "    self.notify_update()  # New phase started.",
  "    pass  # New phase started.",
  'no notification when a phase starts')
M('C18', 'c18-phase-finished-no-notify', 'openhtf/core/test_state.py',
  "      self.notify_update()  # Phase finished.",
  "      pass  # Phase finished.",
  'no notification when a phase finished')
M('C18', 'c18-finalize-no-notify', 'openhtf/core/test_state.py',
  "    self._status = self.Status.COMPLETED\n    self.notify_update()",
  "    self._status = self.Status.COMPLETED",
  'no notification when the test completes')
M('C18', 'c18-log-no-notify', 'openhtf/util/logs.py',
  "      self._test_record.add_log_record(log_record)\n      self._notify_update()",
  "      self._test_record.add_log_record(log_record)",
  'log records are not followed by a notification')
M('C18', 'c18-dut-id-no-notify', 'openhtf/core/test_descriptor.py',
  "    self.test_record.dut_id = dut_id\n    self.notify_update()",
  "    self.test_record.dut_id = dut_id",
  'setting the DUT id is not followed by a notification')
M('C18', 'c18-userinput-remove-no-notify', 'openhtf/plugs/user_input.py',
  "        self._console_prompt = None\n      self.notify_update()",
  "        self._console_prompt = None",
  'removing/answering a prompt is not followed by a notification')
M('C18', 'c18-start-prompt-notify-early', 'openhtf/plugs/user_input.py',
  "        self._console_prompt.start()\n\n      self.notify_update()\n      return prompt_id",
  "        self._console_prompt.start()\n\n      return prompt_id",
  'starting a prompt is not followed by a notification')

# ---------------------------------------------------------------- C14
M('C14', 'c14-notify-while-holding-reader-lock', 'openhtf/plugs/usb/adb_protocol.py',
  "        finally:\n          self._reader_lock.release()\n          # Notify anyone interested that we handled a message (or gave up),\n          # causing them to check their predicate again.  This must happen\n          # after the reader lock is released: a waiter that re-checked while\n          # we still held it would go back to waiting with nobody reading.\n          with self._message_received:\n            self._message_received.notify_all()",
  "          with self._message_received:\n            self._message_received.notify_all()\n        finally:\n          self._reader_lock.release()",
  'waiters notified before the reader lock is released (F11 regression)')
M('C14', 'c14-remote-id-recorded-late', 'openhtf/plugs/usb/adb_protocol.py',
  "      if message.command == 'OKAY':\n        # Record the remote id while we still hold the connection's reader\n        # lock: the next message (read by any thread) may already be a WRTE\n        # for this stream, which can only be acked once the id is known.\n        stream_transport._set_or_check_remote_id(message.arg0)  # pylint: disable=protected-access\n",
  "",
  'remote id recorded only after the reader lock was released (F19 regression)')
M('C14', 'c14-wait-without-recheck', 'openhtf/plugs/usb/adb_protocol.py',
  "          if not predicate():\n            self._message_received.wait(timeout.remaining)\n            if timeout.has_expired():\n              raise usb_exceptions.AdbTimeoutError(\n                  '%s timed out reading messages.' % self)",
  "          if True:\n            self._message_received.wait(timeout.remaining)\n            if timeout.has_expired():\n              raise usb_exceptions.AdbTimeoutError(\n                  '%s timed out reading messages.' % self)",
  'waiter does not re-check its predicate under the condition lock (F26 regression)')
M('C14', 'c14-ack-twice', 'openhtf/plugs/usb/adb_protocol.py',
  "    if message.command == 'WRTE':\n      self._send_command('OKAY', timeout=timeout)\n    elif message.command == 'OKAY':",
  "    if message.command == 'WRTE':\n      self._send_command('OKAY', timeout=timeout)\n      self._send_command('OKAY', timeout=timeout)\n    elif message.command == 'OKAY':",
  'a WRTE read on behalf of another stream is acknowledged twice')
M('C14', 'c14-no-ack-for-other-stream', 'openhtf/plugs/usb/adb_protocol.py',
  "    if message.command == 'WRTE':\n      self._send_command('OKAY', timeout=timeout)\n    elif message.command == 'OKAY':",
  "    if message.command == 'WRTE':\n      pass\n    elif message.command == 'OKAY':",
  'a WRTE read on behalf of another stream is never acknowledged')
M('C14', 'c14-chunk-too-large', 'openhtf/plugs/usb/adb_protocol.py',
  "      self._transport.write(data[:self._transport.adb_connection.maxdata],\n                            timeout)\n      data = data[self._transport.adb_connection.maxdata:]",
  "      self._transport.write(data[:self._transport.adb_connection.maxdata + 1],\n                            timeout)\n      data = data[self._transport.adb_connection.maxdata + 1:]",
  'host chunks one byte larger than maxdata')
M('C14', 'c14-no-write-lock', 'openhtf/plugs/usb/adb_protocol.py',
  "      self._expecting_okay = True\n      self._send_command('WRTE', timeout, data)\n      self._read_messages_until_true(lambda: not self._expecting_okay, timeout)",
  "      self._expecting_okay = False\n      self._send_command('WRTE', timeout, data)",
  'write does not wait for the OKAY: several WRTE outstanding')
M('C14', 'c14-flag-checked-outside-lock', 'openhtf/plugs/usb/adb_protocol.py',
  "    with self._write_lock:\n      # Checked under the lock: a writer that was waiting for the lock while\n      # the previous WRTE timed out must not send another one.\n      if self._expecting_okay:",
  "    if self._expecting_okay:\n      raise usb_exceptions.AdbProtocolError('Previous WRTE failed')\n    with self._write_lock:\n      if False:",
  'outstanding-WRTE flag tested before taking the write lock (F27 regression)')
M('C14', 'c14-flag-cleared-on-failed-write', 'openhtf/plugs/usb/adb_protocol.py',
  "      self._send_command('WRTE', timeout, data)\n      self._read_messages_until_true(lambda: not self._expecting_okay, timeout)",
  "      try:\n        self._send_command('WRTE', timeout, data)\n        self._read_messages_until_true(lambda: not self._expecting_okay, timeout)\n      finally:\n        self._expecting_okay = False",
  'a timed-out write clears the flag, so a retry sends a second unacknowledged WRTE (seeded C14-2)')
M('C14', 'c14-queue-to-wrong-stream', 'openhtf/plugs/usb/adb_protocol.py',
  "        dest_transport = self._stream_transport_map.get(message.arg1)\n",
  "        dest_transport = self._stream_transport_map.get(message.arg1)\n        if message.command == 'WRTE' and len(message.data) == 7: dest_transport = stream_transport\n",
  'a particular WRTE of another stream is queued to the reading stream')
M('C14', 'c14-connection-reader-lock-dropped', 'openhtf/plugs/usb/adb_protocol.py',
  "      # If someone else has the Lock, just keep checking our queue.\n      if not self._reader_lock.acquire(False):\n        continue\n",
  "      # If someone else has the Lock, just keep checking our queue.\n      self._reader_lock.acquire(False)\n",
  'connection-level reader election removed: several threads read the transport')

# ---------------------------------------------------------------- C12
M('C12', 'c12-probe-not-serialized', 'openhtf/util/threads.py',
  "    with self._probe_lock:\n      could_acquire = self._running_lock.acquire(False)\n      if could_acquire:\n        self._running_lock.release()\n        return False\n      return True",
  "    if True:\n      could_acquire = self._running_lock.acquire(False)\n      if could_acquire:\n        self._running_lock.release()\n        return False\n      return True",
  'two overlapping kill() calls see each other\'s probe of the running lock (F33 regression)')
M('C12', 'c12-timeout-option-ignored', 'openhtf/core/phase_executor.py',
  "    if self._phase_desc.options.timeout_s is not None:\n      deadline = time.monotonic() + self._phase_desc.options.timeout_s",
  "    if self._phase_desc.options.timeout_s:\n      deadline = time.monotonic() + self._phase_desc.options.timeout_s",
  'timeout_s=0 falls back to the default time-out')
M('C12', 'c12-deadline-halved', 'openhtf/core/phase_executor.py',
  "      deadline = time.monotonic() + self._phase_desc.options.timeout_s\n    while",
  "      deadline = time.monotonic() + self._phase_desc.options.timeout_s / 2.0\n    while",
  'phases are timed out at half their time-out')
M('C12', 'c12-kill-without-running-test', 'openhtf/util/threads.py',
  "    if not self._is_thread_proc_running():\n      self._logger.debug(\"Thread's _thread_proc function is no longer running, \"\n                         'will not kill; letting thread exit gracefully.')\n      return\n",
  "",
  'kill() raises in the thread even after its body returned')
M('C12', 'c12-killed-flag-not-checked', 'openhtf/util/threads.py',
  "        if self._killed.is_set():\n          raise ThreadTerminationError()\n",
  "",
  'a kill before start no longer prevents the body')
M('C12', 'c12-repeat-on-any-timeout', 'openhtf/core/phase_executor.py',
  "    if phase_execution_outcome.is_timeout and phase.options.repeat_on_timeout:",
  "    if phase_execution_outcome.is_timeout:",
  'timed-out phases are re-invoked without repeat_on_timeout')
M('C12', 'c12-teardown-skipped-after-timeout', 'openhtf/core/test_executor.py',
  "    if group.teardown:\n      teardown_ret = self._execute_sequence(",
  "    if group.teardown and not (self._last_outcome and self._last_outcome.is_timeout):\n      teardown_ret = self._execute_sequence(",
  'group teardown skipped after a time-out in main')
M('C12', 'c12-timeout-finalized-as-error', 'openhtf/core/test_state.py',
  "      self._finalize(test_record.Outcome.TIMEOUT)",
  "      self._finalize(test_record.Outcome.ERROR)",
  'a phase time-out gives ERROR instead of TIMEOUT')

# ---------------------------------------------------------------- C11
M('C11', 'c11-no-deepcopy-of-measurements', 'openhtf/core/test_state.py',
  "    measurements_copy = [\n        copy.deepcopy(measurement) for measurement in phase_desc.measurements\n    ]",
  "    measurements_copy = [\n        measurement for measurement in phase_desc.measurements\n    ]",
  'a run writes into the declared measurements (later runs do not start UNSET)')
M('C11', 'c11-attr_copy-shares-lists', 'openhtf/util/data.py',
  "    else:\n      new_value = copy.copy(value)\n    kwargs[init_name] = new_value",
  "    else:\n      new_value = value\n    kwargs[init_name] = new_value",
  'attr_copy shares lists and dicts with the source')
M('C11', 'c11-shared-user-state', 'openhtf/core/test_state.py',
  "    self.user_defined_state = {}  # type: Any",
  "    self.user_defined_state = vars(type(test_desc)).get('_none') or getattr(test_desc.phase_sequence, 'nodes')[0].extra_kwargs.setdefault('_vf_state', {}) if test_desc.phase_sequence.nodes and hasattr(test_desc.phase_sequence.nodes[0], 'extra_kwargs') else {}  # type: Any",
  'user state dict survives from run to run')
M('C11', 'c11-with-plugs-returns-self', 'openhtf/core/phase_descriptor.py',
  "      # Still a copy: callers are free to modify what with_plugs() returns.\n      return data.attr_copy(self)",
  "      return self",
  'with_plugs without a match returns the source (F10a regression)')
M('C11', 'c11-wrap_or_copy-no-copy', 'openhtf/core/phase_descriptor.py',
  "      retval = data.attr_copy(func)\n    else:\n      retval = cls(func)",
  "      retval = func\n    else:\n      retval = cls(func)",
  'decorating a PhaseDescriptor modifies it in place')
M('C11', 'c11-metadata-not-copied', 'openhtf/core/test_state.py',
  "        metadata=copy.deepcopy(test_desc.metadata),",
  "        metadata=test_desc.metadata,",
  'record metadata is the descriptor metadata object')
M('C11', 'c11-sequence-no-node-copy', 'openhtf/core/phase_collections.py',
  "  elif isinstance(n, phase_nodes.PhaseNode):\n    yield n.copy()",
  "  elif isinstance(n, phase_nodes.PhaseNode):\n    yield n",
  'nesting a node into a sequence/group/test keeps the same object')
M('C11', 'c11-with-args-mutates-source-kwargs', 'openhtf/core/phase_descriptor.py',
  "    new_info = data.attr_copy(self)\n    new_info.options = new_info.options.format_strings(**kwargs)\n    new_info.extra_kwargs.update(known_arguments)",
  "    new_info = data.attr_copy(self)\n    new_info.options = new_info.options.format_strings(**kwargs)\n    new_info.extra_kwargs = self.extra_kwargs\n    new_info.extra_kwargs.update(known_arguments)",
  'with_args writes the new arguments into the source phase')


# ---------------------------------------------------------------- round 5
M('C09', 'c09-sigint-iterates-live-registry', 'openhtf/core/test_descriptor.py',
  "        for test in list(cls.TEST_INSTANCES.values()):\n",
  "        for test in cls.TEST_INSTANCES.values():\n",
  'F34 reverted: the SIGINT handler iterates the registry other tests delete themselves from')
M('C09', 'c09-nested-sigint-reenters-handler', 'openhtf/core/test_descriptor.py',
  "    if cls._HANDLING_SIGINT:\n",
  "    if False:\n",
  'F35 reverted: a SIGINT inside the handler runs the handler again on top of itself')
M('C09', 'c09-sigint-latch-rearmed-by-any-finishing-test', 'openhtf/core/test_descriptor.py',
  "        del self.TEST_INSTANCES[self.uid]\n        self._executor.close()\n",
  "        del self.TEST_INSTANCES[self.uid]\n        Test.HANDLED_SIGINT_ONCE = False\n        self._executor.close()\n",
  'the raise-KeyboardInterrupt-once latch is re-armed whenever a test finishes')
M('C12', 'c12-record-handler-lock-gap', 'openhtf/util/logs.py',
  "      with self.lock:\n        self.emit(record)\n",
  "      self.acquire()\n      try:\n        self.emit(record)\n      finally:\n        self.release()\n",
  'F36 reverted: acquire() before the try block, a killed thread can die owning the handler lock')
M('C14', 'c14-bounded-stream-queue', 'openhtf/plugs/usb/adb_protocol.py',
  "    msg_queue = queue.Queue()\n",
  "    msg_queue = queue.Queue(64)\n",
  'per-stream message queue bounded: the pumping thread blocks in put() without a time-out')
M('C15', 'c15-id-released-after-clse-write', 'openhtf/plugs/usb/adb_protocol.py',
  "        del self._stream_transport_map[stream_transport.local_id]\n        # If we never got a remote_id, there's no CLSE message to send.\n        if stream_transport.remote_id:\n          self.transport.write_message(\n              adb_message.AdbMessage('CLSE', stream_transport.local_id,\n                                     stream_transport.remote_id), timeout)\n        return True\n",
  "        # If we never got a remote_id, there's no CLSE message to send.\n        if stream_transport.remote_id:\n          self.transport.write_message(\n              adb_message.AdbMessage('CLSE', stream_transport.local_id,\n                                     stream_transport.remote_id), timeout)\n        del self._stream_transport_map[stream_transport.local_id]\n        return True\n",
  'local id released only after the CLSE write succeeded')
M('C18', 'c18-wake-watchers-outside-the-lock', 'openhtf/util/__init__.py',
  "    with self._lock:\n      for event in self._update_events:\n        event.set()\n      self._update_events.clear()\n",
  "    with self._lock:\n      events = self._update_events\n      self._update_events = weakref.WeakSet()\n    for event in events:\n      event.set()\n",
  'notify_update detaches the watcher set and wakes it outside the lock (a killed notifier loses them)')
M('C10', 'c10-record-handler-without-lock', 'openhtf/util/logs.py',
  "  def emit(self, record):\n    \"\"\"Save a logging.LogRecord to our test record.\n",
  "  def createLock(self):\n    self.lock = None\n\n  def handle(self, record):\n    rv = self.filter(record)\n    if rv:\n      self.emit(record)\n    return rv\n\n  def emit(self, record):\n    \"\"\"Save a logging.LogRecord to our test record.\n",
  'record handler without a lock: the two appends of add_log_record interleave')
M('C06', 'c06-notification-hook-not-detached', 'openhtf/core/measurements.py',
  "    if not notification_cb and self.dimensions:\n",
  "    if notification_cb and self.dimensions:\n",
  'dimensioned value keeps its notification hook after the phase was finalized')
M('C05', 'c05-monitored-phase-drops-result', 'openhtf/core/monitors.py',
  "        return phase_desc(test_state, *args, **kwargs)\n",
  "        phase_desc(test_state, *args, **kwargs)\n",
  'the @monitors wrapper drops the result of the body')
M('C12', 'c12-monitor-killed-once', 'openhtf/core/monitors.py',
  "        while monitor_thread.is_alive():\n          monitor_thread.kill()\n          monitor_thread.join(_KILL_RETRY_INTERVAL_S)\n",
  "        monitor_thread.kill()\n        monitor_thread.join()\n",
  'F37 reverted: the monitor thread is asked to end only once and joined without a time-out')


# ---------------------------------------------------------------- round 6
M('C05', 'c05-options-layer-resets-repeat-limit', 'openhtf/core/phase_descriptor.py',
  "  repeat_limit = attr.ib(type=Optional[int], default=None)\n",
  "  repeat_limit = attr.ib(type=Optional[int], default=DEFAULT_REPEAT_LIMIT)\n",
  'a second PhaseOptions layer that does not mention repeat_limit resets it to the default')
M('C06', 'c06-with-args-drops-plain-validators', 'openhtf/core/measurements.py',
  "        v.with_args(**kwargs) if hasattr(v, 'with_args') else v\n        for v in self.validators\n",
  "        v.with_args(**kwargs) for v in self.validators\n        if hasattr(v, 'with_args')\n",
  'Measurement.with_args drops validators that have no with_args method')
M('C11', 'c11-monitor-args-updated-in-place', 'openhtf/core/monitors.py',
  "    return self.monitor_desc.with_args(**kwargs)(self.test_state)\n",
  "    self.monitor_desc.extra_kwargs.update(kwargs)\n    return self.monitor_desc(self.test_state)\n",
  'the shared monitor descriptor is updated in place with the monitored phase\'s arguments')
M('C17', 'c17-unbuffered-staging-file', 'openhtf/output/callbacks/__init__.py',
  "    self.temp = tempfile.NamedTemporaryFile(delete=False)\n",
  "    self.temp = tempfile.NamedTemporaryFile(delete=False, buffering=0)\n",
  'unbuffered staging file: a write cut short by the OS returns a short count instead of raising')
M('C18', 'c18-phase-finished-notified-before-cleared', 'openhtf/core/test_state.py',
  "      self.running_phase_state = None\n      self._running_test_api = None\n      self.notify_update()  # Phase finished.\n",
  "      self.notify_update()  # Phase finished.\n      self.running_phase_state = None\n      self._running_test_api = None\n",
  'the phase-finished notification is issued before the running phase is cleared')


# ---------------------------------------------------------------- round 7
M('C19', 'c19-record-message-reused', 'openhtf/util/logs.py',
  "      message = self.format(record)\n",
  "      message = getattr(record, 'message', None)\n      if message is None:\n        message = self.format(record)\n",
  'the record handler reuses record.message as built by an earlier handler (before the MAC filter ran)')
M('C12', 'c12-exception-logged-before-outcome-stored', 'openhtf/core/phase_executor.py',
  "    self._phase_execution_outcome = PhaseExecutionOutcome(ExceptionInfo(*args))\n    self._log_exception('Phase %s raised an exception', self._phase_desc.name)\n",
  "    self._log_exception('Phase %s raised an exception', self._phase_desc.name)\n    self._phase_execution_outcome = PhaseExecutionOutcome(ExceptionInfo(*args))\n",
  'the exception of a body is logged before its outcome is stored (a slow handler turns it into a time-out)')
M('C09', 'c09-unset-dimensioned-value-read-in-details', 'openhtf/core/test_state.py',
  "      message.append(f'  measured_value: {measurement.measured_value}')\n",
  "      message.append(f'  measured_value: {measurement.measured_value.value}')\n",
  'outcome details read .value of a dimensioned measurement that may never have been set')


# ---------------------------------------------------------------- round 8
M('C06', 'c06-dimensions-setter-drops-transform', 'openhtf/core/measurements.py',
  "    self._dimensions = value\n    self._initialize_value()\n",
  "    self._dimensions = value\n    fn, self._transform_fn = self._transform_fn, None\n    self._initialize_value()\n    self._transform_fn = fn\n",
  'a transform / precision declared before the dimensions is not handed to the dimensioned value')
M('C16', 'c16-bare-info-dropped', 'openhtf/plugs/usb/fastboot_protocol.py',
  "      if header == 'INFO':\n        info_cb(FastbootMessage(remaining, header))\n",
  "      if header == 'INFO':\n        if remaining:\n          info_cb(FastbootMessage(remaining, header))\n",
  'an INFO packet without text is not forwarded to the callback')
