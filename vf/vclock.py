"""E3 — virtual clock for phase time-outs.

The harness replaces the name `time` inside openhtf.core.phase_executor by a
shim whose monotonic() reads a virtual clock, and PhaseExecutorThread.join by a
discrete-event join: virtual time advances only while the executor waits in
join() and the running body is parked in vsleep() (or declared hung); whoever
has the earliest virtual wake-up time goes next.  Real time.sleep() (used by
PhaseExecutor.stop) is left alone.
"""
import threading
import time as _real


class VClock:

  def __init__(self):
    self.now = 0.0
    self.cv = threading.Condition()
    self.sleepers = {}      # thread -> virtual wake-up time
    self.hung = set()       # threads that will never return (unkillable bodies)
    self.joins = 0
    self.advances = 0

  def monotonic(self):
    with self.cv:
      return self.now

  def vsleep(self, dt):
    """Parks the calling body for dt virtual seconds (killable: real 5 ms
    slices so that an asynchronous ThreadTerminationError is delivered)."""
    me = threading.current_thread()
    with self.cv:
      wake = self.now + dt
      self.sleepers[me] = wake
      self.cv.notify_all()
      try:
        while self.now < wake:
          self.cv.wait(0.005)
      finally:
        self.sleepers.pop(me, None)
        self.cv.notify_all()

  def hang_unkillable(self):
    """Blocks the calling body in a C wait for the rest of the process life."""
    me = threading.current_thread()
    with self.cv:
      self.hung.add(me)
      self.cv.notify_all()
    threading.Event().wait()

  def vjoin(self, thread, timeout):
    """Discrete-event replacement for PhaseExecutorThread.join(timeout)."""
    with self.cv:
      self.joins += 1
      end = self.now + (timeout if timeout is not None else 1e9)
    while True:
      threading.Thread.join(thread, 0.002)
      if not thread.is_alive():
        return
      with self.cv:
        if self.now >= end:
          return
        wake = self.sleepers.get(thread)
        if wake is not None:
          self.now = min(wake, end)
          self.advances += 1
          self.cv.notify_all()
          if self.now >= end and self.now < wake:
            return
        elif thread in self.hung:
          self.now = end
          self.advances += 1
          return
        # otherwise the body is busy in real code: keep polling in real time


class TimeShim:
  """Stands in for the `time` module inside phase_executor."""

  def __init__(self, vc):
    self.vc = vc

  def monotonic(self):
    return self.vc.monotonic()

  def sleep(self, s):
    _real.sleep(s)

  def time(self):
    return _real.time()

  def __getattr__(self, name):
    return getattr(_real, name)


_installed = {}


def install(phase_executor):
  """Idempotent; returns the process-wide VClock."""
  if 'vc' not in _installed:
    vc = VClock()
    phase_executor.time = TimeShim(vc)
    phase_executor.PhaseExecutorThread.join = (
        lambda self, timeout=None: vc.vjoin(self, timeout))
    _installed['vc'] = vc
  return _installed['vc']
