"""Dev tool: differential smoke run of the E1 model against a tree."""
import sys, random, json, collections, time
seed = int(sys.argv[1]); N = int(sys.argv[2]); mode = sys.argv[3] if len(sys.argv) > 3 else 'rand'
sys.argv = ['x']
from vf import progmodel as pm
pm.htf()
rng = random.Random(seed)
kinds = collections.Counter(); ex = {}
t0 = time.time()
if mode == 'rand':
  cases = ((pm.gen_program(rng), pm.gen_cfg(rng)) for _ in range(N))
else:
  import itertools
  cases = ((p, {}) for p in itertools.islice(pm.enum_programs(mode, 3), N))
n = 0
for prog, cfg in cases:
  n += 1
  real = pm.run_real(prog, cfg)
  model = pm.run_model(prog, cfg)
  d = pm.diff(real, model)
  if d or real.get('exc'):
    sig = (tuple(d), tuple(sorted(set(c[0] + '@' + c[1] for c in real.get('crash', [])))), real.get('exc'))
    kinds[sig] += 1
    if sig not in ex or len(json.dumps(prog)) < len(json.dumps(ex[sig][0])):
      ex[sig] = (prog, cfg, real, model)
print(n, 'programs', round(time.time() - t0, 1), 's;', sum(kinds.values()), 'mismatches')
for sig, c in kinds.most_common():
  prog, cfg, real, model = ex[sig]
  print('----', c, sig, cfg)
  print(json.dumps(prog))
  for k in sig[0]:
    print('   ', k, '\n      real ', real.get(k), '\n      model', model.get(k))
