import sys, json
sys_argv = sys.argv[:]; sys.argv=['x']
from vf import progmodel as pm
pm.htf()
c = json.load(open(sys_argv[1]))['case']
print(json.dumps(c['prog'])); print(c.get('cfg'))
real = pm.run_real(c['prog'], c.get('cfg') or {}); model = pm.run_model(c['prog'], c.get('cfg') or {})
for k in pm.diff(real, model):
  print(k, '\n  real ', json.dumps(pm.norm(real.get(k))), '\n  model', json.dumps(pm.norm(model.get(k))))
print('crash', real['crash'])
